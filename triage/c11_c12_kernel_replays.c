#include <stdio.h>
#include <stdlib.h>
#include <math.h>
#include "scientific.h"
int main(int argc, char **argv){ int c = atoi(argv[1]); size_t i,j,k;
  if(c==1){ /* outer product v1 v2' with v2 shorter than v1, result matrix matching in one dimension */ dvector *a,*b; NewDVector(&a,3); NewDVector(&b,2); for(i=0;i<3;i++) a->data[i]=i+1; b->data[0]=10; b->data[1]=20;
     matrix *m; NewMatrix(&m,3,1); DVectorTrasposedDVectorDotProduct(a,b,m); printf("outer %zux%zu m[2][1]=%g (expected 60)\n", m->row,m->col,m->data[2][1]); }
  if(c==2){ /* eigen-based SVD of a wide matrix */ matrix *m,*u,*s,*vt; NewMatrix(&m,2,4); for(i=0;i<2;i++)for(j=0;j<4;j++) m->data[i][j]=(i+1)*(j+2)+0.3*i*j; initMatrix(&u);initMatrix(&s);initMatrix(&vt); SVD(m,u,s,vt); printf("SVD wide: S %zux%zu\n", s->row,s->col); }
  if(c==3||c==4){ /* LAPACK SVD of a rectangular matrix: factors must multiply back */ size_t r = c==3?4:2, q = c==3?2:4; matrix *m,*u,*s,*vt; NewMatrix(&m,r,q); for(i=0;i<r;i++)for(j=0;j<q;j++) m->data[i][j]=sin(1.0+i*q+j)+0.1*i;
     initMatrix(&u);initMatrix(&s);initMatrix(&vt); SVDlapack(m,u,s,vt); double e=0; for(i=0;i<r;i++)for(j=0;j<q;j++){ double x=0; for(k=0;k<s->row;k++) x+=u->data[i][k]*s->data[k][k]*vt->data[k][j]; e=fmax(e,fabs(x-m->data[i][j])); }
     printf("SVDlapack %zux%zu: u %zux%zu s %zux%zu vt %zux%zu, reconstruction error %g\n", r,q,u->row,u->col,s->row,s->col,vt->row,vt->col,e); }
  return 0; }
