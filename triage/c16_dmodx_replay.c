#include <stdio.h>
#include <unistd.h>
#include "scientific.h"
void WritePCA(char*, PCAMODEL*); void ReadPCA(char*, PCAMODEL*);
int main(){ matrix *x; size_t i,j; NewMatrix(&x,5,3); for(i=0;i<5;i++)for(j=0;j<3;j++) x->data[i][j]=(double)((i*5+j*3)%7)+0.25*i*j;
  PCAMODEL *m,*r; NewPCAModel(&m); PCA(x,1,2,m,NULL); unlink("d.sqlite3"); WritePCA("d.sqlite3",m); NewPCAModel(&r); ReadPCA("d.sqlite3",r);
  printf("dmodx written model %zux%zu, read back %zux%zu\n", m->dmodx->row,m->dmodx->col,r->dmodx->row,r->dmodx->col); unlink("d.sqlite3");
  return !(m->dmodx->row==r->dmodx->row && m->dmodx->col==r->dmodx->col); }
