#include <stdio.h>
#include <math.h>
#include "scientific.h"
/* 2 responses, 3 latent variables: recalc_residuals column c must equal recalculated_y column c minus response (c % 2) */
int main(){ matrix *x,*y; size_t i,j; NewMatrix(&x,8,4); NewMatrix(&y,8,2);
  for(i=0;i<8;i++){ for(j=0;j<4;j++) x->data[i][j]=(double)((i*7+j*5)%11)+0.37*j*i; y->data[i][0]=x->data[i][0]+2*x->data[i][2]; y->data[i][1]=100+3*x->data[i][1]-x->data[i][3]; }
  PLSMODEL *m; NewPLSModel(&m); PLS(x,y,3,1,0,m,NULL);
  int bad=0; for(j=0;j<m->recalc_residuals->col;j++){ double e=0; for(i=0;i<8;i++) e=fmax(e,fabs(m->recalc_residuals->data[i][j]-(m->recalculated_y->data[i][j]-y->data[i][j%2])));
    printf("column %zu (LV %zu, response %zu): max |residual - (recalc - y)| = %g\n", j, j/2+1, j%2, e); if(e>1e-9) bad=1; }
  printf("%s\n", bad?"MISMATCH":"ok"); return bad; }
