#include <stdio.h>
#include <math.h>
#include "scientific.h"
/* leave-one-out PLS, 2 responses, 2 LVs: residual column c must be prediction column c minus response (c % 2) */
int main(){ matrix *x,*y; size_t i,j; NewMatrix(&x,9,3); NewMatrix(&y,9,2);
  for(i=0;i<9;i++){ for(j=0;j<3;j++) x->data[i][j]=(double)((i*7+j*5)%11)+0.37*j*i; y->data[i][0]=x->data[i][0]+2*x->data[i][2]; y->data[i][1]=100+3*x->data[i][1]; }
  MODELINPUT in = initModelInput(); in.mx=x; in.my=y; in.nlv=2; in.xautoscaling=1; in.yautoscaling=0;
  matrix *p,*r; initMatrix(&p); initMatrix(&r);
  LeaveOneOut(&in, _PLS_, p, r, 2, NULL, 0);
  int bad=0; for(j=0;j<r->col;j++){ double e=0; for(i=0;i<9;i++) e=fmax(e,fabs(r->data[i][j]-(p->data[i][j]-y->data[i][j%2]))); printf("col %zu: %g\n",j,e); if(e>1e-9) bad=1; }
  printf("%s\n", bad?"MISMATCH":"ok"); return bad; }
