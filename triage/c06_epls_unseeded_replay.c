#include <stdio.h>
#include "scientific.h"
/* EPLS (fixed random subspace) on the same input after two different unrelated RNG histories:
   the selected feature subsets must be identical ("same results for the same inputs ... regardless of
   what other library calls run"). */
static void run(unsigned pre, size_t out[6]){
  matrix *x,*y; size_t i,j;
  NewMatrix(&x,12,5); NewMatrix(&y,12,1);
  for(i=0;i<12;i++){ for(j=0;j<5;j++) x->data[i][j]=(double)((i*7+j*3)%11)+0.1*j; y->data[i][0]=x->data[i][0]-x->data[i][3]+0.2*((i*5)%7);}
  srand_(pre); (void)randInt(0,10);           /* unrelated earlier library use */
  EPLSMODEL *m; NewEPLSModel(&m);
  ELearningParameters ep = initElearningParameters(); ep.algorithm = FixedRandomSubspaceMethod; ep.n_models = 3; ep.r_fix = 2; ep.trainsize=0.7;
  EPLS(x,y,1,1,0,m,ep,NULL);
  for(i=0;i<3;i++) for(j=0;j<2;j++) out[i*2+j]=m->model_feature_ids[i]->data[j];
  DelEPLSModel(&m); DelMatrix(&x); DelMatrix(&y);
}
int main(){ size_t a[6],b[6]; int i,d=0; run(1,a); run(12345,b);
  for(i=0;i<6;i++){ printf("%zu/%zu ",a[i],b[i]); if(a[i]!=b[i]) d=1; }
  printf("\n%s\n", d? "DIFFERENT feature subsets for identical inputs":"identical");
  return d; }
