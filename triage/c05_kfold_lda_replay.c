#include <stdio.h>
#include "scientific.h"
/* user-grouped k-fold CV with the LDA learner (documented in modelvalidation.h): every object must get a prediction */
int main(){ matrix *x,*y; size_t i; NewMatrix(&x,12,2); NewMatrix(&y,12,1); uivector *g; NewUIVector(&g,12);
  for(i=0;i<12;i++){ x->data[i][0]=(i<6? 1.0:5.0)+0.1*(i%5); x->data[i][1]=(i<6? 2.0:-3.0)+0.07*((i*3)%7); y->data[i][0]=(i<6?0:1); g->data[i]=i%3; }
  MODELINPUT in = initModelInput(); in.mx=x; in.my=y;
  matrix *p; initMatrix(&p);
  KFoldCV(&in, g, _LDA_, p, NULL, 2, NULL, 0);
  printf("predicted %zu x %zu:", p->row, p->col); int ok = (p->row==12); for(i=0;i<p->row;i++){ printf(" %g", p->data[i][0]); if((int)p->data[i][0]!=(int)y->data[i][0]) ok=0; } printf("\n%s\n", ok?"ok":"WRONG");
  return !ok; }
