#include <stdio.h>
#include <stdlib.h>
#include "scientific.h"
/* each case is a sequence of valid container operations; run under AddressSanitizer */
int main(int argc, char **argv){ int c = atoi(argv[1]);
  if(c==1){ /* append a column shorter than the matrix is tall */ matrix *m; NewMatrix(&m,3,2); dvector *v; NewDVector(&v,1); v->data[0]=7; MatrixAppendCol(m,v); printf("AppendCol short: %zux%zu\n",m->row,m->col); DelMatrix(&m); DelDVector(&v); }
  if(c==2){ /* delete a row beyond the last one */ matrix *m; NewMatrix(&m,2,2); MatrixDeleteRowAt(m,5); printf("DeleteRowAt(5): %zux%zu\n",m->row,m->col); DelMatrix(&m); }
  if(c==3){ matrix *m; NewMatrix(&m,2,2); MatrixDeleteColAt(m,2); printf("DeleteColAt(2): %zux%zu\n",m->row,m->col); DelMatrix(&m); }
  if(c==4){ /* out-of-range string accessor */ strvector *s; NewStrVector(&s,1); setStr(s,3,"x"); printf("setStr(3) returned\n"); DelStrVector(&s); }
  if(c==5){ /* copies are deep: delete the extension and both sources */ strvector *a,*b; initStrVector(&a); initStrVector(&b); StrVectorAppend(a,"one"); StrVectorAppend(b,"two"); strvector *e = StrVectorExtend(a,b); DelStrVector(&e); DelStrVector(&a); DelStrVector(&b); printf("Extend + deletes ok\n"); }
  if(c==6){ /* create and delete a list */ dvectorlist *l; NewDVectorList(&l,2); DelDVectorList(&l); printf("list ok\n"); }
  if(c==7){ /* create and delete a tensor */ tensor *t; NewTensor(&t,2); DelTensor(&t); printf("tensor ok\n"); }
  if(c==8){ /* copy a 1-block tensor into a 2-block tensor, then delete both */ tensor *a,*b; NewTensor(&a,1); NewTensorMatrix(a,0,2,2); NewTensor(&b,2); NewTensorMatrix(b,0,1,1); NewTensorMatrix(b,1,1,1); TensorCopy(a,&b); printf("copy: dst order %zu\n", b->order); DelTensor(&a); DelTensor(&b); }
  if(c==9){ /* copy a 2-block tensor into a 1-block tensor */ tensor *a,*b; NewTensor(&a,2); NewTensorMatrix(a,0,2,2); NewTensorMatrix(a,1,2,2); NewTensor(&b,1); NewTensorMatrix(b,0,1,1); TensorCopy(a,&b); printf("copy: dst order %zu\n", b->order); DelTensor(&a); DelTensor(&b); }
  return 0; }
