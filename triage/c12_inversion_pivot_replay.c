#include <stdio.h>
#include <math.h>
#include "scientific.h"
/* well-conditioned matrices with a zero leading entry need pivoting: M * inv(M) must be the identity */
int main(){ double A[3][3]={{0,2,1},{1,0,3},{4,1,0}}; matrix *m,*inv; size_t i,j,k; NewMatrix(&m,3,3); for(i=0;i<3;i++)for(j=0;j<3;j++) m->data[i][j]=A[i][j];
  initMatrix(&inv); MatrixInversion(m,inv); double e=0; for(i=0;i<3;i++)for(j=0;j<3;j++){ double x=0; for(k=0;k<3;k++) x+=m->data[i][k]*inv->data[k][j]; double d=fabs(x-(i==j)); if(!(d<=e)) e=d; }
  printf("max |M*inv(M) - I| = %g\n", e); return !(e<1e-9); }
