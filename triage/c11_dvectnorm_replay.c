#include <stdio.h>
#include "scientific.h"
int main(){ dvector *v,*nv; NewDVector(&v,3); NewDVector(&nv,2); v->data[0]=3; v->data[1]=4; v->data[2]=12; DVectNorm(v,nv); printf("normalised into a shorter vector without error\n"); return 0; }
