#include <stdio.h>
#include <stdlib.h>
#include "scientific.h"
int main(int argc, char **argv){
  int which = atoi(argv[1]);
  matrix *x; NewMatrix(&x,2,2); x->data[0][0]=1; x->data[0][1]=2; x->data[1][0]=3; x->data[1][1]=4;
  if(which==0){ PCAMODEL *m; NewPCAModel(&m); PCA(x,0,2,m,NULL); printf("PCA returned varexp %f %f\n", m->varexp->data[0], m->varexp->data[1]); }
  if(which==1){ matrix *y; NewMatrix(&y,2,1); y->data[0][0]=1; y->data[1][0]=2; PLSMODEL *m; NewPLSModel(&m); PLS(x,y,2,0,0,m,NULL); printf("PLS returned\n"); }
  if(which==2){ tensor *t; NewTensor(&t,2); NewTensorMatrix(t,0,3,2); NewTensorMatrix(t,1,3,2);
     double v[3][2]={{-1,-2},{0,0},{1,2}}; for(int k=0;k<2;k++)for(int i=0;i<3;i++)for(int j=0;j<2;j++) t->m[k]->data[i][j]=v[i][j]*(k+1);
     CPCAMODEL *m; NewCPCAModel(&m); CPCA(t,0,2,m); printf("CPCA returned\n"); }
  return 0; }
