#include <stdio.h>
#include <math.h>
#include "scientific.h"
/* range scaling (option 4) of a column whose FIRST entry is missing-coded: the other entries must be scaled by max-min of the present ones (2) */
int main(){ matrix *x,*t; NewMatrix(&x,3,1); x->data[0][0]=MISSING; x->data[1][0]=1; x->data[2][0]=3; NewMatrix(&t,3,1);
  dvector *avg,*sc; initDVector(&avg); initDVector(&sc); MatrixPreprocess(x,4,avg,sc,t);
  printf("average %g scaling %g (expected 2 and 2); transformed: %g %g\n", avg->data[0], sc->data[0], t->data[1][0], t->data[2][0]);
  return !(fabs(sc->data[0]-2)<1e-12); }
