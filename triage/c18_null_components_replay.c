/* C18 replay: "the components that are mathematically defined are finite ... and explained variance beyond the rank is zero rather than NaN".
 * Rank-1 integer data (exact cancellation), 3 columns, 3 components requested: two null components.
 * The first null component makes the convergence criterion NaN (exit added by the termination repair); its NaN score/loading are
 * stored and E -= t p' turns the whole residual into NaN, so everything after it is NaN as well.
 * exit 0: all explained variances finite (zero beyond the rank) and the leading component finite; exit 1 otherwise. */
#include <stdio.h>
#include <math.h>
#include "scientific.h"
static int check(const char *what, dvector *v, size_t from){
  size_t i; int bad = 0;
  for(i = 0; i < v->size; i++){
    printf("  %s[%zu] = %g\n", what, i, v->data[i]);
    if(isnan(v->data[i]) || isinf(v->data[i])) bad++;
    else if(i >= from && fabs(v->data[i]) > 1e-9) bad++;
  }
  return bad;
}
int main(void){
  int bad = 0; size_t i, j;
  matrix *x; PCAMODEL *m;
  NewMatrix(&x, 6, 3);
  for(i = 0; i < 6; i++) for(j = 0; j < 3; j++) x->data[i][j] = (double)((i+1)*(j+1));   /* rank 1, also after centring */
  NewPCAModel(&m);
  PCA(x, 0, 3, m, NULL);
  puts("PCA, rank-1 data, 3 components:");
  bad += check("varexp", m->varexp, 1);
  for(i = 0; i < m->scores->row; i++) if(isnan(m->scores->data[i][0])) bad++;
  DelPCAModel(&m);
  {
    matrix *y; PLSMODEL *p;
    NewMatrix(&y, 6, 1);
    for(i = 0; i < 6; i++) y->data[i][0] = 2.0*(i+1) + ((i%2) ? 0.5 : -0.5);
    NewPLSModel(&p);
    PLS(x, y, 3, 0, 0, p, NULL);
    puts("PLS, rank-1 X, 3 latent variables:");
    bad += check("xvarexp", p->xvarexp, 1);
    for(i = 0; i < p->xscores->row; i++) if(isnan(p->xscores->data[i][0])) bad++;
    DelPLSModel(&p);
    DelMatrix(&y);
  }
  DelMatrix(&x);
  if(bad){ printf("FAIL: %d non-finite / non-zero values beyond the rank\n", bad); return 1; }
  puts("OK"); return 0;
}
