#include <stdio.h>
#include <unistd.h>
#include "scientific.h"
/* write a 4x3 PCA model (2 PCs), then a 3x2 model (1 PC) to the same path; the file must read back as the second one */
static void fit(size_t n, size_t p, size_t npc, PCAMODEL **m){ matrix *x; size_t i,j; NewMatrix(&x,n,p);
  for(i=0;i<n;i++)for(j=0;j<p;j++) x->data[i][j]=(double)((i*5+j*3)%7)+0.25*i*j; NewPCAModel(m); PCA(x,1,npc,*m,NULL); DelMatrix(&x); }
int main(){ PCAMODEL *a,*b,*r; fit(4,3,2,&a); fit(3,2,1,&b); unlink("c16.sqlite3");
  WritePCA("c16.sqlite3",a); WritePCA("c16.sqlite3",b); NewPCAModel(&r); ReadPCA("c16.sqlite3",r);
  printf("second model: scores %zux%zu colaverage %zu | read back: scores %zux%zu colaverage %zu\n", b->scores->row,b->scores->col,b->colaverage->size, r->scores->row,r->scores->col,r->colaverage->size);
  int ok = r->scores->row==b->scores->row && r->scores->col==b->scores->col && r->colaverage->size==b->colaverage->size;
  printf("%s\n", ok?"ok":"STALE/APPENDED"); unlink("c16.sqlite3"); return !ok; }
