/* Replay for C02 / C01 on the unchanged tree: PCA of a centred-only (scaling 0) matrix must give the same loadings whatever the units of the data.
 * The NIPALS loop adds E't into the loading vector without resetting it (p <- unit(p_prev + E'E p_prev / 1)), i.e. it iterates on I + E'E.
 * For data of small magnitude E'E << I: the iterate hardly moves, the relative convergence test fires at once and the "component" is not a principal axis.
 * Build: gcc c02_pca_scale_replay.c -I<src> -I<build> -L<build>/src -lscientific -lm -lpthread */
#include <stdio.h>
#include <math.h>
#include "matrix.h"
#include "pca.h"

static double X0[12][3] = {
 {2.1, 0.5, 1.0},{1.9, 0.7, 1.4},{3.2, 1.1, 0.2},{4.1, 1.9, 0.9},{5.3, 2.2, 1.7},{6.0, 3.1, 0.4},
 {7.2, 3.3, 1.1},{8.1, 4.2, 1.9},{9.4, 4.4, 0.3},{10.2, 5.3, 1.2},{11.1, 5.2, 1.6},{12.3, 6.4, 0.8}};

static void fit(double scale, double load[3][2], double varexp[2])
{
  matrix *m; PCAMODEL *mod; size_t i, j;
  NewMatrix(&m, 12, 3);
  for(i = 0; i < 12; i++) for(j = 0; j < 3; j++) m->data[i][j] = X0[i][j]*scale;
  NewPCAModel(&mod);
  PCA(m, 0, 2, mod, NULL);
  for(i = 0; i < 3; i++) for(j = 0; j < 2; j++) load[i][j] = mod->loadings->data[i][j];
  for(j = 0; j < 2; j++) varexp[j] = mod->varexp->data[j];
  DelPCAModel(&mod); DelMatrix(&m);
}

int main(void)
{
  double l1[3][2], l2[3][2], v1[2], v2[2], worst = 0; int i, j, bad = 0;
  double scales[] = {1e-1, 1e-2, 1e-3, 1e-4};
  fit(1.0, l1, v1);
  printf("scale 1      : loading 1 = (%.6f %.6f %.6f)  varexp = %.4f %.4f\n", l1[0][0], l1[1][0], l1[2][0], v1[0], v1[1]);
  for(int s = 0; s < 4; s++){
    fit(scales[s], l2, v2);
    double d = 0;
    for(j = 0; j < 2; j++){
      double sgn = (l1[0][j]*l2[0][j] + l1[1][j]*l2[1][j] + l1[2][j]*l2[2][j]) < 0 ? -1 : 1;
      for(i = 0; i < 3; i++) d = fmax(d, fabs(l1[i][j] - sgn*l2[i][j]));
    }
    printf("scale %-7g: loading 1 = (%.6f %.6f %.6f)  varexp = %.4f %.4f   max |loading difference| = %.3g\n", scales[s], l2[0][0], l2[1][0], l2[2][0], v2[0], v2[1], d);
    if(d > 1e-4) bad++;
    worst = fmax(worst, d);
  }
  if(bad){ printf("FAIL: the loadings depend on the units of the data (worst %.3g)\n", worst); return 1; }
  printf("OK: loadings independent of the units\n");
  return 0;
}
