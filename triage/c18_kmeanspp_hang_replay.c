#include <stdio.h>
#include "scientific.h"
/* k-means++ seeding on duplicated rows: every distance is 0, no candidate is ever accepted */
int main(){ matrix *m; NewMatrix(&m,6,2); MatrixSet(m,1.0);
  uivector *lab; initUIVector(&lab); matrix *c; initMatrix(&c);
  KMeans(m,2,1,lab,c,2); printf("KMeans returned\n"); return 0; }
