/* C10 replay: "Applying the stored averages/scalings to the same matrix reproduces the training transform".
 *
 * MatrixPreprocess has a fit branch (empty colaverage/colscaling: statistics are computed and applied) and an apply branch
 * (stored statistics are applied).  The two branches disagree on
 *   (a) the zero-spread tolerance: fit zeroes a column when |scaling| < EPSILON (1e-3), apply when |scaling| < 1e-2:
 *       with level scaling (option 5, scaling = column mean) and a column of mean 0.005 the training transform divides by
 *       0.005 while the re-application zeroes the column;
 *   (b) missing cells: fit skips cells carrying the MISSING code, apply subtracts the average from the code and divides it.
 *
 * build: gcc -I/repo/src -I<build dir> c10_fit_apply_replay.c /repo/src/{preprocessing,matrix,vector,tensor,numeric,memwrapper,algebra,list,statistic,...}.c -llapack -lblas -lm -lpthread
 * (tools/replay.sh builds against the scratch libscientific.so)
 * exit 0: both branches agree; exit 1: they differ (prints where). */
#include <stdio.h>
#include <math.h>
#include "matrix.h"
#include "vector.h"
#include "numeric.h"
#include "preprocessing.h"

static int compare(const char *what, matrix *a, matrix *b)
{
  size_t i, j; int bad = 0;
  for(i = 0; i < a->row; i++)
    for(j = 0; j < a->col; j++)
      if(fabs(a->data[i][j] - b->data[i][j]) > 1e-9*(1+fabs(a->data[i][j]))){
        if(bad < 4) printf("  %s: cell [%zu][%zu] training transform %.10g, re-applied %.10g\n", what, i, j, a->data[i][j], b->data[i][j]);
        bad++;
      }
  return bad;
}

int main(void)
{
  int bad = 0;
  size_t i;
  matrix *x, *t1, *t2; dvector *avg, *sc;
  /* (a) level scaling, column 0 has mean 0.005 */
  NewMatrix(&x, 6, 2);
  for(i = 0; i < 6; i++){ x->data[i][0] = 0.005 + 0.001*((double)i-2.5); x->data[i][1] = 3.0 + i; }
  NewMatrix(&t1, 6, 2); NewMatrix(&t2, 6, 2);
  initDVector(&avg); initDVector(&sc);
  MatrixPreprocess(x, 5, avg, sc, t1);      /* fit */
  MatrixPreprocess(x, 5, avg, sc, t2);      /* apply the stored statistics to the same matrix */
  printf("(a) level scaling, stored scaling of column 0 = %g\n", sc->data[0]);
  bad += compare("(a)", t1, t2);
  DelMatrix(&t1); DelMatrix(&t2); DelDVector(&avg); DelDVector(&sc);

  /* (b) a missing cell, unit-variance scaling */
  for(i = 0; i < 6; i++){ x->data[i][0] = 1.0 + 0.5*i; }
  x->data[2][1] = MISSING;
  NewMatrix(&t1, 6, 2); NewMatrix(&t2, 6, 2);
  initDVector(&avg); initDVector(&sc);
  MatrixPreprocess(x, 1, avg, sc, t1);
  MatrixPreprocess(x, 1, avg, sc, t2);
  printf("(b) missing cell [2][1]\n");
  bad += compare("(b)", t1, t2);
  DelMatrix(&t1); DelMatrix(&t2); DelDVector(&avg); DelDVector(&sc); DelMatrix(&x);
  if(bad){ printf("FAIL: %d cells differ between the training transform and its re-application\n", bad); return 1; }
  printf("OK: re-applying the stored statistics reproduces the training transform\n");
  return 0;
}
