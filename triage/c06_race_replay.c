#include <stdio.h>
#include <string.h>
#include "scientific.h"
/* run BootstrapRandomGroupsCV (PLS) many times with 4 threads; count distinct results */
int main(){
  matrix *x,*y; size_t i,j; int run, ndiff=0;
  NewMatrix(&x,20,3); NewMatrix(&y,20,1);
  for(i=0;i<20;i++){ for(j=0;j<3;j++) x->data[i][j]=(double)((i*7+j*3)%11)+0.1*j; y->data[i][0]=x->data[i][0]*2-x->data[i][1]+0.3*((i*5)%7);}
  matrix *ref; initMatrix(&ref);
  for(run=0;run<400;run++){
    matrix *p; initMatrix(&p);
    MODELINPUT minpt = initModelInput(); minpt.mx=x; minpt.my=y; minpt.nlv=2; minpt.xautoscaling=1; minpt.yautoscaling=0;
    BootstrapRandomGroupsCV(&minpt, 5, 16, _PLS_, p, NULL, 8, NULL, 0);
    if(run==0) MatrixCopy(p,&ref);
    else { int d=0; for(i=0;i<p->row;i++) for(j=0;j<p->col;j++) if(p->data[i][j]!=ref->data[i][j]) d=1; ndiff+=d; }
    DelMatrix(&p);
  }
  printf("runs differing from the first: %d / 399\n", ndiff);
  return ndiff!=0;
}
