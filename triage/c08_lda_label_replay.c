#include <stdio.h>
#include "scientific.h"
int main(int argc, char **argv){ int start = argc>1 ? atoi(argv[1]) : 1; size_t i;
  matrix *x,*y; NewMatrix(&x,12,2); NewMatrix(&y,12,1);
  for(i=0;i<12;i++){ x->data[i][0]=(i<6? 1.0:6.0)+0.1*((i*7)%5); x->data[i][1]=(i<6? 2.0:-3.0)+0.07*((i*3)%7)+0.01*i; y->data[i][0]=(i<6?0:1)+start; }
  LDAMODEL *m; NewLDAModel(&m); LDA(x,y,m);
  matrix *pf,*pr,*mn,*pred; initMatrix(&pf); initMatrix(&pr); initMatrix(&mn); initMatrix(&pred);
  LDAPrediction(x,m,pf,pr,mn,pred);
  int bad=0; printf("labels start at %d; predicted:", start); for(i=0;i<12;i++){ printf(" %g", pred->data[i][0]); if((int)pred->data[i][0]!=(int)y->data[i][0]) bad=1; } printf("\n%s\n", bad?"PREDICTED LABELS NOT IN TRAINING LABEL SET":"ok");
  /* one-vs-rest statistics from perfect predictions numbered from 0 */
  matrix *yt,*yp; NewMatrix(&yt,12,1); NewMatrix(&yp,12,1); for(i=0;i<12;i++){ yt->data[i][0]=i%3; yp->data[i][0]=i%3; }
  dvector *aucs,*prs; initDVector(&aucs); initDVector(&prs); LDAMulticlassStatistics(yt,yp,NULL,aucs,NULL,prs);
  printf("AUC for perfect predictions:"); for(i=0;i<aucs->size;i++){ printf(" %g", aucs->data[i]); if(!(aucs->data[i]>0.999)) bad|=2; } printf("\n");
  return bad; }
