#include <stdio.h>
#include <math.h>
#include "scientific.h"
/* natural cubic spline through knots spaced `dx` apart must reproduce the ordinates at the knots whatever the unit of x */
static double maxerr(double dx){ matrix *xy,*S; size_t i; NewMatrix(&xy,8,2); double ys[8]={0,3,-1,4,2,6,-2,5};
  for(i=0;i<8;i++){ xy->data[i][0]=dx*i; xy->data[i][1]=ys[i]; }
  initMatrix(&S); cubic_spline_interpolation(xy,S); dvector *x,*y; NewDVector(&x,7); initDVector(&y); for(i=0;i<7;i++) x->data[i]=dx*i;
  cubic_spline_predict(x,S,y); double e=0; for(i=0;i<7;i++) e=fmax(e,fabs(y->data[i]-ys[i])); return e; }
int main(){ double a=maxerr(1.0), b=maxerr(0.001); printf("max error at the knots: spacing 1 -> %g, spacing 0.001 -> %g\n", a, b); return !(a<1e-9 && b<1e-9); }
