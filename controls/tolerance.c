/* positive control for the tolerance rules (K.tolerance, RC.tolerance, FIT.tolerance): an absolute tolerance applied to a
   data-scaled quantity.  Parsed on every run; the rule must flag `control_abs_tolerance` (otherwise ANALYSIS-BROKEN). */
#define EPSILON 1e-3
#define FLOAT_EQ(x,v, EPSILON) (((v - EPSILON) < x) && (x <( v + EPSILON)))
double control_abs_tolerance(double *v, int n)
{
  int i;
  double mod = 0.;
  for(i = 0; i < n; i++)
    mod += v[i]*v[i];
  if(FLOAT_EQ(mod, 0.f, EPSILON)){
    mod = 1.;
  }
  return mod;
}
