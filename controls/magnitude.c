/* positive control for rule G.magnitude: a running maximum of magnitudes initialised with a signed value.
   Parsed on every run of C12; the rule must flag `control_signed_pivot` (otherwise the check is ANALYSIS-BROKEN). */
#include <math.h>
#include <stddef.h>
size_t control_signed_pivot(double *col, size_t n)
{
  size_t j, pivot = 0;
  double pmax = col[0];
  for(j = 1; j < n; j++){
    if(fabs(col[j]) > pmax){
      pmax = fabs(col[j]);
      pivot = j;
    }
  }
  return pivot;
}
