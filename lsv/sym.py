"""Integer polynomials over symbolic atoms, canonical conditions, a closed syntactic prover and
a bounded witness search inside the abstract domain (no solver, nothing is executed)."""
import itertools


class Poly:
    """sum of coeff * monomial; monomial = sorted tuple of atom names (with repetition)"""
    __slots__ = ('t',)

    def __init__(self, t=None):
        self.t = {k: v for k, v in (t or {}).items() if v != 0}

    @staticmethod
    def const(c):
        return Poly({(): int(c)})

    @staticmethod
    def atom(a):
        return Poly({(a,): 1})

    def __add__(self, o):
        o = _p(o)
        t = dict(self.t)
        for k, v in o.t.items():
            t[k] = t.get(k, 0) + v
        return Poly(t)

    __radd__ = __add__

    def __neg__(self):
        return Poly({k: -v for k, v in self.t.items()})

    def __sub__(self, o):
        return self + (-_p(o))

    def __rsub__(self, o):
        return _p(o) - self

    def __mul__(self, o):
        o = _p(o)
        t = {}
        for k1, v1 in self.t.items():
            for k2, v2 in o.t.items():
                k = tuple(sorted(k1 + k2))
                t[k] = t.get(k, 0) + v1 * v2
        return Poly(t)

    __rmul__ = __mul__

    def __eq__(self, o):
        return isinstance(o, (Poly, int)) and self.t == _p(o).t

    def __hash__(self):
        return hash(frozenset(self.t.items()))

    def is_const(self):
        return all(k == () for k in self.t)

    def const_value(self):
        return self.t.get((), 0) if self.is_const() else None

    def atoms(self):
        s = set()
        for k in self.t:
            s.update(k)
        return s

    def subst(self, m):
        """m: atom -> Poly|int"""
        if not any(a in m for a in self.atoms()):
            return self
        r = Poly()
        for k, v in self.t.items():
            term = Poly.const(v)
            for a in k:
                term = term * (_p(m[a]) if a in m else Poly.atom(a))
            r = r + term
        return r

    def eval(self, val):
        tot = 0
        for k, v in self.t.items():
            x = v
            for a in k:
                x *= val[a]
            tot += x
        return tot

    def coeff(self, atom):
        """coefficient polynomial of a linear occurrence of atom; None if non-linear"""
        r = Poly()
        for k, v in self.t.items():
            n = k.count(atom)
            if n == 0:
                continue
            if n > 1:
                return None
            kk = list(k)
            kk.remove(atom)
            r = r + Poly({tuple(kk): v})
        return r

    def nonneg_syntactic(self):
        """True if every coefficient is >= 0 (so the value is >= 0 for non-negative atoms)"""
        return all(v >= 0 for v in self.t.values())

    def __repr__(self):
        if not self.t:
            return '0'
        parts = []
        for k, v in sorted(self.t.items(), key=lambda kv: (len(kv[0]), kv[0])):
            mon = '*'.join(k)
            if not k:
                parts.append(str(v))
            elif v == 1:
                parts.append(mon)
            elif v == -1:
                parts.append('-' + mon)
            else:
                parts.append('%d*%s' % (v, mon))
        return ' + '.join(parts).replace('+ -', '- ')


def _p(x):
    return x if isinstance(x, Poly) else Poly.const(x)


# ---------------------------------------------------------------------------------------
# facts are polynomials p with meaning p >= 0

def fact_ge(a, b):     # a >= b
    return _p(a) - _p(b)


def fact_gt(a, b):     # a > b  (integers)
    return _p(a) - _p(b) - 1


def infeasible(p):
    """p >= 0 impossible when all atoms are non-negative: all coefficients <= 0 and constant < 0"""
    return all(v <= 0 for v in p.t.values()) and p.t.get((), 0) < 0


def prove_nonneg(goal, facts, max_combo=3, equalities=None):
    """Closed syntactic prover: goal >= 0 follows if goal - sum(c_i * fact_i) has only non-negative
    coefficients, for some choice of <= max_combo facts with small positive multipliers; atoms
    are non-negative (sizes, indices).  Facts may also be multiplied by a single atom
    (needed for  n*step >= R  style arguments)."""
    goal = _p(goal)
    if goal.nonneg_syntactic():
        return True
    if equalities:
        goal = goal.subst(equalities)
        if goal.nonneg_syntactic():
            return True
        facts = [f.subst(equalities) for f in facts]
    ga = goal.atoms()
    rel = [f for f in facts if f.atoms() & ga or f.is_const()]
    # one level of transitive relevance
    ra = set(ga)
    for f in rel:
        ra |= f.atoms()
    rel = [f for f in facts if f.atoms() & ra]
    rel = _dedupe(rel)[:40]
    cands = []
    for f in rel:
        cands.append(f)
    # products of a fact with an atom occurring in the goal's non-linear terms
    nl = {a for k in goal.t for a in k if len(k) > 1}
    for f in rel:
        for a in nl:
            cands.append(f * Poly.atom(a))
    cands = _dedupe(cands)[:80]
    for n in range(1, max_combo + 1):
        for combo in itertools.combinations(cands, n):
            for mult in itertools.product((1, 2), repeat=n) if n <= 2 else [(1,) * n]:
                r = goal
                for c, f in zip(mult, combo):
                    r = r - f * c
                if r.nonneg_syntactic():
                    return True
    return False


def _dedupe(ps):
    seen, out = set(), []
    for p in ps:
        h = hash(p)
        if h not in seen:
            seen.add(h)
            out.append(p)
    return out


# definitional atoms: name -> (op, Poly a, Poly b); their value is computed from the other atoms during witness search
DEFS = {}


def defined_atom(op, a, b):
    name = '%s(%s,%s)' % (op, a, b)
    DEFS[name] = (op, _p(a), _p(b))
    return name


def eval_def(name, val):
    op, a, b = DEFS[name]
    av, bv = a.eval(val), b.eval(val)
    if bv <= 0 or av < 0:
        return None
    if op == 'mod':
        return av % bv
    if op in ('div', 'floordiv'):
        return av // bv
    if op == 'ceildiv':
        return -((-av) // bv)
    return None


def find_witness(neg_goal, facts, dom=4, max_atoms=11, opaque=lambda a: a.startswith('?'), order=None, accept=None, must_atoms=None):
    """Search a valuation of the atoms (0..dom) satisfying every fact connected to neg_goal
    and neg_goal >= 0.  Returns dict or None; returns 'opaque' when an opaque atom is
    involved, 'toomany' when more than max_atoms atoms are connected."""
    neg_goal = _p(neg_goal)
    # Fourier-Motzkin style elimination of opaque atoms that occur linearly and with one sign only (and not in the goal):
    # such facts do not restrict the other atoms (choose the opaque value large/small enough), so they can be dropped
    # without enlarging the projection of the state onto the remaining atoms.
    facts = list(facts)
    goal_atoms = neg_goal.atoms()
    progress = True
    while progress:
        progress = False
        opq = {a for f in facts for a in f.atoms() if opaque(a) and a not in goal_atoms}
        for o in sorted(opq):
            fs = [f for f in facts if o in f.atoms()]
            signs = set()
            lin = True
            for f in fs:
                c = f.coeff(o)
                if c is None or c.const_value() is None:
                    lin = False
                    break
                signs.add(c.const_value() > 0)
            if lin and len(signs) == 1:
                facts = [f for f in facts if o not in f.atoms()]
                progress = True
                break
    atoms = set(neg_goal.atoms()) | set(must_atoms or ())
    conn = []
    changed = True
    pool = list(facts)
    while changed:
        changed = False
        for f in list(pool):
            if f.atoms() & atoms or not f.atoms():
                conn.append(f)
                pool.remove(f)
                if not f.atoms() <= atoms:
                    atoms |= f.atoms()
                    changed = True
    if any(opaque(a) for a in atoms):
        return 'opaque'
    if len([a for a in atoms if a not in DEFS]) > max_atoms:
        return 'toomany'
    # facts not connected to the goal must still be satisfiable on their own (small, non-opaque components are
    # checked by enumeration; others are assumed satisfiable: they come from a path the engine kept as feasible)
    rest = list(pool)
    while rest:
        comp = [rest.pop(0)]
        ca = set(comp[0].atoms())
        grew = True
        while grew:
            grew = False
            for f in list(rest):
                if f.atoms() & ca:
                    comp.append(f)
                    rest.remove(f)
                    ca |= f.atoms()
                    grew = True
        if not ca:
            if any(f.const_value() is not None and f.const_value() < 0 for f in comp):
                return None
            continue
        if any(opaque(a) for a in ca) or len(ca) > 5:
            continue
        cl = sorted(ca)
        sat = False
        for vals in itertools.product(range(dom + 1), repeat=len(cl)):
            v = dict(zip(cl, vals))
            if all(f.eval(v) >= 0 for f in comp):
                sat = True
                break
        if not sat:
            return None
    defs = [a for a in atoms if a in DEFS]
    # the arguments of definitional atoms must be valued too
    for d in defs:
        for x in DEFS[d][1].atoms() | DEFS[d][2].atoms():
            if x not in atoms:
                atoms.add(x)
    if any(opaque(a) for a in atoms):
        return 'opaque'
    al = sorted(a for a in atoms if a not in DEFS)
    if len(al) > max_atoms:
        return 'toomany'
    if order:
        al = order(al)
    # nested definitions are resolved in name-length order (arguments are shorter than the atoms built from them)
    dl = sorted([a for a in atoms if a in DEFS], key=len)
    return _search(al, dl, conn, neg_goal, dom, accept)


def _search(al, dl, conn, neg_goal, dom, accept=None):
    """backtracking enumeration: a constraint is checked as soon as all its atoms have a value"""
    # order atoms so that those of the goal and of many constraints come first
    weight = {a: 0 for a in al}
    for f in conn + [neg_goal]:
        for a in f.atoms():
            if a in weight:
                weight[a] += 1
    al = sorted(al, key=lambda a: (-weight[a], a))
    pos = {a: i for i, a in enumerate(al)}
    defdeps = {}
    for d in dl:
        deps = set()
        stack = [d]
        while stack:
            x = stack.pop()
            for y in DEFS[x][1].atoms() | DEFS[x][2].atoms():
                if y in DEFS:
                    stack.append(y)
                else:
                    deps.add(y)
        defdeps[d] = max([pos[y] for y in deps if y in pos] + [-1])
    cons = []
    for f in conn + [neg_goal]:
        lvl = -1
        for a in f.atoms():
            lvl = max(lvl, pos[a] if a in pos else defdeps.get(a, len(al) - 1))
        cons.append((lvl, f))
    by_level = {}
    for lvl, f in cons:
        by_level.setdefault(lvl, []).append(f)
    defs_at = {}
    for d in dl:
        defs_at.setdefault(defdeps[d], []).append(d)
    v = {}
    budget = [400000]

    def rec(i):
        if i == len(al):
            if accept is not None and not accept(v):
                return None
            return dict(v)
        a = al[i]
        for x in range(dom + 1):
            budget[0] -= 1
            if budget[0] < 0:
                return 'toomany'
            v[a] = x
            ok = True
            added = []
            for d in sorted(defs_at.get(i, []), key=len):
                try:
                    dv = eval_def(d, v)
                except KeyError:
                    dv = None
                if dv is None:
                    ok = False
                    break
                v[d] = dv
                added.append(d)
            if ok:
                for f in by_level.get(i, []):
                    if f.eval(v) < 0:
                        ok = False
                        break
            if ok:
                r = rec(i + 1)
                if r is not None:
                    return r
            for d in added:
                v.pop(d, None)
        v.pop(a, None)
        return None
    if not al:
        for d in dl:
            dv = eval_def(d, v)
            if dv is None:
                return None
            v[d] = dv
        return dict(v) if all(f.eval(v) >= 0 for f in conn + [neg_goal]) and (accept is None or accept(v)) else None
    # constraints without atoms at any level (constants)
    for f in by_level.get(-1, []):
        if not f.atoms() and f.const_value() is not None and f.const_value() < 0:
            return None
    return rec(0)
