"""E17: call-sequence algebra for the routines that are compositions of dense kernels (C12).

The body of MatrixMoorePenrosePseudoinverse, OrdinaryLeastSquares and MatrixPseudoinversion is read as a sequence of kernel calls
over symbolic matrix values (parameters, transpose, product, inverse, SVD factors); nothing is executed.  Along EVERY path to a
return the value of the output parameter must be the defining expression:

  MX.definition     pinv(A) = (A'A)^-1 A'        ols(X, y) = (X'X)^-1 (X'y)        pinv_sym(M) = U S^-1 V'  with (U, S, V') = SVD(M)
  MX.symmetric-arg  MatrixPseudoinversion returns U S^-1 V', which is the pseudo-inverse only when U and V coincide: every call inside
                    the solver units passes a Gram matrix X'X (or X X')

A product into an output that is not known to be zero, a call the table does not know, or a join of different values makes the
value `unknown`, and an unknown result is UNDECIDED, never a pass or a violation."""
from . import frontend as fe
from .frontend import kids, strip, walk, callee_name, call_args
from . import flow
from .report import Finding


def rel(p):
    return p[len(fe.REPO) + 1:] if p.startswith(fe.REPO + '/') else p


ZERO = ('zero',)


def T(x):
    if x[0] == 'T':
        return x[1]
    if x[0] == 'mul':
        return ('mul', tuple(T(y) for y in reversed(x[1])))
    return ('T', x)


def mul(a, b):
    fa = a[1] if a[0] == 'mul' else (a,)
    fb = b[1] if b[0] == 'mul' else (b,)
    return ('mul', tuple(fa) + tuple(fb))


def show(x):
    k = x[0]
    if k == 'p':
        return x[2]
    if k == 'T':
        return "%s'" % show(x[1])
    if k == 'mul':
        return '(' + ' '.join(show(y) for y in x[1]) + ')'
    if k == 'inv':
        return '%s^-1' % show(x[1])
    if k == 'pinv_sym':
        return 'pinv_sym%s' % show(x[1]) if x[1][0] == 'mul' else 'pinv_sym(%s)' % show(x[1])
    if k in ('svdU', 'svdS', 'svdVT'):
        return '%s(%s)' % (k[3:], show(x[1]))
    if k == 'zero':
        return '0'
    if k == 'lead':
        return '%s[:, :%s]' % (show(x[1]), x[2])
    if k == 'field':
        return x[1]
    return '?'


def is_gram(x):
    return x[0] == 'mul' and len(x[1]) == 2 and (x[1][0] == T(x[1][1]))


class Walker:
    def __init__(self, prog, f, chk, Rsym):
        self.prog, self.f, self.chk, self.Rsym = prog, f, chk, Rsym
        self.results = []        # (env at return, node)
        self.pnames = [p.get('name') for p in f.params]

    def name(self, e):
        e = strip(e)
        if e.get('kind') == 'UnaryOperator' and e.get('opcode') in ('&', '*'):
            e = strip(kids(e)[0])
        if e.get('kind') == 'ParenExpr':
            e = strip(kids(e)[0])
        return e['referencedDecl'].get('name') if e.get('kind') == 'DeclRefExpr' else None

    def val(self, env, e):
        n = self.name(e)
        if n is None:
            return ('unknown', 'expr')
        if n in env:
            return env[n]
        if n in self.pnames:
            return ('p', self.pnames.index(n), n)
        return ('unknown', n)

    def run(self):
        env = {}
        out = self.block(kids(self.f.body), env)
        if out is not None:
            self.results.append((out, self.f.body))
        return self.results

    def block(self, stmts, env):
        for s in stmts:
            env = self.stmt(s, env)
            if env is None:
                return None
        return env

    def stmt(self, s, env):
        s0 = strip(s)
        k = s0.get('kind')
        if k == 'CompoundStmt':
            return self.block(kids(s0), env)
        if k == 'ReturnStmt':
            self.results.append((env, s0))
            return None
        if k == 'IfStmt':
            c, t, e = flow.if_parts(s0)
            a = self.stmt(t, dict(env))
            b = self.stmt(e, dict(env)) if e is not None else dict(env)
            if a is None:
                return b
            if b is None:
                return a
            return {v: (a[v] if a.get(v) == b.get(v) else ('unknown', 'join')) for v in set(a) | set(b)}
        if k == 'ForStmt' and self.copy_loop(s0, env):
            return env
        if k in ('ForStmt', 'WhileStmt', 'DoStmt'):
            # loops writing matrices by cells: everything they store into becomes unknown
            for x in walk(s0):
                if x.get('kind') in ('BinaryOperator', 'CompoundAssignOperator') and (x.get('opcode') or '').endswith('='):
                    l = strip(kids(x)[0])
                    while l.get('kind') in ('ArraySubscriptExpr', 'MemberExpr'):
                        l = strip(kids(l)[0])
                    n = self.name(l)
                    if n:
                        env[n] = ('unknown', 'cells')
                if x.get('kind') == 'CallExpr':
                    for a_ in call_args(x):
                        n = self.name(a_)
                        if n and '*' in fe.qual(strip(a_, casts=False)):
                            env[n] = ('unknown', 'loop-call')
            return env
        if k == 'CallExpr':
            return self.call(s0, env)
        return env

    def copy_loop(self, loop, env):
        """loops that only copy cells:  A[i][j] = B[i][j]  (leading block),  A[j][i] = B[i][j]  (its transpose),  A[j][0] = v[j],  v[i] = A[i][0]"""
        from .kerneldef import Extractor, Unsupported
        from .sym import Poly
        ex = Extractor(self.prog, self.f)
        ex.locals_ok = True
        ex.acc = {}
        try:
            ex.stmt(loop, [], {}, {})
        except Unsupported:
            return False
        if not ex.contribs:
            return False
        new = {}
        for c in ex.contribs:
            if c.mode != '=' or len(c.term.atoms()) != 1 or c.term.d != Poly.const(1):
                return False
            at = list(c.term.atoms())[0]
            if c.term.n != Poly.atom(at) or not at.endswith(']'):
                return False
            src, rest = at.split('[', 1)
            sidx = rest[:-1].split('][')
            oidx = [str(x) for x in c.out[1]]
            out = c.out[0]
            if not out.startswith('L:') and not out.startswith('$'):
                return False
            oname = out[2:] if out.startswith('L:') else self.pnames[int(out[1:].split('->')[0])] if '->' not in out else None
            if oname is None:
                return False
            # source value
            if src.startswith('L:'):
                sval = env.get(src[2:], ('unknown', src))
            elif src.startswith('$') and '->' in src:
                sval = ('field', src)
            elif src.startswith('$'):
                sval = ('p', int(src[1:]), self.pnames[int(src[1:])])
            else:
                sval = ('field', src)
            lv = {l[0]: l for l in c.loops}
            if any(str(l[1]) != '0' or l[3] != 1 for l in c.loops):
                return False

            def bound(v):
                return str(lv[v][2]) if v in lv else None
            if len(oidx) == 2 and len(sidx) == 2 and oidx == sidx and all(v in lv for v in oidx):
                val = ('lead', sval, bound(oidx[1]))                      # same rows, leading columns
            elif len(oidx) == 2 and len(sidx) == 2 and oidx == sidx[::-1] and all(v in lv for v in oidx):
                val = T(('lead', sval, bound(sidx[1])))                   # transpose of the leading columns
            elif len(oidx) == 2 and oidx[1] == '0' and len(sidx) == 1 and sidx[0] == oidx[0]:
                val = ('lead', sval, bound(oidx[0]))                      # column vector of the leading entries
            elif len(oidx) == 1 and len(sidx) == 2 and sidx[1] == '0' and sidx[0] == oidx[0]:
                val = sval                                                # the single column of an n x 1 matrix
            else:
                return False
            new[oname] = val
        env.update(new)
        return True

    def call(self, n, env):
        cn = callee_name(n)
        a = call_args(n)
        nm = [self.name(x) for x in a]
        if cn in ('NewMatrix', 'initMatrix', 'ResizeMatrix', 'NewDVector', 'initDVector', 'DVectorResize'):
            if nm and nm[0]:
                env[nm[0]] = ZERO
            return env
        if cn in ('DelMatrix', 'DelDVector', 'printf', 'puts', 'PrintMatrix', 'PrintDVector', 'fprintf'):
            return env
        if cn == 'MatrixTranspose' and len(a) == 2:
            env[nm[1]] = T(self.val(env, a[0]))
            return env
        if cn in ('MatrixDotProduct', 'MatrixDVectorDotProduct', 'MT_MatrixDVectorDotProduct') and len(a) == 3:
            prev = self.val(env, a[2])
            env[nm[2]] = mul(self.val(env, a[0]), self.val(env, a[1])) if prev == ZERO else ('unknown', 'accumulated into a non-zero output')
            return env
        if cn in ('MatrixInversion', 'MatrixLUInversion') and len(a) == 2:
            env[nm[1]] = ('inv', self.val(env, a[0]))
            return env
        if cn == 'MatrixPseudoinversion' and len(a) == 2:
            v = self.val(env, a[0])
            desc = '%s %s: MatrixPseudoinversion(%s)' % (self.f.unit.where(n), self.f.name, show(v))
            if is_gram(v):
                self.chk.instance(self.Rsym, desc + ': a Gram matrix, symmetric')
            elif v[0] == 'unknown':
                self.chk.instance(self.Rsym, desc + ': argument not tracked', 'undecided')
            else:
                self.chk.instance(self.Rsym, desc + ': not symmetric by construction', 'refuted')
                self.chk.violation(Finding('MX.symmetric-arg', rel(self.f.file), self.f.name, 'pinv_sym:%s' % show(v), self.f.unit.where(n),
                                           '%s passes %s to MatrixPseudoinversion, which returns U S^-1 V\' from the SVD of its argument: that is the '
                                           'pseudo-inverse only when the two singular bases coincide (symmetric positive semi-definite argument, e.g. '
                                           'X\'X); for a general matrix the Penrose conditions fail' % (self.f.name, show(v))))
            env[nm[1]] = ('pinv_sym', v)
            return env
        if cn == 'SVD' and len(a) == 4:
            v = self.val(env, a[0])
            env[nm[1]], env[nm[2]], env[nm[3]] = ('svdU', v), ('svdS', v), ('svdVT', v)
            return env
        if cn == 'MatrixCopy' and len(a) == 2:
            env[nm[1]] = self.val(env, a[0])
            return env
        # unknown callee: every pointer argument may be written
        for x, n_ in zip(a, nm):
            if n_ and '*' in fe.qual(strip(x, casts=False)):
                env[n_] = ('unknown', cn)
        return env


def run(chk, prog, names=('MatrixMoorePenrosePseudoinverse', 'OrdinaryLeastSquares', 'MatrixPseudoinversion')):
    Rd = chk.rule('MX.definition', 'along every path to a return the output of the composed routine is its defining matrix expression '
                  '(kernel calls read as transpose / product / inverse / SVD factors)')
    Rs = chk.rule('MX.symmetric-arg', 'every call of MatrixPseudoinversion (U S^-1 V\') in the solver units passes a Gram matrix')
    P = lambda i, n: ('p', i, n)

    def defs(f):
        pn = [p.get('name') for p in f.params]
        if f.name == 'MatrixMoorePenrosePseudoinverse':
            A = P(0, pn[0])
            return 1, ('mul', (('pinv_sym', ('mul', (T(A), A))), T(A))), "(A'A)^-1 A'  (the inverse taken by MatrixPseudoinversion of the Gram matrix)"
        if f.name == 'OrdinaryLeastSquares':
            X, y = P(0, pn[0]), P(1, pn[1])
            return 2, ('mul', (('inv', ('mul', (T(X), X))), T(X), y)), "(X'X)^-1 X'y"
        if f.name == 'PLSBetasCoeff':
            n_ = pn[1]
            W = ('lead', ('field', '$0->xweights'), '$1')
            Pm = ('lead', ('field', '$0->xloadings'), '$1')
            b = ('lead', ('field', '$0->b'), '$1')
            return 2, ('mul', (W, ('inv', ('mul', (T(Pm), W))), b)), "W (P'W)^-1 b over the first nlv latent variables"
        if f.name == 'MatrixPseudoinversion':
            M = P(0, pn[0])
            return 1, ('mul', (('svdU', M), ('inv', ('svdS', M)), ('svdVT', M))), "U S^-1 V' with (U, S, V') = SVD(M)"
        return None
    for name in names:
        f = prog.funcs.get(name)
        if f is None or f.body is None:
            chk.broke('%s not found' % name)
            continue
        oi, want, text = defs(f)
        w = Walker(prog, f, chk, Rs)
        res = w.run()
        out_name = f.params[oi].get('name')
        if not res:
            chk.broke('%s: no path to a return found' % name)
        for env, node in res:
            got = env.get(out_name, ('unknown', 'never assigned'))
            desc = '%s %s: path ending at %s returns %s' % (f.where, name, f.unit.where(node), show(got))
            if got == want:
                chk.instance(Rd, desc + ' == ' + text)
            elif got[0] == 'unknown' or any(isinstance(y, tuple) and y and y[0] == 'unknown' for y in _flat(got)):
                chk.instance(Rd, desc + ' (not tracked: %s)' % (got[1] if got[0] == 'unknown' else 'partly unknown'), 'undecided')
            else:
                chk.instance(Rd, desc + ', expected ' + text, 'refuted')
                chk.violation(Finding('MX.definition', rel(f.file), name, 'path@%s' % show(got), f.unit.where(node),
                                      '%s: on the path ending at %s the output `%s` is %s, not its definition %s' %
                                      (name, f.unit.where(node), out_name, show(got), text)))


def _flat(x):
    out = [x]
    for y in x[1:]:
        if isinstance(y, tuple):
            if y and isinstance(y[0], str):
                out += _flat(y)
            else:
                for z in y:
                    if isinstance(z, tuple):
                        out += _flat(z)
    return out
