"""C14 strict mode: the public container operations, analysed from any argument state satisfying the container
invariants (no precondition other than the ones recorded below with their reason)."""
import os

from . import frontend as fe
from .shapecheck import Checker, rel
from .report import Finding

STRICT = {
    'vector.c': [
        'initStrVector', 'NewStrVector', 'DelStrVector', 'setStr', 'getStr', 'StrVectorAppend', 'StrVectorAppendInt',
        'StrVectorAppendDouble', 'StrVectorExtend', 'StrVectorResize', 'PrintStrVector',
        'initDVector', 'NewDVector', 'DelDVector', 'DVectorResize', 'PrintDVector', 'DVectorAppend', 'DVectorRemoveAt',
        'DVectorCopy', 'DVectorExtend', 'setDVectorValue', 'getDVectorValue', 'DVectorHasValue', 'DVectorSet',
        'initIVector', 'NewIVector', 'DelIVector', 'PrintIVector', 'IVectorAppend', 'IVectorRemoveAt', 'IVectorExtend',
        'setIVectorValue', 'getIVectorValue', 'IVectorHasValue', 'IVectorSet',
        'initUIVector', 'NewUIVector', 'DelUIVector', 'UIVectorResize', 'PrintUIVector', 'UIVectorAppend', 'UIVectorRemoveAt',
        'UIVectorExtend', 'setUIVectorValue', 'getUIVectorValue', 'UIVectorHasValue', 'UIVectorIndexOf', 'UIVectorSet'],
    'list.c': ['initDVectorList', 'NewDVectorList', 'DelDVectorList', 'DVectorListAppend'],
    'matrix.c': [
        'initMatrix', 'NewMatrix', 'ResizeMatrix', 'DelMatrix', 'MatrixCheck', 'FindNan', 'PrintMatrix', 'ValInMatrix', 'MatrixSet',
        'MatrixInitRandomInt', 'MatrixInitRandomFloat', 'MatrixCopy', 'setMatrixValue', 'getMatrixValue', 'getMatrixRow',
        'getMatrixColumn', 'MatrixAppendRow', 'MatrixAppendUIRow', 'MatrixAppendCol', 'MatrixAppendUICol', 'MatrixDeleteRowAt',
        'MatrixDeleteColAt', 'MatrixSort', 'MatrixReverseSort'],
    'tensor.c': [
        'initTensor', 'NewTensor', 'NewTensorMatrix', 'AddTensorMatrix', 'DelTensor', 'PrintTensor', 'setTensorValue',
        'getTensorValue', 'TensorAppendMatrix', 'TensorAppendMatrixAt', 'TensorAppendColumn', 'TensorAppendRow', 'TensorSet',
        'TensorCopy'],
}
# the only preconditions granted in strict mode, each with its reason
ALLOWED_PRE = {
    'MatrixSort': (['$1 < $0->col'], 'the sort key column must exist (documented parameter of the sort)'),
    'MatrixReverseSort': (['$1 < $0->col'], 'the sort key column must exist (documented parameter of the sort)'),
}
KIND_RULE = {'use-after-free': 'S.lifetime', 'double-free': 'S.lifetime', 'shallow-copy': 'S.deep-copy',
             'unassigned-slot': 'S.slots', 'wrap': 'S.unsigned'}


def run(chk, prog, dom=3):
    R_b = chk.rule('S.bounds', 'every subscript in a container operation is within the allocated extent for every argument state '
                   'satisfying the container invariants (operands shorter/equal/longer, arbitrary index parameters)')
    R_p = chk.rule('S.post-invariant', 'at every exit the allocation extents cover the updated row/col/size/order counts and every '
                   'pointer slot below the count holds an object (operations map invariant states to invariant states)')
    R_l = chk.rule('S.lifetime', 'no storage is used or freed after it was released')
    R_d = chk.rule('S.deep-copy', 'no pointer loaded from one container\'s storage is stored into another container')
    R_s = chk.rule('S.slots', 'no pointer slot is dereferenced before an object was stored in it')
    R_w = chk.rule('S.written', 'every cell below the row/col/size counts at exit that lies in storage the operation allocated itself '
                   'has been stored to (newly exposed cells are defined, not indeterminate)')
    R_u = chk.rule('S.unsigned', 'an unsigned local initialised with a difference never receives a negative (wrapped) value for any argument '
                   'state satisfying the invariants (e.g. `size - 1` of an empty container)')
    ck = Checker(prog, dom=dom)
    ck.check_wrap = True
    nfun = 0
    for unit, names in STRICT.items():
        for name in names:
            f = prog.funcs.get(name)
            if f is None:
                chk.broke('strict mode: container operation %s not found' % name)
                continue
            nfun += 1
            pre = ALLOWED_PRE.get(name, ([], ''))[0]
            eng = ck.analyse(f, pre)
            seen = set()
            for ob in eng.obligs.values():
                rule = KIND_RULE.get(ob.kind, 'S.bounds')
                desc = '%s %s: %s [%s]' % (ob.where, name, ob.text, ob.kind)
                if ob.status == 'PROVED':
                    chk.instance(rule, desc)
                elif ob.status == 'UNDECIDED':
                    chk.instance(rule, desc + ' ' + ob.detail, 'undecided')
                else:
                    chk.instance(rule, desc + ' ' + ob.detail, 'refuted')
                    key = (rule, ob.text)
                    if key in seen:
                        continue
                    seen.add(key)
                    detail = ob.detail
                    if ob.kind == 'wrap':
                        detail = 'the difference is negative for this state, so the unsigned variable wraps to a huge value (every later range test against it passes)'
                    chk.violation(Finding(rule, rel(f.file), name, ob.text, ob.where,
                                          '%s: `%s`: %s' % (name, ob.text, detail), witness=ob.witness))
            post = ck.post_invariant(eng)
            if not post:
                chk.instance(R_p, '%s: invariants re-established at %d exit state(s)' % (name, len(eng.exit_states)))
            for (p, msg, w) in post:
                chk.instance(R_p, '%s: %s' % (name, msg), 'refuted')
                chk.violation(Finding('S.post-invariant', rel(f.file), name, msg.split(' of ')[0][:60], f.where,
                                      '%s: %s' % (name, msg), witness=w))
            # cells of storage allocated by the operation that lie below the counts at exit must have been written
            wres = {}
            for st in eng.exit_states:
                if st.overflow:
                    continue
                for fk, v_ in st.fresh.items():
                    sh = st.shapes.get(v_['p'])
                    if sh is None or sh.freed is True:
                        continue
                    if v_['lo'] is None:
                        upto, live, what = sh.f.get('size'), [], 'cells of %s->data' % v_['p']
                    else:
                        upto, live = sh.f.get('col'), [sh.f['row'] - v_['lo'] - 1]
                        what = 'cells of rows [%s,%s) of %s' % (v_['lo'], v_['hi'], v_['p'])
                    if upto is None:
                        continue
                    verdict, w = eng.written_gaps(st, v_, upto, live)
                    k = (v_['where'], what)
                    rank = {'refuted': 2, 'undecided': 1, 'proved': 0}
                    if k not in wres or rank[verdict] > rank[wres[k][0]]:
                        wres[k] = (verdict, w, upto, v_)
            for (where, what), (verdict, w, upto, v_) in sorted(wres.items(), key=repr):
                iv = ', '.join('[%s,%s)' % (a_, b_) for a_, b_ in v_['w']) or 'nothing'
                desc = '%s %s: %s allocated here are written up to %s (written: %s)' % (where, name, what, upto, iv)
                if verdict == 'proved':
                    chk.instance(R_w, desc)
                elif verdict == 'undecided':
                    chk.instance(R_w, desc, 'undecided')
                else:
                    chk.instance(R_w, desc, 'refuted')
                    chk.violation(Finding('S.written', rel(f.file), name, 'alloc@' + what, where,
                                          '%s: %s are allocated at %s but only %s is written before return, the count at exit is %s: '
                                          'the remaining cells hold indeterminate values' % (name, what, where, iv, upto), witness=w))
    # scenario: destructors must tolerate the skeleton state produced by NewTensor (every block NULL)
    for name in ('DelTensor',):
        f = prog.funcs.get(name)
        if f is None:
            continue

        def skeleton(eng, st):
            sh = eng.shape(st, '(*$0)', 'tensor')
            sh.slots = []
            sh.nullslots = True
        eng = ck.analyse(f, [], entry=skeleton, register=False)
        bad = [ob for ob in eng.obligs.values() if ob.status == 'REFUTED']
        if bad:
            for ob in bad:
                chk.instance(R_s, '%s on a skeleton tensor: %s' % (name, ob.detail), 'refuted')
                chk.violation(Finding('S.slots', rel(f.file), name, 'skeleton:' + ob.text, ob.where,
                                      '%s applied to a tensor fresh from NewTensor (blocks still NULL): `%s`: %s' % (name, ob.text, ob.detail),
                                      witness=ob.witness))
        else:
            chk.instance(R_s, '%s tolerates a skeleton tensor whose blocks are still NULL' % name)
    chk.extra['strict_functions'] = nfun
    return ck
