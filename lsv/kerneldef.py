"""E16: cell forms of the dense kernels, unified with their textbook definitions (C11).

Every kernel of KERNELS is abstracted -- statically, with SYMBOLIC loop indices, no shape is enumerated and nothing is executed --
to a list of contributions

      out[idx...]  (= | +=)  term          for (loop variables) in a rectangular index domain

where idx are polynomials in the loop variables, term is a polynomial in cells `array[idx...]` (temporaries inlined, accessor
calls read as cells, scalar accumulators re-targeted to the cell that finally receives them) and the domain is read off the
counting loops.  Data-dependent filters (MISSING / NaN / Inf tests) keep the branch that carries the term.  The 4-way unrolled
product (step-4 loop + remainder loop) is merged into a single unit-step loop after checking that the unrolled statement is the sum
of the remainder statement shifted by 0..3 and that the two ranges are [0, n-3) step 4 and [n - n%4, n).

The cell form is then unified with the definition (K.definition): some renaming of the loop variables makes the output index, the
term (polynomial identity) and the index domain (after substituting the kernel's own conformability equalities) identical.
A kernel whose shape is not understood is ANALYSIS-BROKEN, never a pass.  Rounding and the data filters themselves are not decided."""
import itertools
from fractions import Fraction

from . import frontend as fe
from .frontend import kids, strip, walk, callee_name, call_args
from . import exprs, flow
from .sym import Poly
from .spline import Rat
from .report import Finding


class Unsupported(Exception):
    pass


def rel(p):
    return p[len(fe.REPO) + 1:] if p.startswith(fe.REPO + '/') else p


def cell(arr, *idx):
    return Rat(Poly.atom('%s[%s]' % (arr, ']['.join(str(Poly.atom(i) if isinstance(i, str) else i) for i in idx))))


def P_(x):
    return Poly.atom(x) if isinstance(x, str) else x


# definitions: parameters are referred to by POSITION ($0, $1, ...); index names are free
#   out: (array, [index names])  or ('return', [])     wrap: None | 'sqrt'
#   dom: {index: (lo, hi)} with hi exclusive, over shape atoms of the parameters
def _defs():
    A = Poly.atom
    Z = Poly.const(0)
    D = {}
    D['MatrixDVectorDotProduct'] = dict(out=('$2', ['i']), mode='+=', term=cell('$0', 'i', 'j') * cell('$1', 'j'),
                                        dom={'i': (Z, A('$0->row')), 'j': (Z, A('$0->col'))}, text='p[i] += sum_j m[i][j] v[j]')
    D['DVectorMatrixDotProduct'] = dict(out=('$2', ['j']), mode='+=', term=cell('$1', 'i') * cell('$0', 'i', 'j'),
                                        dom={'i': (Z, A('$0->row')), 'j': (Z, A('$0->col'))}, text='p[j] += sum_i v[i] m[i][j]')
    for nm in ('MatrixDotProduct_', 'MatrixDotProduct_LOOP_UNROLLING'):
        D[nm] = dict(out=('$2', ['i', 'j']), mode='+=', term=cell('$0', 'i', 'k') * cell('$1', 'k', 'j'),
                     dom={'i': (Z, A('$0->row')), 'j': (Z, A('$1->col')), 'k': (Z, A('$0->col'))}, text='r[i][j] += sum_k a[i][k] b[k][j]')
    D['RowColOuterProduct'] = dict(out=('$2', ['i', 'j']), mode='=', term=cell('$0', 'i') * cell('$1', 'j'),
                                   dom={'i': (Z, A('$0->size')), 'j': (Z, A('$1->size'))}, text='m[i][j] = a[i] b[j]')
    D['MatrixTranspose'] = dict(out=('$1', ['j', 'i']), mode='=', term=cell('$0', 'i', 'j'),
                                dom={'i': (Z, A('$0->row')), 'j': (Z, A('$0->col'))}, text='r[j][i] = m[i][j]')
    D['MatrixTrace'] = dict(out=('return', []), mode='+=', term=cell('$0', 'i', 'i'), dom={'i': (Z, A('$0->row'))}, text='sum_i m[i][i]')
    D['Matrixnorm'] = dict(out=('return', []), mode='+=', wrap='sqrt', term=cell('$0', 'i', 'j') * cell('$0', 'i', 'j'),
                           dom={'i': (Z, A('$0->row')), 'j': (Z, A('$0->col'))}, text='sqrt(sum_ij m[i][j]^2)')
    D['DVectorDVectorDotProd'] = dict(out=('return', []), mode='+=', term=cell('$0', 'i') * cell('$1', 'i'), dom={'i': (Z, A('$0->size'))},
                                      text='sum_i v1[i] v2[i]')
    D['DvectorModule'] = dict(out=('return', []), mode='+=', wrap='sqrt', term=cell('$0', 'i') * cell('$0', 'i'), dom={'i': (Z, A('$0->size'))},
                              text='sqrt(sum_i v[i]^2)')
    D['DVectorDVectorDiff'] = dict(out=('$2', ['i']), mode='append', term=cell('$0', 'i') - cell('$1', 'i'), dom={'i': (Z, A('$0->size'))}, text='v3 <- append v1[i] - v2[i], i = 0..size')
    D['DVectorDVectorSum'] = dict(out=('$2', ['i']), mode='append', term=cell('$0', 'i') + cell('$1', 'i'), dom={'i': (Z, A('$0->size'))}, text='v3 <- append v1[i] + v2[i], i = 0..size')
    D['TransposedTensorDVectorProduct'] = dict(out=('$2', ['k', 'i']), mode='+=', term=cell('$0', 'k', 'i', 'j') * cell('$1', 'j'),
                                               dom={'k': (Z, A('$0->order')), 'i': (Z, A('$0->m[k]->row')), 'j': (Z, A('$0->m[k]->col'))},
                                               text='p[k][i] += sum_j t[k][i][j] v[j]')
    D['DvectorTensorDotProduct'] = dict(out=('$2', ['j', 'k']), mode='+=', term=cell('$1', 'i') * cell('$0', 'k', 'i', 'j'),
                                        dom={'k': (Z, A('$0->order')), 'i': (Z, A('$0->m[k]->row')), 'j': (Z, A('$0->m[k]->col'))},
                                        text='m[j][k] += sum_i v[i] t[k][i][j]')
    D['TensorMatrixDotProduct'] = dict(out=('$2', ['i']), mode='+=', term=cell('$0', 'k', 'i', 'j') * cell('$1', 'j', 'k'),
                                       dom={'k': (Z, A('$0->order')), 'i': (Z, A('$0->m[k]->row')), 'j': (Z, A('$0->m[k]->col'))},
                                       text='v[i] += sum_jk t[k][i][j] m[j][k]')
    one = Rat(Poly.const(1))
    avg = lambda ix: cell('MatrixColAverage($0)', ix)
    D['MatrixCovariance'] = dict(out=('$1', ['i', 'j']), mode='+=',
                                 term=(cell('$0', 'k', 'i') - avg('i')) * (cell('$0', 'k', 'j') - avg('j')) / Rat(A('$0->row') - 1),
                                 dom={'i': (Z, A('$0->col')), 'j': (Z, A('$0->col')), 'k': (Z, A('$0->row'))},
                                 text='cm[i][j] = sum_k (m[k][i] - mean_i)(m[k][j] - mean_j) / (rows - 1)  (both factors centred: symmetric, PSD to rounding)')
    return D


class Contribution:
    def __init__(self, out, mode, term, loops, node, wrap=None):
        self.out, self.mode, self.term, self.loops, self.node, self.wrap = out, mode, term, loops, node, wrap

    def __repr__(self):
        return '%s%s %s %s over %s' % (self.out[0], self.out[1], self.mode, self.term, [(l[0], str(l[1]), str(l[2]), l[3]) for l in self.loops])


class Extractor:
    """contributions of one kernel, in terms of the kernel's own loop-variable names ('@name')"""
    def __init__(self, prog, f):
        self.prog, self.f = prog, f
        self.pidx = {p.get('name'): i for i, p in enumerate(f.params)}
        self.contribs = []
        self.equalities = []     # (Poly, Poly) shape equalities guarded by an abort

    def where(self, n):
        return self.f.unit.where(n)

    # ---- names
    def shape_poly(self, n, ienv):
        """integer expression -> Poly over loop atoms '@v' and positional shape atoms '$i->row'"""
        p = exprs.to_poly(n, byname=True)
        sub = {}
        for a in p.atoms():
            if a in ienv:
                sub[a] = ienv[a]
            else:
                m = None
                for nm, i in self.pidx.items():
                    if a == nm or a.startswith(nm + '->') or a.startswith('(*%s)' % nm):
                        rest = a[len(nm):] if a.startswith(nm) else a[len(nm) + 3:]
                        m = '$%d%s' % (i, rest)
                if m is None:
                    if a.startswith('?') or a in getattr(self, 'opaque_ints', set()):
                        raise Unsupported('index expression %s' % self.f.unit.text(n))
                    al = self.int_alias(a)
                    if al is not None:
                        sub[a] = al
                        continue
                    m = a
                    if '->' in a and getattr(self, 'locals_ok', False) and self.f.body is not None:
                        head = a.split('->')[0]
                        if head.isidentifier():
                            for vd in walk(self.f.body):
                                if vd.get('kind') == 'VarDecl' and vd.get('name') == head:
                                    ca = self.container_alias(vd)
                                    if ca is not None:
                                        m = ca + a[len(head):]
                                    break
                # loop variables inside paths (t->m[k]->row) keep their '@' form textually
                for v, pv in ienv.items():
                    m = m.replace('[%s]' % v, '[%s]' % pv)
                sub[a] = Poly.atom(m)
        return p.subst(sub)

    def int_alias(self, name):
        """size_t nobj = tscore->row;  -- an integer local with a single definition (and no other assignment, ++ or &) whose value is a shape
        expression of the parameters is another name for that expression"""
        cache = self.__dict__.setdefault('_int_alias', {})
        if name in cache:
            return cache[name]
        cache[name] = None
        if self.f.body is None or not name.isidentifier() or name in self.pidx:
            return None
        defs = []
        for n in walk(self.f.body):
            k = n.get('kind')
            if k == 'VarDecl' and n.get('name') == name:
                if fe.is_float_type(n) or '*' in fe.qual(n):
                    return None
                if kids(n):
                    defs.append(kids(n)[-1])
            if k in ('BinaryOperator', 'CompoundAssignOperator') and n.get('opcode', '').endswith('=') and n.get('opcode') not in ('==', '!=', '<=', '>='):
                l0 = strip(kids(n)[0])
                if l0.get('kind') == 'DeclRefExpr' and l0['referencedDecl'].get('name') == name:
                    if n.get('opcode') != '=':
                        return None
                    defs.append(kids(n)[1])
            if k == 'UnaryOperator' and n.get('opcode') in ('++', '--', '&'):
                l0 = strip(kids(n)[0])
                if l0.get('kind') == 'DeclRefExpr' and l0['referencedDecl'].get('name') == name:
                    return None
        if len(defs) != 1:
            return None
        d0 = strip(defs[0])
        if d0.get('kind') not in ('MemberExpr', 'BinaryOperator', 'DeclRefExpr', 'IntegerLiteral') or any(m.get('kind') in ('CallExpr', 'ArraySubscriptExpr') for m in walk(d0)):
            return None
        try:
            val = self.shape_poly(defs[0], {})
        except Exception:
            return None
        if any(a_ == name for a_ in val.atoms()):
            return None
        cache[name] = val
        return val

    def arr_of(self, base):
        base = strip(base)
        if base.get('kind') == 'UnaryOperator' and base.get('opcode') == '*':
            base = strip(kids(base)[0])
        if base.get('kind') == 'ParenExpr':
            base = strip(kids(base)[0])
        if base.get('kind') == 'DeclRefExpr':
            nm = base['referencedDecl'].get('name')
            if nm in self.pidx:
                return '$%d' % self.pidx[nm]
            if nm in getattr(self, 'local_arrays', {}):
                return self.local_arrays[nm]
            if getattr(self, 'locals_ok', False):
                al = self.container_alias(base['referencedDecl'])
                if al is not None:
                    return al
                return 'L:' + nm
        if base.get('kind') == 'MemberExpr' and getattr(self, 'locals_ok', False):
            b2 = strip(kids(base)[0])
            if b2.get('kind') == 'DeclRefExpr' and b2['referencedDecl'].get('name') in self.pidx:
                return '$%d->%s' % (self.pidx[b2['referencedDecl'].get('name')], base.get('name'))
            if b2.get('kind') == 'DeclRefExpr':
                return '%s->%s' % (b2['referencedDecl'].get('name'), base.get('name'))      # field of a local argument record
        return None

    def container_alias(self, decl):
        """matrix *loadings = model->loadings;  -- a local that is initialised once with a parameter or a field of a parameter and never assigned again
        is another name for it"""
        cache = self.__dict__.setdefault('_alias_cache', {})
        did = decl.get('id')
        if did in cache:
            return cache[did]
        cache[did] = None
        if decl.get('kind') != 'VarDecl' or self.f.body is None:
            return None
        init = None
        for n in walk(self.f.body):
            if n.get('kind') == 'VarDecl' and n.get('id') == did and kids(n):
                init = kids(n)[-1]
            if n.get('kind') in ('BinaryOperator', 'CompoundAssignOperator') and n.get('opcode', '').endswith('=') and n.get('opcode') not in ('==', '!=', '<=', '>=') \
                    and fe.ref_id(kids(n)[0]) == did:
                return None
            if n.get('kind') == 'UnaryOperator' and n.get('opcode') == '&' and fe.ref_id(kids(n)[0]) == did:
                return None                     # NewMatrix(&X, ...): a container of its own
        if init is None:
            return None
        i0 = strip(init)
        if i0.get('kind') == 'MemberExpr' or (i0.get('kind') == 'DeclRefExpr' and i0['referencedDecl'].get('name') in self.pidx):
            cache[did] = self.arr_of(i0)
        return cache[did]

    def cell_ref(self, n, ienv):
        """(array, [idx Poly]) for X->data[i][j], V->data[i], T->m[k]->data[i][j] and the accessor calls; None otherwise"""
        n = strip(n)
        if n.get('kind') == 'CallExpr':
            cn = callee_name(n)
            a = call_args(n)
            if cn in ('getMatrixValue', 'getDVectorValue', 'getTensorValue', 'getUIVectorValue', 'getIVectorValue'):
                arr = self.arr_of(a[0])
                if arr:
                    return arr, [self.shape_poly(x, ienv) for x in a[1:]]
            return None
        idx = []
        while n.get('kind') == 'ArraySubscriptExpr':
            idx.insert(0, kids(n)[1])
            n = strip(kids(n)[0])
        if idx and n.get('kind') == 'DeclRefExpr' and n['referencedDecl'].get('id') in getattr(self, 'row_alias', {}):
            # a cached row pointer  (double *Ei = E->data[i];  ...  Ei[j])  stands for the cell it points into
            arr, pre_idx = self.row_alias[n['referencedDecl']['id']]
            return arr, list(pre_idx) + [self.shape_poly(x, ienv) for x in idx]
        if not idx or not (n.get('kind') == 'MemberExpr' and n.get('name') == 'data'):
            return None
        base = strip(kids(n)[0])
        pre = []
        if base.get('kind') == 'ArraySubscriptExpr':          # t->m[k]
            b2 = strip(kids(base)[0])
            if b2.get('kind') == 'MemberExpr' and b2.get('name') == 'm':
                pre = [kids(base)[1]]
                base = strip(kids(b2)[0])
        arr = self.arr_of(base)
        if arr is None:
            return None
        return arr, [self.shape_poly(x, ienv) for x in pre + idx]

    @staticmethod
    def _is_zero_lit(x):
        v = strip(x)
        while v.get('kind') == 'ParenExpr':
            v = strip(kids(v)[0])
        if v.get('kind') == 'UnaryOperator' and v.get('opcode') in ('+', '-'):
            v = strip(kids(v)[0])
        try:
            return v.get('kind') in ('FloatingLiteral', 'IntegerLiteral') and float(v.get('value')) == 0.0
        except (TypeError, ValueError):
            return False

    def bind_row_alias(self, did, init, ienv):
        """double *row = X->data[i];  (or  T->m[k]->data[i]):  remember which row the pointer stands for; anything else forgets the pointer"""
        self.row_alias = dict(getattr(self, 'row_alias', {}))
        self.row_alias.pop(did, None)
        e = strip(init)
        idx = []
        while e.get('kind') == 'ArraySubscriptExpr':
            idx.insert(0, kids(e)[1])
            e = strip(kids(e)[0])
        if len(idx) == 1 and e.get('kind') == 'MemberExpr' and e.get('name') == 'data':
            base = strip(kids(e)[0])
            pre = []
            if base.get('kind') == 'ArraySubscriptExpr':
                b2 = strip(kids(base)[0])
                if b2.get('kind') == 'MemberExpr' and b2.get('name') == 'm':
                    pre = [kids(base)[1]]
                    base = strip(kids(b2)[0])
            arr = self.arr_of(base)
            if arr is not None:
                self.row_alias[did] = (arr, [self.shape_poly(x, ienv) for x in pre + idx])

    # ---- expressions
    def rat(self, n, ienv, fenv):
        n = strip(n)
        k = n.get('kind')
        if k == 'FloatingLiteral':
            fr = Fraction(str(n.get('value'))).limit_denominator(10 ** 9)
            return Rat(Poly.const(fr.numerator), Poly.const(fr.denominator))
        if k == 'IntegerLiteral':
            return Rat(Poly.const(int(n['value'])))
        if k == 'UnaryOperator' and n.get('opcode') in ('-', '+'):
            r = self.rat(kids(n)[0], ienv, fenv)
            return -r if n['opcode'] == '-' else r
        if k == 'BinaryOperator' and n.get('opcode') in ('+', '-', '*', '/'):
            a = self.rat(kids(n)[0], ienv, fenv)
            b = self.rat(kids(n)[1], ienv, fenv)
            return {'+': a.__add__, '-': a.__sub__, '*': a.__mul__, '/': a.__truediv__}[n['opcode']](b)
        if k == 'ConditionalOperator' and len(kids(n)) == 3 and self.is_data_cond(kids(n)[0]):
            # (x is NaN/Inf/missing) ? 0 : x   -- the data filter written as an expression: read through, like the statement form
            c_, a_, b_ = kids(n)
            za, zb = self._is_zero_lit(a_), self._is_zero_lit(b_)
            if za != zb:
                return self.rat(b_ if za else a_, ienv, fenv)
            raise Unsupported('conditional expression %s' % self.f.unit.text(n)[:60])
        cr = self.cell_ref(n, ienv)
        if cr:
            return Rat(Poly.atom('%s[%s]' % (cr[0], ']['.join(str(x) for x in cr[1]))))
        if k == 'DeclRefExpr':
            nm = n['referencedDecl'].get('name')
            if nm in fenv:
                return fenv[nm]
            if getattr(self, 'opaque_scalars', False) and fe.is_float_type(n):
                return Rat(Poly.atom('S:' + nm))             # a scalar computed elsewhere: an opaque symbol (opt-in)
            raise Unsupported('scalar %s' % nm)
        if k == 'UnaryOperator' and n.get('opcode') == '*' and getattr(self, 'opaque_scalars', False):
            x = strip(kids(n)[0])
            if x.get('kind') == 'DeclRefExpr' and fe.is_float_type(n):
                return Rat(Poly.atom('S:*' + x['referencedDecl'].get('name')))
        if k == 'CallExpr' and callee_name(n) == 'square':
            x = self.rat(call_args(n)[0], ienv, fenv)
            return x * x
        if k in ('MemberExpr',) and not fe.is_float_type(n):
            return Rat(self.shape_poly(n, ienv))           # a count used as a number (rss / rows)
        raise Unsupported('expression %s' % self.f.unit.text(n)[:60])

    def is_data_cond(self, c):
        for x in walk(c):
            if x.get('kind') in ('FloatingLiteral',):
                return True
            if x.get('kind') == 'CallExpr' and callee_name(x) in ('_isnan_', '_isinf_', 'isfinite', 'isnan', 'isinf'):
                return True
            if x.get('kind') in ('DeclRefExpr', 'ArraySubscriptExpr', 'MemberExpr', 'CallExpr') and fe.is_float_type(x):
                return True
            if x.get('kind') == 'ArraySubscriptExpr' and getattr(self, 'locals_ok', False):
                b_ = strip(kids(x)[0])
                if b_.get('kind') == 'MemberExpr' and b_.get('name') == 'data':
                    return True        # a test on a stored count / label
        return False

    # ---- statements
    def run(self):
        self.acc = {}          # scalar accumulator -> [(term, loops, node)]
        self.block(kids(self.f.body), [], {}, {})
        return self.contribs

    def block(self, stmts, loops, ienv, fenv):
        for s in stmts:
            self.stmt(s, loops, ienv, fenv)

    def emit(self, out, mode, term, loops, node, wrap=None):
        self.contribs.append(Contribution(out, mode, term, list(loops), node, wrap))

    def stmt(self, s, loops, ienv, fenv):
        s0 = strip(s)
        k = s0.get('kind')
        if k in (None, 'NullStmt', 'ContinueStmt', 'BreakStmt'):
            return
        if k == 'CompoundStmt':
            self.block(kids(s0), loops, ienv, fenv)
            return
        if k == 'DeclStmt':
            for vd in kids(s0):
                if vd.get('kind') == 'VarDecl' and kids(vd) and fe.is_float_type(vd) and '[' not in (vd.get('type') or {}).get('qualType', ''):
                    self.scalar_assign(vd['name'], '=', kids(vd)[-1], loops, ienv, fenv, vd)
                elif vd.get('kind') == 'VarDecl' and kids(vd) and 'double *' in fe.qual(vd).replace('const ', ''):
                    self.bind_row_alias(vd.get('id'), kids(vd)[-1], ienv)
            return
        if k == 'ForStmt':
            ind = flow.induction(s0)
            if ind is None or ind['op'] != '<' or ind['step'].const_value() is None or ind['step'].const_value() < 1:
                raise Unsupported('loop at %s' % self.where(s0))
            var = ind['var'].split('#')[0]
            init, cond, inc, body = flow.for_parts(s0)
            c = strip(cond)
            l, r = kids(c)
            bn = r if exprs.path_of(l) == ind['var'] else l
            init_s = strip(init)
            rr = strip(kids(init_s)[1])
            lo = self.shape_poly(rr, ienv) if not self.is_mod_start(rr) else ('modstart',) + self.is_mod_start(rr)
            hi = self.shape_poly(bn, ienv)
            ie = dict(ienv)
            ie[var] = Poly.atom('@' + var)
            self.cur_ienv = ie
            self.stmt(body, loops + [('@' + var, lo, hi, ind['step'].const_value(), s0)], ie, dict(fenv))
            return
        if k == 'IfStmt':
            c, t, e = flow.if_parts(s0)
            if self.is_data_cond(c):
                # data filter: both arms are walked; constant stores / `+ 0` updates are dropped by emit_filtered
                n0 = len(self.contribs)
                a0 = {kk: list(v) for kk, v in self.acc.items()}
                for arm in (t, e):
                    if arm is None:
                        continue
                    try:
                        self.stmt(arm, loops, dict(ienv), dict(fenv))
                    except Unsupported as ex_:
                        if not getattr(self, 'locals_ok', False):
                            raise
                        self.skipped_arms = getattr(self, 'skipped_arms', []) + [(arm, str(ex_))]
                new = self.contribs[n0:]
                live = [x for x in new if any('[' in a for a in x.term.atoms())]
                self.contribs[n0:] = live if live else new[:1]
                return
            # shape guard: a conformability test whose other arm aborts is part of the contract
            t_exits = t is not None and flow.exits(t)
            e_exits = e is not None and flow.exits(e)
            if e_exits and not t_exits:
                self.learn(c)
                self.stmt(t, loops, ienv, fenv)
                return
            if t_exits and not e_exits:
                if e is not None:
                    self.stmt(e, loops, ienv, fenv)
                return
            if e is None:
                self.learn(c)
                self.stmt(t, loops, ienv, fenv)
                return
            raise Unsupported('two-armed shape conditional at %s' % self.where(s0))
        if k == 'ReturnStmt':
            if not kids(s0):
                return
            v = strip(kids(s0)[0])
            wrap = None
            if v.get('kind') == 'CallExpr' and callee_name(v) == 'sqrt':
                wrap = 'sqrt'
                v = strip(call_args(v)[0])
            if v.get('kind') == 'DeclRefExpr' and v['referencedDecl'].get('name') in self.acc:
                for term, lp, node in self.acc[v['referencedDecl'].get('name')]:
                    self.emit(('return', []), '+=', term, lp, node, wrap)
                return
            raise Unsupported('return value %s' % self.f.unit.text(v)[:40])
        if k == 'CallExpr':
            cn = callee_name(s0)
            a = call_args(s0)
            if cn in ('setMatrixValue', 'setDVectorValue', 'setTensorValue'):
                arr = self.arr_of(a[0])
                if arr is None:
                    raise Unsupported('setter on a local container')
                idx = [self.shape_poly(x, ienv) for x in a[1:-1]]
                self.store(arr, idx, '=', a[-1], loops, ienv, fenv, s0)
                return
            if cn in ('printf', 'fprintf', 'fflush', 'puts', 'abort', 'ResizeMatrix', 'DVectorResize', 'initDVector', 'DelDVector', 'initMatrix', 'DelMatrix'):
                return          # (re)sizing the output is a shape matter (E1), not part of the cell form
            if cn in ('MatrixColAverage', 'MatrixRowAverage', 'MatrixColSDEV', 'MatrixColVar') and len(a) == 2 and self.arr_of(a[0]):
                # a local vector filled with a per-column / per-row statistic of a parameter: a symbolic array
                t_ = strip(a[1])
                if t_.get('kind') == 'UnaryOperator' and t_.get('opcode') == '&':
                    t_ = strip(kids(t_)[0])
                if t_.get('kind') == 'DeclRefExpr' and t_['referencedDecl'].get('name') not in self.pidx:
                    if not hasattr(self, 'local_arrays'):
                        self.local_arrays = {}
                    self.local_arrays[t_['referencedDecl'].get('name')] = '%s(%s)' % (cn, self.arr_of(a[0]))
                    return
            if cn == 'DVectorAppend' and len(a) == 2 and self.arr_of(a[0]) and getattr(self, 'locals_ok', False):
                # expression over finished accumulators:  sums become atoms  SUM<n>  described in self.sums
                sub_env = dict(fenv)
                self.sums = getattr(self, 'sums', {})
                for nm_, lst in self.acc.items():
                    if nm_ in fenv:
                        continue
                    key = 'SUM%d' % len(self.sums)
                    self.sums[key] = [(t_, [l_ for l_ in lp_ if l_ not in loops], nd_) for t_, lp_, nd_ in lst]
                    sub_env[nm_] = Rat(Poly.atom(key))
                wrap = None
                v_ = strip(a[1])
                if v_.get('kind') == 'CallExpr' and callee_name(v_) == 'sqrt':
                    wrap, v_ = 'sqrt', call_args(v_)[0]
                self.emit((self.arr_of(a[0]), [Poly.atom(loops[-1][0])] if loops else []), 'append', self.rat(v_, ienv, sub_env), loops, s0, wrap)
                return
            if cn == 'DVectorAppend' and len(a) == 2 and self.arr_of(a[0]) and len(loops) == 1 and str(loops[0][1]) == '0' and loops[0][3] == 1:
                # appended once per iteration of a single loop from 0: entry number i of the appended range
                self.emit((self.arr_of(a[0]), [Poly.atom(loops[0][0])]), 'append', self.rat(a[1], ienv, fenv), loops, s0)
                return
            if getattr(self, 'locals_ok', False):
                return          # composition-level callers (MLR): other calls are examined by the caller of the extractor
            raise Unsupported('call to %s' % cn)
        if k in ('BinaryOperator', 'CompoundAssignOperator') and (s0.get('opcode') or '').endswith('=') and s0.get('opcode') not in ('==', '!=', '<=', '>='):
            l = kids(s0)[0]
            cr = self.cell_ref(l, ienv)
            if cr and s0.get('opcode') == '=':
                # chained stores  A[i][j] = B[j][i] = expr;  every cell target gets the innermost right-hand side
                targets = [cr]
                rhs_ = kids(s0)[1]
                while strip(rhs_).get('kind') == 'BinaryOperator' and strip(rhs_).get('opcode') == '=':
                    c2 = self.cell_ref(kids(strip(rhs_))[0], ienv)
                    if not c2:
                        break
                    targets.append(c2)
                    rhs_ = kids(strip(rhs_))[1]
                for t_ in targets[::-1]:
                    self.store(t_[0], t_[1], '=', rhs_, loops, ienv, fenv, s0)
                return
            if cr:
                self.store(cr[0], cr[1], s0['opcode'], kids(s0)[1], loops, ienv, fenv, s0)
                return
            l0 = strip(l)
            if l0.get('kind') == 'DeclRefExpr' and s0.get('opcode') == '=' and 'double *' in fe.qual(l0).replace('const ', ''):
                self.bind_row_alias(l0['referencedDecl'].get('id'), kids(s0)[1], ienv)
                return
            if l0.get('kind') == 'DeclRefExpr' and not fe.is_float_type(l0) and getattr(self, 'locals_ok', False) and s0.get('opcode') == '=':
                cr2 = self.cell_ref(kids(s0)[1], ienv)
                if cr2:
                    # an index read from a container (label of row i): a symbolic index atom
                    ienv[l0['referencedDecl'].get('name')] = Poly.atom('%s[%s]' % (cr2[0], ']['.join(str(x) for x in cr2[1])))
                else:
                    ienv.pop(l0['referencedDecl'].get('name'), None)
                    self.opaque_ints = getattr(self, 'opaque_ints', set()) | {l0['referencedDecl'].get('name')}
                return
            if l0.get('kind') == 'DeclRefExpr':
                if fe.is_float_type(l0):
                    rhs_ = kids(s0)[1]
                    chain = [l0['referencedDecl'].get('name')]
                    while strip(rhs_).get('kind') == 'BinaryOperator' and strip(rhs_).get('opcode') == '=' and strip(kids(strip(rhs_))[0]).get('kind') == 'DeclRefExpr':
                        chain.append(strip(kids(strip(rhs_))[0])['referencedDecl'].get('name'))
                        rhs_ = kids(strip(rhs_))[1]
                    for nm_ in chain:
                        self.scalar_assign(nm_, s0['opcode'], rhs_, loops, ienv, fenv, s0)
                return
            raise Unsupported('store to %s' % self.f.unit.text(l)[:40])
        if k == 'UnaryOperator':
            return
        raise Unsupported('statement %s at %s' % (k, self.where(s0)))

    def is_mod_start(self, n):
        """n - n % c  ->  (n poly text node, c)"""
        n = strip(n)
        if n.get('kind') == 'BinaryOperator' and n.get('opcode') == '-':
            a, b = kids(n)
            b0 = strip(b)
            if b0.get('kind') == 'BinaryOperator' and b0.get('opcode') == '%' and fe.int_value(kids(b0)[1]) is not None:
                if exprs.text_key(kids(b0)[0]) == exprs.text_key(a):
                    return (exprs.to_poly(a, byname=True), fe.int_value(kids(b0)[1]))
        return None

    def learn(self, c):
        for cj in exprs.conjuncts(c, True, byname=True) or []:
            pass
        c0 = strip(c)
        parts = []

        def conj(x):
            x = strip(x)
            if x.get('kind') == 'BinaryOperator' and x.get('opcode') == '&&':
                conj(kids(x)[0])
                conj(kids(x)[1])
            else:
                parts.append(x)
        conj(c0)
        for x in parts:
            if x.get('kind') == 'BinaryOperator' and x.get('opcode') == '==':
                try:
                    self.equalities.append((self.shape_poly(kids(x)[0], self.cur_ienv), self.shape_poly(kids(x)[1], self.cur_ienv)))
                except Unsupported:
                    pass

    cur_ienv = {}

    def scalar_assign(self, name, op, rhs, loops, ienv, fenv, node):
        r0 = strip(rhs)
        if op == '=':
            lit = r0.get('kind') in ('FloatingLiteral', 'IntegerLiteral') or (r0.get('kind') == 'UnaryOperator' and strip(kids(r0)[0]).get('kind', '').endswith('Literal'))
            if lit:
                self.acc[name] = []           # accumulator reset
                fenv.pop(name, None)
                return
            v_ = self.rat(rhs, ienv, fenv)
            if hasattr(self, 'promoted'):
                self.promoted.discard(name)
            fenv[name] = v_                               # a temporary ...
            self.acc[name] = [(v_, list(loops), node)]    # ... or the start value of an accumulation (ypred = b0; ypred += ...)
            self.acc_started = getattr(self, 'acc_started', set()) | {name}
            return
        if op == '+=' and name in self.acc:
            self.acc[name].append((self.rat(rhs, ienv, fenv), list(loops), node))
            fenv.pop(name, None)                          # no longer a plain temporary
            self.promoted = getattr(self, 'promoted', set()) | {name}
            return
        if op == '-=' and name in self.acc:
            self.acc[name].append((-self.rat(rhs, ienv, fenv), list(loops), node))
            fenv.pop(name, None)
            self.promoted = getattr(self, 'promoted', set()) | {name}
            return
        raise Unsupported('update %s of scalar %s' % (op, name))

    def store(self, arr, idx, op, rhs, loops, ienv, fenv, node):
        r0 = strip(rhs)
        if getattr(self, 'ignore_out', None) and self.ignore_out(arr):
            return                                        # a container the caller declared irrelevant (opt-in)
        if getattr(self, 'track_old', False):
            # a temporary computed from this cell before the store keeps the OLD value: evaluate the right-hand side first, then rename
            cellatom = '%s[%s]' % (arr, ']['.join(str(x) for x in idx))
            pending = {nm: v for nm, v in fenv.items() if isinstance(v, Rat) and cellatom in v.atoms()}
            if pending:
                self._store(arr, idx, op, rhs, loops, ienv, fenv, node)
                ren = {cellatom: Poly.atom('OLD:' + cellatom)}
                for nm, v in pending.items():
                    fenv[nm] = Rat(v.n.subst(ren), v.d.subst(ren))
                return
        self._store(arr, idx, op, rhs, loops, ienv, fenv, node)

    def _store(self, arr, idx, op, rhs, loops, ienv, fenv, node):
        r0 = strip(rhs)
        if op == '=':
            # setter form  X = X + term
            if r0.get('kind') == 'BinaryOperator' and r0.get('opcode') == '+':
                a, b = kids(r0)
                ca = self.cell_ref(a, ienv)
                if ca and ca[0] == arr and [str(x) for x in ca[1]] == [str(x) for x in idx]:
                    op, rhs, r0 = '+=', b, strip(b)
            elif r0.get('kind') == 'BinaryOperator' and r0.get('opcode') in ('*', '/'):
                # X = X * k,  X = k * X,  X = X / k   written out:  the same as  X *= k  /  X /= k
                a, b = kids(r0)
                for own, other in ((a, b), (b, a)):
                    if own is b and r0['opcode'] == '/':
                        continue
                    ca = self.cell_ref(own, ienv)
                    if ca and ca[0] == arr and [str(x) for x in ca[1]] == [str(x) for x in idx]:
                        oc = self.cell_ref(other, ienv)
                        if not (oc and oc[0] == arr):
                            op, rhs, r0 = ('*=' if r0['opcode'] == '*' else '/='), other, strip(other)
                            break
            elif r0.get('kind') == 'BinaryOperator' and r0.get('opcode') == '-' and getattr(self, 'allow_sub', False):
                a, b = kids(r0)
                ca = self.cell_ref(a, ienv)
                if ca and ca[0] == arr and [str(x) for x in ca[1]] == [str(x) for x in idx]:
                    self.emit((arr, idx), '+=', -self.rat(b, ienv, fenv), loops, node)
                    return
        if op == '=' and r0.get('kind') == 'DeclRefExpr' and r0['referencedDecl'].get('name') in self.acc and \
                (r0['referencedDecl'].get('name') not in fenv or r0['referencedDecl'].get('name') in getattr(self, 'promoted', set())):
            for term, lp, nd in self.acc[r0['referencedDecl'].get('name')]:
                self.emit((arr, idx), '+=', term, lp, nd)
            return
        if op == '+=' and r0.get('kind') == 'DeclRefExpr' and r0['referencedDecl'].get('name') in self.acc and \
                (r0['referencedDecl'].get('name') not in fenv or r0['referencedDecl'].get('name') in getattr(self, 'promoted', set())):
            for term, lp, nd in self.acc[r0['referencedDecl'].get('name')]:
                self.emit((arr, idx), '+=', term, lp, nd)
            return
        if op == '=' and r0.get('kind') == 'BinaryOperator' and r0.get('opcode') in ('/', '*'):
            x, dn = kids(r0)
            x0 = strip(x)
            if x0.get('kind') == 'ParenExpr':
                x0 = strip(kids(x0)[0])
            if x0.get('kind') == 'DeclRefExpr' and x0['referencedDecl'].get('name') in self.acc and not fe.is_float_type(strip(dn, casts=True)) :
                # out = accumulator / (shape expression): the accumulator was reset for this output cell, so this is the scaled sum
                sc = Rat(self.shape_poly(dn, ienv))
                for term, lp, nd in self.acc[x0['referencedDecl'].get('name')]:
                    self.emit((arr, idx), '+=', term / sc if r0['opcode'] == '/' else term * sc, lp, nd)
                return
        if op == '-=' and getattr(self, 'allow_sub', False):
            self.emit((arr, idx), '+=', -self.rat(rhs, ienv, fenv), loops, node)
            return
        if op not in ('=', '+=', '/=', '*='):
            raise Unsupported('store operator %s' % op)
        if op == '=':
            # out = (acc - c) / d  and the like: affine in exactly one accumulator -> its terms scaled, plus a constant term
            accs = {m['referencedDecl'].get('name') for m in walk(r0) if m.get('kind') == 'DeclRefExpr' and m['referencedDecl'].get('name') in self.acc and
                    (m['referencedDecl'].get('name') not in fenv or m['referencedDecl'].get('name') in getattr(self, 'promoted', set()))}
            if len(accs) == 1:
                an = list(accs)[0]
                f2 = dict(fenv)
                f2[an] = Rat(Poly.atom('ACC#'))
                saved_prom = set(getattr(self, 'promoted', set()))
                self.promoted = saved_prom - {an}
                try:
                    val = self.rat(rhs, ienv, f2)
                finally:
                    self.promoted = saved_prom
                co = val.n.coeff('ACC#')
                if co is not None and 'ACC#' not in val.d.atoms() and 'ACC#' not in co.atoms():
                    a_ = Rat(co, val.d)
                    b_ = Rat(val.n - co * Poly.atom('ACC#'), val.d)
                    for term, lp, nd in self.acc[an]:
                        self.emit((arr, idx), '+=', term * a_, lp, nd)
                    if not b_.is_zero():
                        self.emit((arr, idx), '+=', b_, loops, node)
                    return
        self.emit((arr, idx), op, self.rat(rhs, ienv, fenv), loops, node)


# ---- unification -------------------------------------------------------------------------------------------------------
def merge_unrolled(ex, contribs):
    """step-c loop + remainder loop over the same variable -> one unit-step loop (after checking the unrolled body)"""
    out = []
    used = set()
    for a in contribs:
        if id(a) in used:
            continue
        stepped = [l for l in a.loops if l[3] > 1]
        if not stepped:
            out.append(a)
            continue
        if len(stepped) != 1:
            raise Unsupported('two unrolled loops in one nest')
        var, lo, hi, c, node = stepped[0]
        mate = None
        for b in contribs:
            if b is a or id(b) in used:
                continue
            lb = [l for l in b.loops if l[0] == var]
            if lb and lb[0][3] == 1 and isinstance(lb[0][1], tuple) and lb[0][1][0] == 'modstart' and b.out[0] == a.out[0] and \
                    [l[0] for l in b.loops if l[0] != var] == [l[0] for l in a.loops if l[0] != var]:
                mate = (b, lb[0])
        if mate is None:
            raise Unsupported('unrolled loop over %s at %s has no remainder loop' % (var, ex.where(node)))
        b, lb = mate
        n_poly, c2 = lb[1][1], lb[1][2]
        n_sh = ex.shape_poly_from_poly(n_poly)
        if c2 != c or str(lb[2]) != str(n_sh) or str(hi) != str(n_sh - (c - 1)) or str(lo) != '0':
            raise Unsupported('unrolled loop bounds: main [%s, %s) step %d, remainder from n - n %% %d to %s' % (lo, hi, c, c2, lb[2]))
        # the unrolled term must be the remainder term shifted by 0..c-1
        want = Rat(Poly.const(0))
        for d in range(c):
            sub = {}
            for at in b.term.atoms():
                sub[at] = Poly.atom(shift_atom(at, var, d))
            want = want + Rat(b.term.n.subst(sub), b.term.d.subst(sub))
        if not want.same(a.term):
            raise UnrollMismatch(a, b, c)
        used.add(id(a))
        used.add(id(b))
        loops = [(l if l[0] != var else (var, Poly.const(0), n_sh, 1, node)) for l in a.loops]
        out.append(Contribution(a.out, a.mode, b.term, loops, a.node, a.wrap))
    return out


class UnrollMismatch(Exception):
    def __init__(self, a, b, c):
        self.a, self.b, self.c = a, b, c


def shift_atom(at, var, d):
    """cell atom with loop variable var replaced by var + d inside its index polynomials (textual, canonical Poly printing)"""
    if d == 0 or not at.endswith(']'):
        return at
    arr, rest = at.split('[', 1)
    parts = rest[:-1].split('][')
    new = []
    for p_ in parts:
        new.append(str(parse_index(p_).subst({var: Poly.atom(var) + d})))
    return '%s[%s]' % (arr, ']['.join(new))


def parse_index(s):
    """inverse of Poly.__repr__ for the small index polynomials that occur (sums of +-c*atom and constants)"""
    p = Poly.const(0)
    s = s.replace(' - ', ' + -')
    for term in s.split(' + '):
        term = term.strip()
        if not term:
            continue
        coef = 1
        if term.startswith('-'):
            coef, term = -1, term[1:]
        if '*' in term and term.split('*', 1)[0].lstrip('-').isdigit():
            c_, term = term.split('*', 1)
            coef *= int(c_)
        if term.lstrip('-').isdigit():
            p = p + Poly.const(coef * int(term))
        else:
            m = Poly.const(coef)
            for a in term.split('*'):
                m = m * Poly.atom(a)
            p = p + m
    return p


def shift_to_zero(out_idx, term, loops):
    """re-index every loop variable so that its range starts at 0 (v := v' + lo): index re-parametrisations then compare equal"""
    out_idx = list(out_idx)
    loops = list(loops)
    for n_, (v, lo, hi, step, node) in enumerate(loops):
        if isinstance(lo, tuple) or str(lo) == '0':
            continue
        sub = {v: Poly.atom(v) + lo}
        out_idx = [ix.subst(sub) if isinstance(ix, Poly) else ix for ix in out_idx]
        tsub = {}
        for at in term.atoms():
            if not at.endswith(']'):
                continue
            arr, rest = at.split('[', 1)
            parts = rest[:-1].split('][')
            tsub[at] = Poly.atom('%s[%s]' % (arr, ']['.join(str(parse_index(p_).subst(sub)) for p_ in parts)))
        term = Rat(term.n.subst(tsub), term.d.subst(tsub))
        loops[n_] = (v, Poly.const(0), hi - lo, step, node)
        for m_ in range(len(loops)):
            if m_ != n_:
                v2, lo2, hi2, st2, nd2 = loops[m_]
                loops[m_] = (v2, lo2.subst(sub) if isinstance(lo2, Poly) else lo2, hi2.subst(sub), st2, nd2)
    return out_idx, term, loops


def unify(ex, contribs, d):
    """does some renaming of loop variables map the kernel's single contribution onto the definition?  -> (ok, message)"""
    if len(contribs) != 1:
        return False, '%d contributions to the output, the definition has one: %s' % (len(contribs), '; '.join(repr(c) for c in contribs)[:300])
    c = contribs[0]
    k_out, k_term, k_loops = shift_to_zero(c.out[1], c.term, c.loops)
    c = Contribution((c.out[0], k_out), c.mode, k_term, k_loops, c.node, c.wrap)
    d = dict(d)
    d_loops = [(v, lo, hi, 1, None) for v, (lo, hi) in d['dom'].items()]
    d_out, d_term, d_loops = shift_to_zero([Poly.atom(x) if isinstance(x, str) and not x.lstrip('-').isdigit() else (Poly.const(int(x)) if isinstance(x, str) else x)
                                            for x in d['out'][1]], d['term'], d_loops)
    d['out'] = (d['out'][0], [str(x) for x in d_out])
    d['term'] = d_term
    d['dom'] = {v: (lo, hi) for v, lo, hi, st, nd in d_loops}
    shape_subst = getattr(ex, 'shape_subst', {})
    if c.out[0] != d['out'][0]:
        return False, 'writes %s, the definition writes %s' % (c.out[0], d['out'][0])
    if c.mode != d['mode'] or (c.wrap or None) != d.get('wrap'):
        return False, 'stores with `%s`%s, the definition with `%s`%s' % (c.mode, ' under ' + c.wrap if c.wrap else '', d['mode'], ' under ' + d['wrap'] if d.get('wrap') else '')
    kv = [l[0] for l in c.loops]
    dv = list(d['dom'])
    if len(kv) != len(dv):
        return False, 'runs over %d loop indices (%s), the definition over %d (%s)' % (len(kv), ', '.join(kv), len(dv), ', '.join(dv))
    def rename_atoms(p, ren):
        sub = {}
        for a in p.atoms():
            na = a
            for kvn, dvn in ren.items():
                if a == kvn:
                    na = dvn
                na = na.replace('[%s]' % kvn, '[%s]' % dvn)
            if na != a:
                sub[a] = Poly.atom(na)
        return p.subst(sub)

    def canon_map(ren):
        """union-find over the shape atoms the kernel's own conformability tests equate; representative = smallest name"""
        parent = {}

        def find(x):
            while parent.get(x, x) != x:
                x = parent[x]
            return x
        for a, b in ex.equalities:
            a, b = rename_atoms(a, ren), rename_atoms(b, ren)
            if len(a.atoms()) == 1 and a == Poly.atom(list(a.atoms())[0]) and len(b.atoms()) == 1 and b == Poly.atom(list(b.atoms())[0]):
                x, y = find(list(a.atoms())[0]), find(list(b.atoms())[0])
                if x != y:
                    lo_, hi_ = sorted((x, y))
                    parent[hi_] = lo_
        return {x: Poly.atom(find(x)) for x in parent if find(x) != x}

    def norm(p, ren, cm=None):
        q = rename_atoms(p, ren)
        if shape_subst:
            q = q.subst(shape_subst)
        return q.subst(cm) if cm else q
    best = None
    for perm in itertools.permutations(dv):
        ren = dict(zip(kv, perm))
        cm = canon_map(ren)
        # output index
        if len(c.out[1]) != len(d['out'][1]):
            return False, 'output has %d indices, the definition %d' % (len(c.out[1]), len(d['out'][1]))
        if any(str(norm(ix, ren)) != want for ix, want in zip(c.out[1], d['out'][1])):
            best = best or 'the output index is %s' % [str(x) for x in c.out[1]]
            continue
        # term: rename inside cell atoms
        sub = {}
        for at in c.term.atoms():
            if not at.endswith(']'):
                sub[at] = norm(Poly.atom(at), ren, cm)          # a shape atom (rows - 1 in a divisor)
                continue
            arr, rest = at.split('[', 1)
            parts = rest[:-1].split('][')
            sub[at] = Poly.atom('%s[%s]' % (arr, ']['.join(str(norm(parse_index(p_), ren)) for p_ in parts)))
        t2 = Rat(c.term.n.subst(sub), c.term.d.subst(sub))
        if not t2.same(d['term']):
            best = 'the term is %s' % t2
            continue
        # domain
        okd = True
        for (v, lo, hi, step, node) in c.loops:
            dlo, dhi = d['dom'][ren[v]]
            wl, wh = norm(dlo, {}, cm), norm(dhi, {}, cm)
            if isinstance(lo, tuple) or str(norm(lo, ren, cm)) != str(wl) or str(norm(hi, ren, cm)) != str(wh) or step != 1:
                okd = False
                best = 'index %s runs over [%s, %s) step %s, the definition over [%s, %s)' % (ren[v], lo, hi, step, dlo, dhi)
        if okd:
            return True, 'cell form %s %s %s for %s' % ('%s[%s]' % (d['out'][0], ']['.join(d['out'][1])) if d['out'][1] else 'result', d['mode'], d['term'],
                                                       ', '.join('%s in [%s, %s)' % (v, a, b) for v, (a, b) in d['dom'].items()))
    return False, best or 'no renaming of the loop indices matches'


def run(chk, prog):
    R = chk.rule('K.definition', 'the cell form of the kernel (output index, term, index domain; temporaries, accessors and scalar accumulators '
                 'resolved, data filters aside, unrolled loop + remainder merged) equals its textbook definition up to a renaming of the loop indices')
    defs = _defs()
    for name, d in defs.items():
        f = prog.funcs.get(name)
        if f is None or f.body is None:
            chk.broke('kernel %s not found' % name)
            continue
        ex = Extractor(prog, f)
        ex.shape_poly_from_poly = lambda p, ex=ex: _positional(ex, p)
        try:
            contribs = merge_unrolled(ex, ex.run())
            ok, msg = unify(ex, contribs, d)
        except UnrollMismatch as u:
            ok, msg = False, 'the unrolled statement is not the remainder statement shifted by 0..%d: %s versus %s' % (u.c - 1, u.a.term, u.b.term)
        except Unsupported as e:
            chk.broke('%s: cell form not extracted: %s' % (name, e))
            continue
        if ok:
            chk.instance(R, '%s %s: %s  [%s]' % (f.where, name, d['text'], msg[:160]))
        else:
            chk.instance(R, '%s %s: %s' % (f.where, name, msg[:200]), 'refuted')
            chk.violation(Finding('K.definition', rel(f.file), name, 'cellform', f.where,
                                  '%s does not compute its definition %s: %s' % (name, d['text'], msg[:400])))


def _positional(ex, p):
    sub = {}
    for a in p.atoms():
        for nm, i in ex.pidx.items():
            if a == nm or a.startswith(nm + '->'):
                sub[a] = Poly.atom('$%d%s' % (i, a[len(nm):]))
    return p.subst(sub)
