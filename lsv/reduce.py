"""E14: reduction forms.  A figure of merit is a function of sums over the non-missing elements of two vectors.

Every function of statistic.c listed in DEFINITIONS is abstracted, without executing anything, to a closed form over
*basis sums*  S[t^a p^b ...]  (sum over the guarded index set of a monomial in the truth element t, the prediction element p and
per-element atoms such as |p - t|):

  * a counting loop over [0, truth->size) whose accumulations (`acc += term`, `n += 1`, `n++`) all sit under the same
    "truth element is not MISSING" guard contributes, for each accumulation, the sum of its term; the term is a polynomial in t, p
    with loop-invariant coefficients (scalars computed before the loop, themselves closed forms), and by linearity the sum is
    rewritten over basis sums -- so a two-pass centred sum and the algebraically equal one-pass form normalise to the same
    rational function;
  * straight-line updates after a loop (`avg /= (double)n`) and the return expression are composed symbolically;
  * `square(x)` is x*x; `fabs`, `sqrt` are kept as wrappers compared structurally (fabs up to the sign of its argument).

The closed form is compared with the definition of the figure (exact arithmetic, polynomial normalisation):

  RF.definition   the value returned equals the defining formula over the non-missing elements
  RF.guard        every accumulation of every loop is under the same not-missing guard on the TRUTH element, loops run over all elements

A function whose shape is not a reduction (running recurrences, early exits) is ANALYSIS-BROKEN, never a pass and never a violation."""
from fractions import Fraction

from . import frontend as fe
from .frontend import kids, strip, walk, callee_name, call_args
from . import exprs, flow, guards
from .sym import Poly
from .spline import Rat
from .report import Finding


class Unsupported(Exception):
    pass


def rel(p):
    return p[len(fe.REPO) + 1:] if p.startswith(fe.REPO + '/') else p


ELEM = ('t', 'p')


def is_elem_atom(a):
    return a in ELEM or a.startswith('|')


def _second_order(r):
    """does the closed form contain a sum of second-order element monomials (S[t*t], S[p*t], ...) or a product of two sums?"""
    if isinstance(r, Wrap):
        return False
    for mono in r.n.t:
        sums = [a for a in mono if a.startswith('S[')]
        if any(a.count('*') >= 1 for a in sums) or len(sums) >= 2:
            return True
    return False


class Wrap:
    """fn(arg) with arg a Rat or Wrap"""
    def __init__(self, fn, arg):
        self.fn, self.arg = fn, arg

    def __repr__(self):
        return '%s(%r)' % (self.fn, self.arg)


def same(a, b):
    if isinstance(a, Wrap) or isinstance(b, Wrap):
        if not (isinstance(a, Wrap) and isinstance(b, Wrap)) or a.fn != b.fn:
            return False
        if same(a.arg, b.arg):
            return True
        if a.fn == 'fabs' and isinstance(a.arg, Rat) and isinstance(b.arg, Rat):
            return a.arg.same(-b.arg)
        return False
    return a.same(b)


def basis(mono):
    """atom naming the sum over the guarded set of an element monomial (tuple of element atoms, sorted)"""
    if not mono:
        return 'N'
    return 'S[' + '*'.join(mono) + ']'


def sum_over(term):
    """sum over the guarded index set of term (Rat whose denominator is loop-invariant) -> Rat over basis sums"""
    if any(is_elem_atom(a) for a in term.d.atoms()):
        raise Unsupported('a term divides by an element-dependent quantity')
    out = Poly()
    for mono, c in term.n.t.items():
        el = tuple(sorted(a for a in mono if is_elem_atom(a)))
        inv = tuple(sorted(a for a in mono if not is_elem_atom(a)))
        out = out + Poly({tuple(sorted(inv + (basis(el),))): c})
    return Rat(out, term.d)


def abs_atom(r):
    """per-element atom |poly| with the sign of the leading coefficient normalised"""
    if r.d != Poly.const(1) and not r.d.is_const():
        raise Unsupported('fabs of a quotient inside a term')
    n = r.n
    lead = sorted(n.t.items(), key=lambda kv: (len(kv[0]), kv[0]))
    if lead and lead[0][1] < 0:
        n = -n
    return Rat(Poly.atom('|%s|' % n), r.d) if r.d.is_const() else None


class Reducer:
    def __init__(self, prog, f):
        self.prog, self.f = prog, f
        self.truth = f.params[0]['name']
        self.pred = f.params[1]['name'] if len(f.params) > 1 else None
        self.guard_notes = []
        self.cancellations = []  # post-loop subtractions of two second-order sums (catastrophic cancellation)
        self.colvar = None       # column mode: name of the outer (column) loop variable
        self.results = []        # column mode: values appended to the output vector

    def where(self, n):
        return self.f.unit.where(n)

    # ---- expressions
    def ev(self, n, env, loopvar=None):
        n = strip(n)
        k = n.get('kind')
        if k == 'FloatingLiteral':
            fr = Fraction(str(n.get('value'))).limit_denominator(10 ** 9)
            return Rat(Poly.const(fr.numerator), Poly.const(fr.denominator))
        if k == 'IntegerLiteral':
            return Rat(Poly.const(int(n['value'])))
        if k == 'UnaryOperator' and n.get('opcode') in ('-', '+'):
            r = self.ev(kids(n)[0], env, loopvar)
            if isinstance(r, Wrap):
                raise Unsupported('sign applied to fabs/sqrt')
            return -r if n['opcode'] == '-' else r
        if k == 'BinaryOperator' and n.get('opcode') in ('+', '-', '*', '/'):
            a = self.ev(kids(n)[0], env, loopvar)
            b = self.ev(kids(n)[1], env, loopvar)
            if isinstance(a, Wrap) or isinstance(b, Wrap):
                raise Unsupported('arithmetic on a fabs/sqrt value')
            if n['opcode'] == '-' and loopvar is None and _second_order(a) and _second_order(b):
                # sum of squares minus a product of sums, formed AFTER the loops: the one-pass form  sum x^2 - (sum x)^2/n
                self.cancellations.append(n)
            return {'+': a.__add__, '-': a.__sub__, '*': a.__mul__, '/': a.__truediv__}[n['opcode']](b)
        if k == 'ArraySubscriptExpr' and self.colvar is not None:
            b = strip(kids(n)[0])
            if b.get('kind') == 'ArraySubscriptExpr':
                bb = strip(kids(b)[0])
                if bb.get('kind') == 'MemberExpr' and bb.get('name') == 'data':
                    base = strip(kids(bb)[0])
                    if (base.get('kind') == 'DeclRefExpr' and base['referencedDecl'].get('name') == self.truth and loopvar is not None and
                            exprs.to_poly(kids(b)[1], byname=True) == Poly.atom(loopvar) and
                            exprs.to_poly(kids(n)[1], byname=True) == Poly.atom(self.colvar)):
                        return Rat(Poly.atom('t'))
            raise Unsupported('element reference %s' % self.f.unit.text(n))
        if k == 'ArraySubscriptExpr':
            b = strip(kids(n)[0])
            if b.get('kind') == 'MemberExpr' and b.get('name') == 'data':
                base = strip(kids(b)[0])
                if base.get('kind') == 'DeclRefExpr' and loopvar is not None and exprs.to_poly(kids(n)[1], byname=True) == Poly.atom(loopvar):
                    nm = base['referencedDecl'].get('name')
                    if nm == self.truth:
                        return Rat(Poly.atom('t'))
                    if nm == self.pred:
                        return Rat(Poly.atom('p'))
            raise Unsupported('element reference %s' % self.f.unit.text(n))
        if k == 'MemberExpr' and n.get('name') == 'size':
            base = strip(kids(n)[0])
            if base.get('kind') == 'DeclRefExpr':
                return Rat(Poly.atom('len(%s)' % base['referencedDecl'].get('name')))
        if k == 'DeclRefExpr':
            nm = n['referencedDecl'].get('name')
            if nm in env:
                return env[nm]
            raise Unsupported('variable %s has no closed form' % nm)
        if k == 'CallExpr':
            cn = callee_name(n)
            a = call_args(n)
            if cn == 'square' and len(a) == 1:
                x = self.ev(a[0], env, loopvar)
                return x * x
            if cn == 'fabs' and len(a) == 1:
                x = self.ev(a[0], env, loopvar)
                if loopvar is not None and isinstance(x, Rat) and any(is_elem_atom(q) for q in x.atoms()):
                    r = abs_atom(x)
                    if r is None:
                        raise Unsupported('fabs of a scaled element term')
                    return r
                return Wrap('fabs', x)
            if cn == 'sqrt' and len(a) == 1:
                return Wrap('sqrt', self.ev(a[0], env, loopvar))
            g = self.prog.funcs.get(cn) if cn else None
            if g is not None and g.body is not None and len(a) == len(g.params) == 2:
                names = [strip(x)['referencedDecl'].get('name') if strip(x).get('kind') == 'DeclRefExpr' else None for x in a]
                if names == [self.truth, self.pred]:
                    sub = Reducer(self.prog, g)
                    val = sub.run()
                    self.guard_notes += sub.guard_notes
                    return val
            raise Unsupported('call to %s' % cn)
        raise Unsupported('expression of kind %s' % k)

    # ---- statements
    def run(self):
        env = {}
        ret = [None]
        for s in kids(self.f.body):
            self.stmt(s, env, ret)
            if ret[0] is not None:
                break
        if ret[0] is None:
            raise Unsupported('no return value')
        return ret[0]

    def run_columns(self):
        """f(matrix *m, dvector *out): one outer loop over the columns, each iteration appends one closed form to out"""
        outer = [s for s in kids(self.f.body) if strip(s).get('kind') == 'ForStmt']
        if len(outer) != 1:
            raise Unsupported('expected one loop over the columns')
        n = strip(outer[0])
        ind = flow.induction(n)
        if ind is None or ind['step'].const_value() != 1 or ind['op'] != '<':
            raise Unsupported('column loop is not a unit-step counting loop')
        init, cond, inc, body = flow.for_parts(n)
        c = strip(cond)
        l, r = kids(c)
        bn = r if exprs.path_of(l) == ind['var'] else l
        full = ind['init'] == Poly.const(0) and exprs.to_poly(bn, byname=True) == Poly.atom('%s->col' % self.truth)
        self.guard_notes.append(('range', n, full, 'columns [%s, %s)' % (ind['init'], exprs.to_poly(bn, byname=True))))
        self.colvar = ind['var'].split('#')[0]
        env = {}
        ret = [None]
        for s in (kids(body) if body.get('kind') == 'CompoundStmt' else [body]):
            s0 = strip(s)
            if s0.get('kind') == 'CallExpr' and callee_name(s0) in ('DVectorAppend',):
                a = call_args(s0)
                if strip(a[0]).get('kind') == 'DeclRefExpr' and strip(a[0])['referencedDecl'].get('name') == self.pred:
                    self.results.append((s0, self.ev(a[1], env)))
                    continue
            if s0.get('kind') == 'IfStmt':
                self.snap_if(s0, env)
                continue
            self.stmt(s, env, ret)
        if len(self.results) != 1:
            raise Unsupported('%d values appended to the output vector per column' % len(self.results))
        return self.results[0][1]

    def snap_if(self, n, env):
        """if(ApproxEq(v, 0, eps)) v = 0; else v /= n;   -- snapping a value that is (approximately) zero to exactly zero does not change
        the closed form beyond eps: treated as the else arm"""
        c, t, e = flow.if_parts(n)
        m = guards.match_approx(c)
        if m and e is not None and guards.literal_value(m[1]) == 0.0 and strip(m[0]).get('kind') == 'DeclRefExpr':
            v = strip(m[0])['referencedDecl'].get('name')
            ts = [strip(x) for x in (kids(t) if t.get('kind') == 'CompoundStmt' else [t])]
            if len(ts) == 1 and ts[0].get('kind') == 'BinaryOperator' and ts[0].get('opcode') == '=' and \
                    strip(kids(ts[0])[0]).get('kind') == 'DeclRefExpr' and strip(kids(ts[0])[0])['referencedDecl'].get('name') == v and \
                    guards.literal_value(kids(ts[0])[1]) == 0.0:
                ret = [None]
                for x in (kids(e) if e.get('kind') == 'CompoundStmt' else [e]):
                    self.stmt(x, env, ret)
                self.guard_notes.append(('snap', n, v, guards.literal_value(m[2])))
                return
        raise Unsupported('conditional at %s' % self.where(n))

    def stmt(self, s, env, ret):
        s0 = strip(s)
        k = s0.get('kind')
        if k == 'DeclStmt':
            for vd in kids(s0):
                if vd.get('kind') == 'VarDecl' and kids(vd) and '[' not in (vd.get('type') or {}).get('qualType', ''):
                    env[vd['name']] = self.ev(kids(vd)[-1], env)
            return
        if k == 'BinaryOperator' and s0.get('opcode') == '=':
            targets = []
            cur = s0
            while strip(cur).get('kind') == 'BinaryOperator' and strip(cur).get('opcode') == '=':
                cur = strip(cur)
                targets.append(strip(kids(cur)[0]))
                cur = kids(cur)[1]
            v = self.ev(cur, env)
            for t in targets:
                if t.get('kind') != 'DeclRefExpr':
                    raise Unsupported('store to %s' % self.f.unit.text(t))
                env[t['referencedDecl'].get('name')] = v
            return
        if k == 'CompoundAssignOperator':
            t = strip(kids(s0)[0])
            if t.get('kind') != 'DeclRefExpr':
                raise Unsupported('compound store to %s' % self.f.unit.text(t))
            nm = t['referencedDecl'].get('name')
            a, b = env.get(nm), self.ev(kids(s0)[1], env)
            if a is None or isinstance(a, Wrap) or isinstance(b, Wrap):
                raise Unsupported('update of %s' % nm)
            if s0['opcode'] == '-=' and _second_order(a) and _second_order(b):
                self.cancellations.append(s0)
            env[nm] = {'+=': a.__add__, '-=': a.__sub__, '*=': a.__mul__, '/=': a.__truediv__}[s0['opcode']](b)
            return
        if k == 'ForStmt':
            self.loop(s0, env)
            return
        if k == 'ReturnStmt':
            ret[0] = self.ev(kids(s0)[0], env)
            return
        if k in ('NullStmt',):
            return
        raise Unsupported('statement %s at %s' % (k, self.where(s0)))

    def loop(self, n, env):
        ind = flow.induction(n)
        if ind is None or ind['step'].const_value() != 1 or ind['op'] != '<':
            raise Unsupported('loop at %s is not a unit-step counting loop' % self.where(n))
        var = ind['var'].split('#')[0]
        init, cond, inc, body = flow.for_parts(n)
        c = strip(cond)
        l, r = kids(c)
        bn = r if exprs.path_of(l) == ind['var'] else l
        bound = exprs.to_poly(bn, byname=True)
        full = ind['init'] == Poly.const(0) and bound == Poly.atom('%s->%s' % (self.truth, 'row' if self.colvar is not None else 'size'))
        self.guard_notes.append(('range', n, full, '[%s, %s)' % (ind['init'], bound)))
        pm = flow.parent_map(n)
        updates = {}
        for x in walk(body):
            kx = x.get('kind')
            tgt = None
            term = None
            if kx == 'CompoundAssignOperator' and x.get('opcode') in ('+=', '-='):
                t = strip(kids(x)[0])
                if t.get('kind') == 'DeclRefExpr':
                    tgt = t['referencedDecl'].get('name')
                    term = ('expr', kids(x)[1], x.get('opcode'))
            elif kx == 'UnaryOperator' and x.get('opcode') in ('++',):
                t = strip(kids(x)[0])
                if t.get('kind') == 'DeclRefExpr' and t['referencedDecl'].get('name') != var:
                    tgt = t['referencedDecl'].get('name')
                    term = ('one', None, '+=')
            elif kx in ('BinaryOperator',) and x.get('opcode') == '=' and not (
                    strip(kids(x)[0]).get('kind') == 'DeclRefExpr' and strip(kids(x)[0])['referencedDecl'].get('name') in
                    {v_.get('name') for v_ in walk(body) if v_.get('kind') == 'VarDecl'}):
                t = strip(kids(x)[0])
                if t.get('kind') == 'DeclRefExpr':
                    raise Unsupported('plain assignment to %s inside a reduction loop at %s (a running recurrence, not a sum)' %
                                      (t['referencedDecl'].get('name'), self.where(x)))
                raise Unsupported('store inside a reduction loop at %s' % self.where(x))
            elif kx in ('BreakStmt', 'ReturnStmt', 'WhileStmt', 'ForStmt', 'DoStmt') and x is not n:
                raise Unsupported('%s inside a reduction loop at %s' % (kx, self.where(x)))
            elif kx == 'CompoundAssignOperator':
                raise Unsupported('%s inside a reduction loop at %s' % (x.get('opcode'), self.where(x)))
            if tgt is None:
                continue
            # guard: facts on the path from the loop body to the statement
            gs = guards.approx_guards(pm, x, stop=n, with_tol=True)
            gkey = set()
            for pol, xx, vv, tol in gs:
                gkey.add((self.elem_role(xx, var), guards.literal_value(vv), pol))
            self.guard_notes.append(('acc', x, frozenset(gkey), tgt))
            updates.setdefault(tgt, []).append((x, term))
        assigned = set(updates)
        # per-element temporaries: float locals declared with an initialiser inside the loop body
        temps = {}
        for x in walk(body):
            if x.get('kind') == 'VarDecl' and kids(x) and fe.is_float_type(x):
                temps[x['name']] = kids(x)[-1]
        for tgt, ups in updates.items():
            for x, (kind, node, op) in ups:
                inv_env = {k2: v for k2, v in env.items() if k2 not in assigned}
                for tn, tnode in temps.items():
                    inv_env[tn] = self.ev(tnode, inv_env, var)
                if kind == 'one':
                    term = Rat(Poly.const(1))
                else:
                    term = self.ev(node, inv_env, var)
                    if isinstance(term, Wrap):
                        raise Unsupported('accumulated term is a bare fabs/sqrt of loop-invariant data')
                s_ = sum_over(term)
                if tgt not in env or isinstance(env[tgt], Wrap):
                    raise Unsupported('accumulator %s has no initial closed form' % tgt)
                env[tgt] = env[tgt] + s_ if op == '+=' else env[tgt] - s_

    def elem_role(self, x, var):
        x = strip(x)
        if self.colvar is not None:
            try:
                r = self.ev(x, {}, var)
                if isinstance(r, Rat) and r.same(Rat(Poly.atom('t'))):
                    return 'truth'
            except Unsupported:
                pass
            return self.f.unit.text(x)
        if x.get('kind') == 'ArraySubscriptExpr':
            b = strip(kids(x)[0])
            if b.get('kind') == 'MemberExpr' and b.get('name') == 'data':
                base = strip(kids(b)[0])
                if base.get('kind') == 'DeclRefExpr' and exprs.to_poly(kids(x)[1], byname=True) == Poly.atom(var):
                    nm = base['referencedDecl'].get('name')
                    return 'truth' if nm == self.truth else ('prediction' if nm == self.pred else nm)
        return self.f.unit.text(x)


# ---- definitions (exact arithmetic, over the non-missing elements) --------------------------------------------------
def _defs():
    t, p = Rat(Poly.atom('t')), Rat(Poly.atom('p'))
    N = sum_over(Rat(Poly.const(1)))
    mean = sum_over(t) / N
    err = p - t
    one = Rat(Poly.const(1))
    mse = sum_over(err * err) / N
    return {
        'MSE': (mse, 'sum (p_i - t_i)^2 / n'),
        'RMSE': (Wrap('sqrt', mse), 'sqrt(MSE)'),
        'MAE': (sum_over(abs_atom(err)) / N, 'sum |p_i - t_i| / n'),
        'R2': (one - sum_over(err * err) / sum_over((t - mean) * (t - mean)), '1 - sum (p_i - t_i)^2 / sum (t_i - mean(t))^2'),
        'BIAS': (Wrap('fabs', one - sum_over(p * (t - mean)) / sum_over(t * (t - mean))), '|1 - slope of p against t|'),
    }


def run(chk, prog):
    R1 = chk.rule('RF.definition', 'the closed form returned (sums over the non-missing elements, composed symbolically, exact arithmetic) '
                  'equals the defining formula of the figure of merit')
    R2 = chk.rule('RF.guard', 'every accumulation is under the one guard "truth element is not MISSING" and every loop runs over all elements')
    R3 = chk.rule('RF.centred', 'centred second-order sums are accumulated as squared / cross deviations, never as (sum of squares) - (product of sums) '
                  'after the loop (that form cancels for offsets large against the spread: the figures hold for vectors of any scale)')
    miss = float(guards.missing_value())
    for name, (want, text) in _defs().items():
        f = prog.funcs.get(name)
        if f is None or f.body is None:
            chk.broke('%s not found' % name)
            continue
        red = Reducer(prog, f)
        try:
            got = red.run()
        except Unsupported as e:
            chk.broke('%s: not a reduction form: %s' % (name, e))
            continue
        if same(got, want):
            chk.instance(R1, '%s %s == %s' % (f.where, name, text))
        else:
            chk.instance(R1, '%s %s: closed form %s' % (f.where, name, str(got)[:160]), 'refuted')
            chk.violation(Finding('RF.definition', rel(f.file), name, 'formula', f.where,
                                  '%s returns %s, which is not its definition %s = %s (N: number of non-missing truths, S[..]: sums over them)'
                                  % (name, str(got)[:300], text, str(want)[:200])))
        if red.cancellations:
            for node in red.cancellations:
                chk.instance(R3, '%s %s: `%s` subtracts a product of sums from a sum of squares' % (f.unit.where(node), name, f.unit.text(node)[:60]), 'refuted')
                chk.violation(Finding('RF.centred', rel(f.file), name, 'cancel', f.unit.where(node),
                                      '%s: `%s` forms a second-order quantity as (sum of squares) - (product of sums) after the loop: equal to the centred sum '
                                      'in exact arithmetic, but for data whose offset is large compared with its spread the two terms cancel and the result '
                                      'loses all digits (R2 above 1 or -inf); the definition sums squared deviations from the mean' %
                                      (name, f.unit.text(node)[:70])))
        else:
            chk.instance(R3, '%s %s: no second-order quantity is formed by subtracting sums after the loops' % (f.where, name))
        for note in red.guard_notes:
            if note[0] == 'range':
                _, node, full, rng = note
                if full:
                    chk.instance(R2, '%s %s: loop over all elements %s' % (f.unit.where(node) if f.unit is red.f.unit else red.f.unit.where(node), name, rng))
                else:
                    chk.instance(R2, '%s %s: loop over %s' % (red.f.unit.where(node), name, rng), 'refuted')
                    chk.violation(Finding('RF.guard', rel(f.file), name, 'range', red.f.unit.where(node),
                                          '%s sums over %s instead of every element of the truth vector' % (name, rng)))
            else:
                _, node, gkey, tgt = note
                good = gkey == frozenset({('truth', miss, False)})
                if good:
                    chk.instance(R2, '%s %s: `%s` accumulates under "truth not MISSING"' % (red.f.unit.where(node), name, tgt))
                else:
                    chk.instance(R2, '%s %s: `%s` accumulates under %s' % (red.f.unit.where(node), name, tgt, sorted(gkey, key=repr)), 'refuted')
                    chk.violation(Finding('RF.guard', rel(f.file), name, 'guard:%s' % tgt, red.f.unit.where(node),
                                          '%s: the accumulation into %s is guarded by %s; the definition sums over the elements whose TRUTH is not the '
                                          'missing code (and only those)' % (name, tgt, sorted(gkey, key=repr) or 'nothing')))


def _col_defs():
    t = Rat(Poly.atom('t'))
    N = sum_over(Rat(Poly.const(1)))
    mean = sum_over(t) / N
    one = Rat(Poly.const(1))
    var = sum_over((t - mean) * (t - mean)) / (N - one)
    return {
        'MatrixColAverage': (mean, 'sum x / n'),
        'MatrixColVar': (var, 'sum (x - mean)^2 / (n - 1)'),
        'MatrixColSDEV': (Wrap('sqrt', var), 'sqrt(sum (x - mean)^2 / (n - 1))'),
        'MatrixColRMS': (Wrap('sqrt', sum_over(t * t) / N), 'sqrt(sum x^2 / n)'),
    }


def run_columns(chk, prog):
    R1 = chk.rule('RF.column-statistic', 'for every column the value appended to the output vector is the defining statistic of the non-missing '
                  'cells of that column (closed form over column sums, exact arithmetic)')
    R2 = chk.rule('RF.column-guard', 'every accumulation is under "this cell is not MISSING", rows and columns are covered completely')
    miss = float(guards.missing_value())
    for name, (want, text) in _col_defs().items():
        f = prog.funcs.get(name)
        if f is None or f.body is None:
            chk.broke('%s not found' % name)
            continue
        red = Reducer(prog, f)
        try:
            got = red.run_columns()
        except Unsupported as e:
            chk.broke('%s: not a per-column reduction: %s' % (name, e))
            continue
        if same(got, want):
            chk.instance(R1, '%s %s appends %s per column' % (f.where, name, text))
        else:
            chk.instance(R1, '%s %s: closed form %s' % (f.where, name, str(got)[:160]), 'refuted')
            chk.violation(Finding('RF.column-statistic', rel(f.file), name, 'formula', f.where,
                                  '%s appends %s per column, which is not its definition %s = %s (N: number of non-missing cells of the column, '
                                  'S[..]: sums over them)' % (name, str(got)[:300], text, str(want)[:200])))
        for note in red.guard_notes:
            if note[0] == 'range':
                _, node, full, rng = note
                if full:
                    chk.instance(R2, '%s %s: loop over %s' % (f.unit.where(node), name, rng))
                else:
                    chk.instance(R2, '%s %s: loop over %s' % (f.unit.where(node), name, rng), 'refuted')
                    chk.violation(Finding('RF.column-guard', rel(f.file), name, 'range:%s' % rng, f.unit.where(node),
                                          '%s runs over %s instead of every row / column of the matrix' % (name, rng)))
            elif note[0] == 'snap':
                tol = note[3] if len(note) > 3 else None
                if tol is not None and tol <= 1e-6:
                    chk.instance(R2, '%s %s: `%s` snapped to exactly 0 when it is within %g of 0 (treated as the else arm)' %
                                 (f.unit.where(note[1]), name, note[2], tol))
                else:
                    chk.instance(R2, '%s %s: `%s` snapped to 0 within %s' % (f.unit.where(note[1]), name, note[2], tol), 'refuted')
                    chk.violation(Finding('RF.column-guard', rel(f.file), name, 'snap:%s' % note[2], f.unit.where(note[1]),
                                          '%s replaces `%s` by exactly 0 whenever it lies within %s of 0: for small-scale columns (values around 1e-4) that '
                                          'discards a real, non-zero statistic (the confirmed snap tolerance is 1e-6)' % (name, note[2], tol)))
            else:
                _, node, gkey, tgt = note
                if gkey == frozenset({('truth', miss, False)}):
                    chk.instance(R2, '%s %s: `%s` accumulates under "cell not MISSING"' % (f.unit.where(node), name, tgt))
                else:
                    chk.instance(R2, '%s %s: `%s` accumulates under %s' % (f.unit.where(node), name, tgt, sorted(gkey, key=repr)), 'refuted')
                    chk.violation(Finding('RF.column-guard', rel(f.file), name, 'guard:%s' % tgt, f.unit.where(node),
                                          '%s: the accumulation into %s is guarded by %s; the statistic is taken over the cells of the column that do '
                                          'not carry the missing code (and only those)' % (name, tgt, sorted(gkey, key=repr) or 'nothing')))
