"""Shape of the exchange sorts MatrixSort / MatrixReverseSort (used by the simplex, ROC and precision-recall code).

  SORT.shape   for rows i < j the rows are exchanged exactly when a PLAIN strict comparison of their keys says they are out of order
               (key[i] > key[j] ascending, key[i] < key[j] descending); the exchange covers every column of the row
               (point and value, score and label move together); i runs over all rows and j over all later rows.
A comparison with a tolerance is not a strict weak order (not transitive), so the result would not be sorted for keys closer than
the tolerance; exchanging a sub-range of the columns tears rows apart."""
from . import frontend as fe
from .frontend import kids, strip, walk
from . import exprs, flow
from .sym import Poly
from .report import Finding


def rel(p):
    return p[len(fe.REPO) + 1:] if p.startswith(fe.REPO + '/') else p


def _rng(loop):
    ind = flow.induction(loop)
    if ind is None or ind['step'].const_value() != 1 or ind['op'] != '<':
        return None
    init, cond, inc, body = flow.for_parts(loop)
    c = strip(cond)
    l, r = kids(c)
    bn = r if exprs.path_of(l) == ind['var'] else l
    init_s = strip(init)
    if init_s.get('kind') != 'BinaryOperator':
        return None
    return ind['var'].split('#')[0], exprs.to_poly(kids(init_s)[1], byname=True), exprs.to_poly(bn, byname=True)


def describe(g, descending):
    """-> (ok, message)"""
    m, key = g.params[0]['name'], g.params[1]['name']
    loops = [n for n in walk(g.body) if n.get('kind') == 'ForStmt']
    ifs = [n for n in walk(g.body) if n.get('kind') == 'IfStmt']
    if len(loops) != 3 or len(ifs) != 1:
        return None, 'shape not recognised (%d loops, %d conditionals)' % (len(loops), len(ifs))
    rng = [_rng(l) for l in loops]
    if any(r is None for r in rng):
        return None, 'a loop is not a unit-step counting loop'
    (v1, lo1, b1), (v2, lo2, b2), (v3, lo3, b3) = rng
    c = strip(kids(ifs[0])[0])
    ci, cj = '%s->data[%s][%s]' % (m, v1, key), '%s->data[%s][%s]' % (m, v2, key)
    plain = False
    if c.get('kind') == 'BinaryOperator' and c.get('opcode') in ('>', '<'):
        l, r = kids(c)
        lt, rt = exprs.path_of(l, byname=True), exprs.path_of(r, byname=True)
        want = '<' if descending else '>'
        flip = {'<': '>', '>': '<'}
        plain = (lt == ci and rt == cj and c['opcode'] == want) or (lt == cj and rt == ci and c['opcode'] == flip[want])
    whole = lo3 == Poly.const(0) and b3 == Poly.atom('%s->col' % m)
    rows = lo1 == Poly.const(0) and b1 == Poly.atom('%s->row' % m) and lo2 == Poly.atom(v1) + 1 and b2 == Poly.atom('%s->row' % m)
    msg = 'plain strict key comparison (%s)=%s, whole-row exchange=%s, all pairs i<j=%s' % ('descending' if descending else 'ascending', plain, whole, rows)
    return (plain and whole and rows), msg


def run(chk, prog, names=(('MatrixSort', False), ('MatrixReverseSort', True))):
    R = chk.rule('SORT.shape', 'rows i < j are exchanged exactly when a plain strict comparison of their keys finds them out of order, '
                 'the exchange moves every column, all pairs are visited')
    for name, desc in names:
        g = prog.funcs.get(name)
        if g is None or g.body is None:
            chk.broke('%s not found' % name)
            continue
        ok, msg = describe(g, desc)
        if ok is None:
            chk.broke('%s: %s' % (name, msg))
        elif ok:
            chk.instance(R, '%s %s: %s' % (g.where, name, msg))
        else:
            chk.instance(R, '%s %s: %s' % (g.where, name, msg), 'refuted')
            chk.violation(Finding('SORT.shape', rel(g.file), name, 'sort-shape', g.where,
                                  '%s: %s; callers rely on rows ordered by the key for ANY distinct keys (a tolerance or a non-strict test is not an '
                                  'order) with whole rows moved together' % (name, msg)))
