"""Structured control flow over the AST (the sources use no goto and no switch; appearance of
either in an analysed function is ANALYSIS-BROKEN)."""
from . import frontend as fe
from .frontend import kids, strip, walk, callee_name
from . import exprs

NORETURN = {'abort', 'exit', 'pthread_exit', '_exit', '__assert_fail'}
LOOPS = ('ForStmt', 'WhileStmt', 'DoStmt')


def raw(n):
    return n.get('inner', [])


def for_parts(n):
    i = raw(n)
    g = lambda x: x if x.get('kind') else None
    return g(i[0]), g(i[2]), g(i[3]), g(i[4])     # init, cond, inc, body


def loop_parts(n):
    """(init, cond, inc, body) for any loop"""
    k = n['kind']
    if k == 'ForStmt':
        return for_parts(n)
    i = raw(n)
    if k == 'WhileStmt':
        return None, i[0], None, i[1]
    if k == 'DoStmt':
        return None, i[1], None, i[0]
    raise ValueError(k)


def if_parts(n):
    i = [x for x in raw(n)]
    cond, then = i[0], i[1]
    els = i[2] if len(i) > 2 and i[2].get('kind') else None
    return cond, then, els


def check_supported(func_body, fname):
    for n in walk(func_body):
        if n.get('kind') in ('GotoStmt', 'IndirectGotoStmt', 'LabelStmt'):
            raise fe.AnalysisBroken('%s uses %s: the structured-CFG builder does not model it' % (fname, n['kind']))


def parent_map(root):
    pm = {}
    st = [root]
    while st:
        n = st.pop()
        for c in raw(n):
            if isinstance(c, dict) and c.get('kind'):
                pm[id(c)] = n
                st.append(c)
    return pm


def ancestors(pm, n):
    out = []
    while id(n) in pm:
        n = pm[id(n)]
        out.append(n)
    return out


def is_noreturn_call(n):
    n = strip(n)
    return n.get('kind') == 'CallExpr' and callee_name(n) in NORETURN


def exits(stmt):
    """Set of ways a statement always leaves the normal flow: subset of {'break','continue','return'}
    if *every* path through stmt ends that way; empty set otherwise.  (return includes noreturn calls)"""
    if stmt is None:
        return set()
    k = stmt.get('kind')
    if k == 'BreakStmt':
        return {'break'}
    if k == 'ContinueStmt':
        return {'continue'}
    if k == 'ReturnStmt':
        return {'return'}
    if is_noreturn_call(stmt):
        return {'return'}
    if k == 'CompoundStmt':
        for s in kids(stmt):
            e = exits(s)
            if e:
                return e
        return set()
    if k == 'IfStmt':
        c, t, e = if_parts(stmt)
        if e is None:
            return set()
        a, b = exits(t), exits(e)
        if a and b:
            return a | b
        return set()
    return set()


def path_conditions(pm, target, stop=None, byname=False):
    """Canonical conjuncts that hold whenever `target` is reached from the start of `stop`
    (default: function body): enclosing if-branches plus earlier sibling early-exits."""
    conds = []
    child = target
    for anc in ancestors(pm, target):
        k = anc.get('kind')
        if k == 'IfStmt':
            c, t, e = if_parts(anc)
            if child is t:
                conds += exprs.conjuncts(c, True, byname)
            elif child is e:
                conds += exprs.conjuncts(c, False, byname)
        elif k == 'CompoundStmt':
            for s in kids(anc):
                if s is child:
                    break
                if s.get('kind') == 'IfStmt':
                    c, t, e = if_parts(s)
                    if exits(t) and not (e is not None and exits(e)):
                        conds += exprs.conjuncts(c, False, byname)
                    elif e is not None and exits(e) and not exits(t):
                        conds += exprs.conjuncts(c, True, byname)
        elif k == 'SwitchStmt':
            # labels under which `target` is reached: the case labels between the last `break` before it and itself
            ks = kids(anc)
            body = ks[-1]
            cond = ks[0]
            labels, found = [], False
            for stmt in (kids(body) if body.get('kind') == 'CompoundStmt' else [body]):
                cur_labels = []
                inner = stmt
                while inner.get('kind') in ('CaseStmt', 'DefaultStmt'):
                    cur_labels.append(fe.int_value(kids(inner)[0]) if inner['kind'] == 'CaseStmt' else 'default')
                    inner = kids(inner)[-1] if kids(inner) else {}
                labels += cur_labels
                if any(x is target or x is child for x in walk(stmt)):
                    found = True
                    break
                if inner.get('kind') == 'BreakStmt' or exits(inner):
                    labels = []
            if found and labels and 'default' not in labels and all(l is not None for l in labels):
                cp = exprs.to_poly(cond, byname=byname)
                alts = [tuple([exprs.canon_rel('==', cp, exprs.Poly.const(l))]) for l in labels]
                conds.append(alts[0][0] if len(alts) == 1 else ('or', frozenset(alts)))
        if anc is stop:
            break
        child = anc
    return conds


def enclosing_loops(pm, n):
    return [a for a in ancestors(pm, n) if a.get('kind') in LOOPS]


def induction(loop):
    """For `for(i = a; i < b; i += c)` return dict(var=path, init=Poly, bound=Poly, op, step=Poly) or None."""
    if loop.get('kind') != 'ForStmt':
        return None
    init, cond, inc, body = for_parts(loop)
    if not (init and cond and inc):
        return None
    init_s = strip(init)
    var = None
    a = None
    if init_s.get('kind') == 'BinaryOperator' and init_s.get('opcode') == '=':
        l, r = kids(init_s)
        var = exprs.path_of(l)
        # chained i = j = 0
        rr = strip(r)
        while rr.get('kind') == 'BinaryOperator' and rr.get('opcode') == '=':
            rr = strip(kids(rr)[1])
        a = exprs.to_poly(rr)
    elif init_s.get('kind') == 'DeclStmt':
        vd = kids(init_s)[0]
        if vd.get('kind') == 'VarDecl' and kids(vd):
            var = '%s#%s' % (vd['name'], vd['id'])
            a = exprs.to_poly(kids(vd)[-1])
    if var is None:
        return None
    c = strip(cond)
    if not (c.get('kind') == 'BinaryOperator' and c.get('opcode') in ('<', '<=', '>', '>=', '!=')):
        return None
    l, r = kids(c)
    if exprs.path_of(l) == var:
        op, bound = c['opcode'], r
    elif exprs.path_of(r) == var:
        op, bound = {'<': '>', '<=': '>=', '>': '<', '>=': '<=', '!=': '!='}[c['opcode']], l
    else:
        return None
    i = strip(inc)
    step = None
    if i.get('kind') == 'UnaryOperator' and i.get('opcode') in ('++', '--') and exprs.path_of(kids(i)[0]) == var:
        step = exprs.Poly.const(1 if i['opcode'] == '++' else -1)
    elif i.get('kind') == 'CompoundAssignOperator' and i.get('opcode') in ('+=', '-=') and exprs.path_of(kids(i)[0]) == var:
        step = exprs.to_poly(kids(i)[1])
        if i['opcode'] == '-=':
            step = -step
    elif i.get('kind') == 'BinaryOperator' and i.get('opcode') == '=' and exprs.path_of(kids(i)[0]) == var:
        step = exprs.to_poly(kids(i)[1]) - exprs.Poly.atom(var)
    if step is None:
        return None
    return {'var': var, 'init': a, 'bound': exprs.to_poly(bound), 'bound_expr': bound, 'op': op, 'step': step}


def assigned_paths(n):
    """paths (by decl id) assigned anywhere inside n (=, op=, ++, --); calls are not followed"""
    out = set()
    for x in walk(n):
        if (x.get('kind') == 'CompoundAssignOperator' or (x.get('kind') == 'BinaryOperator' and x.get('opcode') == '=')
                or (x.get('kind') == 'UnaryOperator' and x.get('opcode') in ('++', '--'))):
            p = exprs.path_of(kids(x)[0])
            if p:
                out.add(p)
    return out


def single_definitions(body):
    """{variable path: Poly} for integer locals that are defined exactly once in the function (initialiser or one
    plain assignment, never ++/--/op=): their value can be propagated into index expressions."""
    from .sym import Poly
    count = {}
    rhs = {}
    for x in walk(body):
        k = x.get('kind')
        if k == 'VarDecl' and kids(x) and 'int' in (fe.qual(x) + ' ' + (x.get('type') or {}).get('qualType', '')) or \
           (k == 'VarDecl' and kids(x) and fe.qual(x) in ('unsigned long', 'long', 'int', 'unsigned int')):
            p = '%s#%s' % (x['name'], x['id'])
            count[p] = count.get(p, 0) + 1
            rhs[p] = kids(x)[-1]
        elif k == 'CompoundAssignOperator' or (k == 'UnaryOperator' and x.get('opcode') in ('++', '--')):
            p = exprs.path_of(kids(x)[0])
            if p:
                count[p] = count.get(p, 0) + 2
        elif k == 'BinaryOperator' and x.get('opcode') == '=':
            p = exprs.path_of(kids(x)[0])
            if p and '->' not in p and '[' not in p and '.' not in p:
                count[p] = count.get(p, 0) + 1
                rhs[p] = kids(x)[1]
        elif k == 'UnaryOperator' and x.get('opcode') == '&':
            p = exprs.path_of(kids(x)[0])
            if p:
                count[p] = count.get(p, 0) + 2
    env = {}
    for p, c in count.items():
        if c == 1 and p in rhs and fe.qual(strip(rhs[p], casts=False)) not in ('double', 'float'):
            v = exprs.to_poly(rhs[p])
            if not any(a.startswith('?') for a in v.atoms()) and p not in v.atoms():
                env[p] = v
    return env


def propagate(p, env, depth=4):
    for _ in range(depth):
        q = p.subst(env)
        if q == p:
            break
        p = q
    return p
