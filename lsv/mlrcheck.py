"""C07 (MLR is ordinary least squares with intercept): the structural / exact-arithmetic part.

Nothing is executed.  With the cell-form extractor of E16 (symbolic loop indices) and the call-sequence algebra of E17:

  MLR.design      the design matrix built by MLR() is  [1 | X]:  D[i][0] = 1,  D[i][j] = X[i][j-1] for j = 1..cols, for every row
  MLR.per-response for every response column j the response vector handed to the solver is Y[:, j], the coefficient vector is fresh,
                  the solver is OrdinaryLeastSquares(D, y_j, b) and b is appended as column j of the model
  MX.definition   OrdinaryLeastSquares returns (D'D)^-1 D'y  (normal equations; with the column of ones this gives residuals that sum to
                  zero and are orthogonal to every predictor, recovers noise-free linear data, and is equivariant) -- rule of E17
  MLR.predict     MLRPredictY stores  P[i][k] = b[0][k] + sum_j X[i][j] b[j+1][k]
  MLR.residual    residual[i][j] = P[i][j] - Y[i][j]
  MLR.r2-sdec     per response:  R2 = 1 - RSS/TSS with RSS = sum_i (Y - P)^2, TSS = sum_i (Y - mean_j)^2, SDEC = sqrt(RSS / rows),
                  and the means are MatrixColAverage(Y) taken by MLR() before the call

Exact arithmetic; the numerical accuracy of the Gauss-Jordan inverse for ill-conditioned X is not decided."""
from . import frontend as fe
from .frontend import kids, strip, walk, callee_name, call_args
from . import exprs, flow
from .sym import Poly
from .spline import Rat
from .kerneldef import Extractor, Unsupported, unify, cell
from .report import Finding


def rel(p):
    return p[len(fe.REPO) + 1:] if p.startswith(fe.REPO + '/') else p


def extract_loops(prog, f, loops):
    ex = Extractor(prog, f)
    ex.locals_ok = True
    ex.acc = {}
    ex.shape_poly_from_poly = lambda p: p
    for lp in loops:
        ex.stmt(lp, [], {}, {})
    return ex


def match_all(chk, rule, f, ex, contribs, wanted):
    """every wanted definition is matched by exactly one extracted contribution; extra contributions to the same arrays are reported"""
    used = set()
    for d in wanted:
        hit = None
        last = None
        for n_, c in enumerate(contribs):
            if n_ in used or c.out[0] != d['out'][0]:
                continue
            ok, msg = unify(ex, [c], d)
            if ok:
                hit = n_
                break
            last = msg
        if hit is not None:
            used.add(hit)
            chk.instance(rule, '%s %s: %s' % (f.unit.where(contribs[hit].node), f.name, d['text']))
        elif not any(c.out[0] == d['out'][0] for c in contribs):
            # nothing stores into that container by cell: it is filled some other way (a kernel call, a helper): not recognised, no verdict
            chk.broke('%s: no cell store into %s was found (filled by a call?): `%s` cannot be examined' % (f.name, d['out'][0], d['text']))
        else:
            chk.instance(rule, '%s %s: no store matches %s (%s)' % (f.where, f.name, d['text'], last), 'refuted')
            chk.violation(Finding(rule, rel(f.file), f.name, 'missing:' + d['text'][:40], f.where,
                                  '%s: no statement computes %s; closest candidate: %s' % (f.name, d['text'], last)))
    outs = {d['out'][0] for d in wanted}
    for n_, c in enumerate(contribs):
        if n_ not in used and c.out[0] in outs:
            chk.instance(rule, '%s %s: extra store into %s: %r' % (f.unit.where(c.node), f.name, c.out[0], c), 'refuted')
            chk.violation(Finding(rule, rel(f.file), f.name, 'extra:%s' % c.out[0], f.unit.where(c.node),
                                  '%s: an additional store into %s that the definition does not contain: %r' % (f.name, c.out[0], c)))


def run(chk, prog):
    A = Poly.atom
    Z, ONE = Poly.const(0), Poly.const(1)
    R_d = chk.rule('MLR.design', 'the design matrix is [1 | X]: a column of ones followed by the predictors in order, for every row')
    R_p = chk.rule('MLR.per-response', 'response column j is copied into the vector given to OrdinaryLeastSquares together with the design matrix and a '
                   'fresh coefficient vector, which is appended as column j of the model')
    R_y = chk.rule('MLR.predict', 'predicted[i][k] = b[0][k] + sum_j X[i][j] * b[j+1][k]')
    R_r = chk.rule('MLR.residual', 'residual[i][j] = predicted[i][j] - observed[i][j]')
    R_s = chk.rule('MLR.r2-sdec', 'R2 = 1 - RSS/TSS about the column mean of the observed response, SDEC = sqrt(RSS / rows), per response')
    f = prog.funcs.get('MLR')
    g = prog.funcs.get('MLRPredictY')
    if f is None or g is None or f.body is None or g.body is None:
        chk.broke('MLR / MLRPredictY not found')
        return
    # ---- MLR(): design matrix and per-response solve -----------------------------------------------------------------
    top_loops = [strip(s) for s in kids(f.body) if strip(s).get('kind') == 'ForStmt']
    design = None
    for n in walk(f.body):
        if n.get('kind') == 'CallExpr' and callee_name(n) == 'OrdinaryLeastSquares':
            a = call_args(n)
            design = (exprs.path_of(a[0], byname=True), exprs.path_of(a[1], byname=True), exprs.path_of(a[2], byname=True), n)
    if design is None:
        chk.instance(R_p, '%s MLR does not call OrdinaryLeastSquares' % f.where, 'refuted')
        chk.violation(Finding('MLR.per-response', rel(f.file), f.name, 'no-ols', f.where, 'MLR no longer obtains its coefficients from OrdinaryLeastSquares'))
        return
    Dn, yn, bn, olsnode = design
    try:
        ex = extract_loops(prog, f, top_loops)
    except Unsupported as e:
        chk.broke('MLR: loops not understood: %s' % e)
        return
    D = 'L:' + Dn
    # the design matrix is created with rows(X) x cols(X)+1
    newm = [n for n in walk(f.body) if n.get('kind') == 'CallExpr' and callee_name(n) == 'NewMatrix' and Dn in f.unit.text(call_args(n)[0])]
    shape_ok = False
    if len(newm) == 1:
        a = call_args(newm[0])
        shape_ok = exprs.to_poly(a[1], byname=True) == A('%s->row' % f.params[0]['name']) and \
            exprs.to_poly(a[2], byname=True) == A('%s->col' % f.params[0]['name']) + 1
    if not shape_ok:
        chk.instance(R_d, '%s MLR: the design matrix is not allocated rows(X) x cols(X)+1' % f.where, 'refuted')
        chk.violation(Finding('MLR.design', rel(f.file), f.name, 'shape', f.where, 'the design matrix of MLR is not created with rows(X) rows and cols(X)+1 columns'))
    rows, colsp1 = A('%s->row' % Dn), A('%s->col' % Dn)
    if shape_ok:
        # from the allocation: rows(D) = rows(X), cols(D) = cols(X) + 1
        ex.shape_subst = {'%s->row' % Dn: A('$0->row'), '%s->col' % Dn: A('$0->col') + 1}
    wanted = [
        dict(out=(D, ['i', 'j']), mode='=', term=cell('$0', 'i', A('j') - 1), dom={'j': (ONE, colsp1), 'i': (Z, rows)},
             text='D[i][j] = X[i][j-1] for j in [1, cols+1)'),
        dict(out=(D, ['i', Z]), mode='=', term=Rat(ONE), dom={'i': (Z, rows)}, text='D[i][0] = 1'),
    ]
    contribs = [c for c in ex.contribs if c.out[0] == D]
    # out index lists mix names and constants: normalise the definition side to strings
    for d in wanted:
        d['out'] = (d['out'][0], [x if isinstance(x, str) else str(x) for x in d['out'][1]])
    match_all(chk, 'MLR.design', f, ex, contribs, wanted)
    # per-response loop
    yl = 'L:' + yn
    ycontrib = [c for c in ex.contribs if c.out[0] == yl]
    okp = False
    why = 'no loop copying a response column into %s' % yn
    lp = None
    for c in ycontrib:
        if len(c.loops) == 2:
            (v1, lo1, hi1, s1, n1), (v2, lo2, hi2, s2, n2) = c.loops
            want = cell('$1', A(v2), A(v1))
            if c.mode == '=' and c.term.same(want) and str(c.out[1][0]) == v2 and str(lo1) == '0' and str(lo2) == '0' and \
                    str(hi1) == '$1->col' and str(hi2) == '$1->row':
                okp, lp = True, n1
            else:
                why = 'response copy is %r' % c
    if okp:
        # inside that loop: initDVector(&b) before, MatrixAppendCol(model->b, b) after the solver call, and the call uses (D, y, b)
        body_calls = [(callee_name(x), x) for x in walk(lp) if x.get('kind') == 'CallExpr']
        names = [cn for cn, _ in body_calls]
        try:
            i_init = max(i for i, (cn, x) in enumerate(body_calls) if cn == 'initDVector' and bn in f.unit.text(call_args(x)[0]))
            i_ols = names.index('OrdinaryLeastSquares')
            i_app = names.index('MatrixAppendCol')
            app = call_args(body_calls[i_app][1])
            okp = i_init < i_ols < i_app and exprs.path_of(app[1], byname=True) == bn and (exprs.path_of(app[0], byname=True) or '').endswith('->b') \
                and any(x is olsnode for x in walk(lp))
            why = 'order init < solve < append = %s, appended vector %s' % ((i_init, i_ols, i_app), exprs.path_of(app[1], byname=True))
        except (ValueError, IndexError):
            okp, why = False, 'the response loop does not contain initDVector / OrdinaryLeastSquares / MatrixAppendCol in that order'
    if okp:
        chk.instance(R_p, '%s MLR: for j over the responses  y <- Y[:, j];  b fresh;  b = OLS(D, y);  model->b gets b as column j' % f.unit.where(lp))
    else:
        chk.instance(R_p, '%s MLR: %s' % (f.where, why), 'refuted')
        chk.violation(Finding('MLR.per-response', rel(f.file), f.name, 'per-response', f.where,
                              'MLR: the per-response solve is not  y <- Y[:, j]; fresh b; OrdinaryLeastSquares(D, y, b); append b  (%s)' % why))
    # the means used by R2: MatrixColAverage(my, model->ymean) before MLRPredictY
    calls = [(callee_name(x), x) for x in walk(f.body) if x.get('kind') == 'CallExpr']
    names = [cn for cn, _ in calls]
    mean_ok = False
    if 'MatrixColAverage' in names and 'MLRPredictY' in names and names.index('MatrixColAverage') < names.index('MLRPredictY'):
        a = call_args(calls[names.index('MatrixColAverage')][1])
        mean_ok = exprs.path_of(a[0], byname=True) == f.params[1]['name'] and (exprs.path_of(a[1], byname=True) or '').endswith('->ymean')
    # ---- MLRPredictY ------------------------------------------------------------------------------------------------
    gl = [n for n in walk(g.body) if n.get('kind') == 'ForStmt']
    tops = []
    for n in gl:
        if not any(n is not m and any(x is n for x in walk(m)) for m in gl):
            tops.append(n)
    try:
        ex2 = extract_loops(prog, g, tops)
    except Unsupported as e:
        chk.broke('MLRPredictY: loops not understood: %s' % e)
        return
    Pn, Rn = g.params[3]['name'], g.params[4]['name']
    pi = {p.get('name'): i for i, p in enumerate(g.params)}
    P_, Rs_, X_, Y_, B_ = '$%d' % pi[Pn], '$%d' % pi[Rn], '$0', '$1', '$2->b'
    M_ = '$2->ymean'
    ex2.equalities.append((A('%s->col' % B_), A('%s->col' % B_)))
    wanted = [
        dict(out=(P_, ['i', 'k']), mode='+=', term=cell(B_, Z, 'k'), dom={'k': (Z, A('%s->col' % B_)), 'i': (Z, A('$0->row'))},
             text='P[i][k] starts from the intercept b[0][k]'),
        dict(out=(P_, ['i', 'k']), mode='+=', term=cell(X_, 'i', 'j') * cell(B_, A('j') + 1, 'k'),
             dom={'k': (Z, A('%s->col' % B_)), 'i': (Z, A('$0->row')), 'j': (Z, A('$0->col'))}, text='P[i][k] += sum_j X[i][j] b[j+1][k]'),
    ]
    match_all(chk, 'MLR.predict', g, ex2, [c for c in ex2.contribs if c.out[0] == P_], wanted)
    wanted = [dict(out=(Rs_, ['i', 'j']), mode='=', term=cell(P_, 'i', 'j') - cell(Y_, 'i', 'j'),
                   dom={'j': (Z, A('$1->col')), 'i': (Z, A('$1->row'))}, text='residual[i][j] = P[i][j] - Y[i][j]')]
    match_all(chk, 'MLR.residual', g, ex2, [c for c in ex2.contribs if c.out[0] == Rs_], wanted)
    # R2 / SDEC: appended expressions over sums
    r2n, sdn = '$%d' % pi[g.params[5]['name']], '$%d' % pi[g.params[6]['name']]
    sums = getattr(ex2, 'sums', {})

    def sum_is(key, term):
        lst = sums.get(key, [])
        if len(lst) != 1:
            return False
        t_, lp_, nd_ = lst[0]
        if len(lp_) != 1 or str(lp_[0][1]) != '0' or str(lp_[0][2]) != '$1->row' or lp_[0][3] != 1:
            return False
        iv = lp_[0][0]
        return t_.same(term(A(iv)))
    good = {'r2': False, 'sdec': False}
    detail = {}
    for c in ex2.contribs:
        if c.mode != 'append' or c.out[0] not in (r2n, sdn):
            continue
        jv = c.loops[-1][0] if c.loops else None
        keys = sorted(a_ for a_ in c.term.atoms() if a_.startswith('SUM'))
        rss_t = lambda i_: (cell(Y_, i_, A(jv)) - cell(P_, i_, A(jv))) * (cell(Y_, i_, A(jv)) - cell(P_, i_, A(jv)))
        tss_t = lambda i_: (cell(Y_, i_, A(jv)) - cell(M_, A(jv))) * (cell(Y_, i_, A(jv)) - cell(M_, A(jv)))
        rss_k = [k_ for k_ in keys if sum_is(k_, rss_t)]
        tss_k = [k_ for k_ in keys if sum_is(k_, tss_t)]
        if c.out[0] == r2n:
            if rss_k and tss_k and c.wrap is None and c.term.same(Rat(ONE) - Rat(A(rss_k[0])) / Rat(A(tss_k[0]))):
                good['r2'] = c
            detail['r2'] = '%r with sums %s' % (c.term, {k_: [repr(x[0]) for x in sums.get(k_, [])] for k_ in keys})
        else:
            if rss_k and c.wrap == 'sqrt' and c.term.same(Rat(A(rss_k[0])) / Rat(A('$1->row'))):
                good['sdec'] = c
            detail['sdec'] = '%s(%r) with sums %s' % (c.wrap, c.term, {k_: [repr(x[0]) for x in sums.get(k_, [])] for k_ in keys})
    for key, text in (('r2', 'R2_j = 1 - sum_i (Y - P)^2 / sum_i (Y - mean_j)^2, both sums accumulated term by term in that centred form (a one-pass '
                              'sum y^2 - n mean^2 cancels for large offsets and lets R2 leave [0,1])'), ('sdec', 'SDEC_j = sqrt(sum_i (Y - P)^2 / rows)')):
        if good[key]:
            chk.instance(R_s, '%s MLRPredictY: %s' % (g.unit.where(good[key].node), text))
        else:
            chk.instance(R_s, '%s MLRPredictY: %s not recognised (%s)' % (g.where, text, detail.get(key, 'no append found')), 'refuted')
            chk.violation(Finding('MLR.r2-sdec', rel(g.file), g.name, key, g.where,
                                  'MLRPredictY does not report %s; found %s' % (text, detail.get(key, 'no value appended to that output'))))
    if mean_ok:
        chk.instance(R_s, '%s MLR: the means used by R2 are MatrixColAverage(Y) stored in model->ymean before the statistics are computed' % f.where)
    else:
        chk.instance(R_s, '%s MLR: model->ymean is not MatrixColAverage(Y) taken before MLRPredictY' % f.where, 'refuted')
        chk.violation(Finding('MLR.r2-sdec', rel(f.file), f.name, 'ymean', f.where,
                              'MLR does not fill model->ymean with MatrixColAverage(my) before MLRPredictY computes TSS about it'))
