"""C01 (PCA is an exact orthogonal decomposition): the structural / exact-arithmetic part, with the free vector algebra of E18 (lsv/plscheck.py).

Nothing is executed.  On every path that leaves the NIPALS iteration of PCA():

  PCA.component     the loading p that is kept has unit length (p'p = 1 in the algebra), the score that is kept is t = E p for that very p,
                    scores[:, pc] = t and loadings[:, pc] = p (whole vectors), and E is deflated by exactly t p'  -- hence E_new p = 0: the residual is
                    orthogonal to the loading, later loadings (taken from the row space of E_new) are orthogonal to it, and X = T P' + E holds by
                    construction;  eval[pc] is the squared norm of a score iterate of this component (the last or the one before it)
  PCA.reset         the loading accumulator is zero when a new component starts (the product kernel adds into it), so nothing of an earlier
                    loading leaks into a later one
  PCA.variance      ss = sum of the squares of every cell of the preprocessed matrix, taken before the first deflation; varexp[i] = eval[i]/ss*100
  PCA.blocks        PCA() centres/scales into model->colaverage / colscaling and PCAScorePredictor applies exactly those (option -1)
  PCA.score-predictor   for every component i < npc: p = loadings[:, i], t = E p (/ p'p) from a zeroed t, pscores[:, i] = t, E <- E - t p'
  PCA.back-transform    PCAIndVarPredictor: x[i][j] = (sum_{pc < npc} t[i][pc] p[j][pc]) * scale[j] + mean[j]  (scale first, then shift)

Not decided: orthogonality / reconstruction / the 100 % sum as floating-point statements, the ordering of the explained variances, convergence."""
from . import frontend as fe
from .frontend import kids, strip, walk, callee_name, call_args
from .sym import Poly
from .spline import Rat
from .kerneldef import Extractor, Unsupported
from .report import Finding
from .plscheck import (Tail, NotUnderstood, report_partial, report_thresholds, clamps, exec_paths, vdot, vsame, msame, vshow, mshow, vscale, expand, ONE, ZERO, N, rel, settled)


def show_terms(terms):
    """readable form of the accumulated terms of a scalar: [(term, loops, node)]"""
    out = []
    for t in terms or []:
        term, lps = t[0], t[1]
        out.append('sum over %s of (%s)' % (', '.join('%s in [%s, %s)' % (str(l[0]).lstrip('@'), l[1], l[2]) for l in lps) or 'no loop', term))
    return ' + '.join(out) or 'nothing'


def _alloc_sizes(f, tl):
    for n in walk(f.body):
        if n.get('kind') == 'CallExpr' and callee_name(n) == 'NewDVector' and len(call_args(n)) == 2:
            try:
                tl.same_size.setdefault(tl.nm(call_args(n)[0]), set()).add(f.unit.text(call_args(n)[1]).replace(' ', ''))
            except NotUnderstood:
                pass


def _parent_block(root, node):
    for n in walk(root):
        if n.get('kind') == 'CompoundStmt' and any(strip(c) is node or c is node for c in kids(n)):
            return n
    return None


def component(chk, prog):
    R = chk.rule('PCA.component', 'when the NIPALS iteration of PCA() stops: p\'p = 1 for the loading kept, t = E p for that p, both stored whole in column pc, '
                 'E deflated by exactly t p\', eval[pc] = squared norm of a score iterate of this component (exact arithmetic over a free vector algebra)')
    Rr = chk.rule('PCA.reset', 'the loading accumulator is zero when a new component starts (MT_DVectorMatrixDotProduct adds into its output)')
    f = prog.funcs.get('PCA')
    if f is None or f.body is None:
        chk.broke('PCA not found')
        return
    loops = [n for n in walk(f.body) if n.get('kind') in ('WhileStmt', 'DoStmt') and
             any(m.get('kind') == 'CallExpr' and callee_name(m) in ('MT_MatrixDVectorDotProduct', 'MatrixDVectorDotProduct') for m in walk(n))]
    if len(loops) != 1:
        chk.broke('PCA: the NIPALS iteration was not found as a single while loop (%d candidates)' % len(loops))
        return
    loop = loops[0]
    tl = Tail(prog, f)
    _alloc_sizes(f, tl)
    tl.ignore_out = lambda arr: 'dmodx' in arr
    # roles from the two product kernels:  t = E p  and  p += E' t
    fw = [m for m in walk(loop) if m.get('kind') == 'CallExpr' and callee_name(m) in ('MT_MatrixDVectorDotProduct', 'MatrixDVectorDotProduct')]
    bw = [m for m in walk(loop) if m.get('kind') == 'CallExpr' and callee_name(m) in ('MT_DVectorMatrixDotProduct', 'DVectorMatrixDotProduct')]
    if len(fw) != 1 or len(bw) != 1:
        chk.broke('PCA: expected one E p and one E\'t product inside the iteration, found %d and %d' % (len(fw), len(bw)))
        return
    try:
        En, pn, tn = (tl.nm(x) for x in call_args(fw[0]))
        En2, tn2, pn2 = (tl.nm(x) for x in call_args(bw[0]))
    except NotUnderstood as e:
        chk.broke('PCA: %s' % e)
        return
    if (En, pn, tn) != (En2, pn2, tn2):
        chk.instance(R, '%s PCA: the two products of the iteration do not work on the same matrix / loading / score: (%s, %s, %s) and (%s, %s, %s)' %
                     (f.unit.where(loop), En, pn, tn, En2, pn2, tn2), 'refuted')
        chk.violation(Finding('PCA.component', rel(f.file), f.name, 'roles', f.unit.where(loop),
                              'PCA: the projection t = E p uses (%s, %s, %s) but the loading update p = E\'t uses (%s, %s, %s)' % (En, pn, tn, En2, pn2, tn2)))
        return
    tl.mat[En] = {('M', En): ONE}
    tl.vec[tn] = {tn: ONE}
    tl.vec[pn] = {pn: ONE}
    # every other vector the loop mentions is an opaque previous value
    for m in walk(loop):
        if m.get('kind') == 'CallExpr' and callee_name(m) in ('DVectorCopy', 'calcConvergence'):
            for a in call_args(m):
                try:
                    tl.vec.setdefault(tl.nm(a), {tl.nm(a): ONE})
                except NotUnderstood:
                    pass
    try:
        live, exits = exec_paths(tl.clone(), [kids(loop)[-1]])
    except NotUnderstood as e:
        chk.broke('PCA: the iteration is not understood: %s' % e)
        return
    if not exits:
        chk.broke('PCA: no path leaves the iteration through a break')
        return
    E0 = {('M', En): ONE}
    leaks = False
    for ex_ in exits:
        path = ' && '.join(getattr(ex_, 'path', []))[:140]
        pv, tv = ex_.vec[pn], ex_.vec[tn]
        probs = []
        if not vdot(pv, pv).same(ONE):
            if getattr(ex_, 'imprecise', False):
                chk.broke('PCA: p\'p = 1 cannot be decided on path %s' % path)
            else:
                probs.append(('unit', 'the loading that is kept has p\'p = %r, not 1 (p = %s)' % (vdot(pv, pv), vshow(pv)[:160])))
        t_want = ex_.prod(E0, pv, False)
        if not vsame(tv, t_want):
            if settled(ex_, tv, t_want):
                probs.append(('score', 'the score that is kept is %s, not E p = %s for the loading p that is kept' % (vshow(tv)[:200], vshow(t_want)[:200])))
            else:
                chk.broke('PCA: t = E p cannot be decided on path %s' % path)
        for field, src, val in (('scores', tn, tv), ('loadings', pn, pv)):
            cs = [c for c in ex_.colstores if c[0].endswith('->' + field)]
            if len(cs) != 1:
                probs.append(('store:' + field, 'model->%s receives %d column stores on the way out, expected one' % (field, len(cs))))
                continue
            arr, col, s_, v_, extent, node = cs[0]
            okext = extent == '%s->size' % s_ or extent in ex_.same_size.get(s_, ())
            if s_ != src or not vsame(v_, val) or not okext or col.startswith('@'):
                probs.append(('store:' + field, 'model->%s[:, %s] is filled from %s over [0, %s) with the value %s, not with the whole final %s' %
                              (field, col, s_, extent, vshow(v_)[:120], 'score' if field == 'scores' else 'loading')))
        want_E = dict(E0)
        for ba, ca in tv.items():
            for bb, cb in pv.items():
                want_E[('outer', ba, bb)] = ZERO - ca * cb
        if not msame(ex_.mat[En], want_E):
            probs.append(('deflation', 'E is left as %s, not E - t p\' = %s with the score and loading that are kept' % (mshow(ex_.mat[En])[:200], mshow(want_E)[:200])))
        ev = [c for c in ex_.cellstores if c[0].split('->')[0] not in ('model',)]
        okev = [c for c in ev if c[2].same(vdot(tv, tv)) or c[2].same(vdot({tn: ONE}, {tn: ONE}))]
        if len(ev) != 1 or len(okev) != 1:
            probs.append(('eigenvalue', 'the eigenvalue stored is %s, not the squared norm t\'t of the last (or last but one) score' %
                          ('; '.join('%s%s = %r' % (c[0], c[1], c[2]) for c in ev)[:200] or 'missing')))
        report_partial(chk, R, f, ex_, 'when the iteration stops')
        report_thresholds(chk, R, f, ex_)
        if not probs:
            chk.instance(R, '%s PCA (path %s): p\'p = 1, t = E p, scores[:, pc] = t, loadings[:, pc] = p, E -= t p\', %s%s = t\'t' %
                         (f.unit.where(loop), path, okev[0][0], okev[0][1]))
        for key, msg in probs:
            chk.instance(R, '%s PCA (path %s): %s' % (f.unit.where(loop), path, msg), 'refuted')
            chk.violation(Finding('PCA.component', rel(f.file), f.name, key, f.unit.where(loop), 'PCA, when the iteration stops (path %s): %s' % (path, msg)))
        if pn in expand(pv, ex_.defs):
            leaks = True                                   # the loading kept still contains the value p had when the iteration started
    # the start value of the loading accumulator
    if leaks:
        blk = _parent_block(f.body, loop)
        after = []
        if blk is not None:
            ks = [strip(c) for c in kids(blk)]
            after = ks[[i for i, c in enumerate(ks) if c is loop][0] + 1:]
        st = exits[0].clone()
        try:
            for s in after:
                st.stmt(s)
            zero = st.vec.get(pn) == {}
        except NotUnderstood as e:
            chk.broke('PCA: the statements after the iteration are not understood: %s' % e)
            return
        alloc = any(n.get('kind') == 'CallExpr' and callee_name(n) == 'NewDVector' and f.unit.text(call_args(n)[0]).replace(' ', '').lstrip('&') == pn
                    for n in walk(f.body))
        if zero and alloc:
            chk.instance(Rr, '%s PCA: %s adds into its previous value inside the iteration; it is allocated zeroed and set to zero again after each component' %
                         (f.unit.where(loop), pn))
        else:
            chk.instance(Rr, '%s PCA: %s adds into its previous value and is not zero when the next component starts' % (f.unit.where(loop), pn), 'refuted')
            chk.violation(Finding('PCA.reset', rel(f.file), f.name, 'reset:' + pn, f.unit.where(loop),
                                  'PCA: the loading vector %s accumulates (E\'t is added to it) and is not reset to zero between components: the loading of the '
                                  'previous component leaks into the next one, which is then not orthogonal to it' % pn))
    else:
        chk.instance(Rr, '%s PCA: the loading kept does not depend on the value %s had when the iteration started' % (f.unit.where(loop), pn))
    return En


def power_step(chk, prog):
    """C02: with the invariant every pass re-establishes (t = E p), one pass maps the loading p to a unit vector proportional to  a p + b E'E p  with
    b != 0: the fixed points of the iteration are exactly the eigenvectors of the cross-product matrix, and the score norm t't at a fixed point is the
    eigenvalue (p'E'Ep with p'p = 1)"""
    R = chk.rule('PCA.power-step', 'starting a pass from a unit loading p with t = E p, the loading the pass leaves is unit(E\'E p) -- a step of the power iteration on '
                 'E\'E, homogeneous in E, so that neither the fixed points nor the speed depend on the units of the data -- and the score it leaves is E times that loading')
    f = prog.funcs.get('PCA')
    if f is None or f.body is None:
        chk.broke('PCA not found')
        return
    loops = [n for n in walk(f.body) if n.get('kind') in ('WhileStmt', 'DoStmt') and
             any(m.get('kind') == 'CallExpr' and callee_name(m) in ('MT_MatrixDVectorDotProduct', 'MatrixDVectorDotProduct') for m in walk(n))]
    if len(loops) != 1:
        chk.broke('PCA: the NIPALS iteration was not found as a single while loop')
        return
    loop = loops[0]
    tl = Tail(prog, f)
    _alloc_sizes(f, tl)
    tl.ignore_out = lambda arr: 'dmodx' in arr
    fw = [m for m in walk(loop) if m.get('kind') == 'CallExpr' and callee_name(m) in ('MT_MatrixDVectorDotProduct', 'MatrixDVectorDotProduct')]
    try:
        En, pn, tn = (tl.nm(x) for x in call_args(fw[0]))
    except NotUnderstood as e:
        chk.broke('PCA: %s' % e)
        return
    P0 = 'unit(p0)'                                    # a unit base vector (N() is 1 for names of this form)
    tl.mat[En] = {('M', En): ONE}
    tl.vec[pn] = {P0: ONE}
    tl.vec[tn] = tl.prod(tl.mat[En], {P0: ONE}, False)
    for m in walk(loop):
        if m.get('kind') == 'CallExpr' and callee_name(m) in ('DVectorCopy', 'calcConvergence'):
            for a in call_args(m):
                try:
                    tl.vec.setdefault(tl.nm(a), {'?' + tl.nm(a): ONE})
                except NotUnderstood:
                    pass
    try:
        live, exits = exec_paths(tl.clone(), [kids(loop)[-1]])
    except NotUnderstood as e:
        chk.broke('PCA: the iteration is not understood: %s' % e)
        return
    Ep = '%s*%s' % (En, P0)
    EEp = "%s'*%s" % (En, Ep)
    for st in live + exits:
        pv = expand(st.vec[pn], st.defs)
        tv = st.vec[tn]
        where = f.unit.where(loop)
        bases = set(pv)
        ok = bases == {EEp} and not pv[EEp].is_zero()
        mixed = bases == {P0, EEp} and not pv[EEp].is_zero()
        if ok and vsame(tv, st.prod({('M', En): ONE}, st.vec[pn], False)) and vdot(st.vec[pn], st.vec[pn]).same(ONE):
            chk.instance(R, '%s PCA: p <- unit(E\'E p), t <- E p' % where)
        elif mixed:
            chk.instance(R, '%s PCA: from t = E p the pass leaves p proportional to %s' % (where, vshow(pv)[:200]), 'refuted')
            chk.violation(Finding('PCA.power-step', rel(f.file), f.name, 'shifted-power-step', where,
                                  'PCA: the loading vector is not reset before the accumulating product E\'t, so one pass maps p to unit(p + E\'E p / 1) -- a step of '
                                  'the power iteration on I + E\'E, not on E\'E. Its fixed points are still eigenvectors, but its contraction rate (1 + l2)/(1 + l1) '
                                  'depends on the units of the data: for small-magnitude, centred-only data the iterate hardly moves, the relative convergence test '
                                  'fires at once and the loading returned is not the principal axis to the accuracy of the documented criterion'))
        else:
            chk.instance(R, '%s PCA: from t = E p the pass leaves p = %s, t = %s' % (where, vshow(pv)[:160], vshow(tv)[:120]), 'refuted')
            chk.violation(Finding('PCA.power-step', rel(f.file), f.name, 'power-step', where,
                                  'PCA: started from a unit loading p with t = E p, one pass leaves the loading %s (score %s): not a unit vector a p + b E\'E p with '
                                  'b != 0 followed by t = E p, so the fixed points of the iteration are not the eigenvectors of E\'E' % (vshow(pv)[:200], vshow(tv)[:120])))
        break


def variance(chk, prog, En):
    R = chk.rule('PCA.variance', 'ss is the sum of the squares of every cell of the preprocessed matrix, taken before any deflation; '
                 'varexp[i] = eval[i] / ss * 100 for every component')
    f = prog.funcs.get('PCA')
    g = prog.funcs.get('calcVarExpressed')
    if f is None or g is None or g.body is None:
        chk.broke('PCA / calcVarExpressed not found')
        return
    A = Poly.atom
    cv = [n for n in walk(f.body) if n.get('kind') == 'CallExpr' and callee_name(n) == 'calcVarExpressed']
    if len(cv) != 1:
        chk.broke('PCA: %d calls of calcVarExpressed' % len(cv))
        return
    ssn = f.unit.text(call_args(cv[0])[0]).strip()
    # the statements of the function body up to the loop over components: reset + accumulation of ss
    top = [strip(s) for s in kids(f.body)]
    ex = Extractor(prog, f)
    ex.locals_ok = True
    ex.acc = {}
    seen_loop = None
    try:
        for s in top:
            if s.get('kind') == 'BinaryOperator' and s.get('opcode') == '=' and f.unit.text(kids(s)[0]).strip() == ssn:
                ex.stmt(s, [], {}, {})
            if s.get('kind') == 'ForStmt' and any(m.get('kind') in ('CompoundAssignOperator', 'BinaryOperator') and
                                                  f.unit.text(kids(m)[0]).strip() == ssn for m in walk(s) if kids(m)):
                tgt = s
                if any(m.get('kind') in ('WhileStmt', 'DoStmt') for m in walk(s)):
                    # the accumulation sits inside the loop over the components: take the innermost loop nest that contains it and no iteration
                    best = None
                    for lp in walk(s):
                        if lp.get('kind') == 'ForStmt' and lp is not s and not any(m.get('kind') in ('WhileStmt', 'DoStmt') for m in walk(lp)) and \
                                any(m.get('kind') == 'CompoundAssignOperator' and f.unit.text(kids(m)[0]).strip() == ssn for m in walk(lp)):
                            best = best or lp
                    tgt = best or s
                ex.stmt(tgt, [], {}, {})
                seen_loop = s if tgt is s else tgt
    except Unsupported as e:
        chk.broke('PCA: the accumulation of %s is not understood: %s' % (ssn, e))
        return
    terms = ex.acc.get(ssn)
    if not terms or seen_loop is None:
        chk.broke('PCA: no accumulation of %s was found' % ssn)
        return
    ok = len(terms) == 1
    if ok:
        term, lps, node = terms[0]
        lv = {l[0]: l for l in lps}
        ok = len(lps) == 2 and sorted(str(l[2]) for l in lps) == sorted(['%s->row' % En, '%s->col' % En]) and all(str(l[1]) == '0' and l[3] == 1 for l in lps)
        if ok:
            iv = [l[0] for l in lps if str(l[2]) == '%s->row' % En][0]
            jv = [l[0] for l in lps if str(l[2]) == '%s->col' % En][0]
            c_ = A('L:%s[%s][%s]' % (En, iv, jv))
            ok = term.same(Rat(c_ * c_))
    # before the first deflation: the accumulation precedes the loop over components in the body
    pos = {id(s): i for i, s in enumerate(top)}
    comp = [s for s in top if s.get('kind') == 'ForStmt' and any(m.get('kind') in ('WhileStmt',) for m in walk(s))]
    pre = [n for n in walk(f.body) if n.get('kind') == 'CallExpr' and callee_name(n) == 'MatrixPreprocess']
    order_ok = bool(comp) and id(seen_loop) in pos and pos[id(seen_loop)] < pos[id(comp[0])] and bool(pre) and \
        any(pre[0] is m for s in top[:pos[id(seen_loop)]] for m in walk(s))
    if ok and order_ok:
        chk.instance(R, '%s PCA: %s = sum_ij %s[i][j]^2 over every cell, after the preprocessing and before the first component' % (f.unit.where(seen_loop), ssn, En))
    else:
        chk.instance(R, '%s PCA: %s is %s%s' % (f.unit.where(seen_loop), ssn, show_terms(terms), '' if order_ok else ' (not between the preprocessing and the first component)'), 'refuted')
        chk.violation(Finding('PCA.variance', rel(f.file), f.name, 'ss', f.unit.where(seen_loop),
                              'PCA: the total sum of squares %s is accumulated as %s%s; expected the square of every cell of the preprocessed matrix, before any deflation' %
                              (ssn, show_terms(terms), '' if order_ok else ', at the wrong place')))
    # calcVarExpressed
    gp = [p['name'] for p in g.params]
    apps = [n for n in walk(g.body) if n.get('kind') == 'CallExpr' and callee_name(n) == 'DVectorAppend']
    loops = [n for n in walk(g.body) if n.get('kind') == 'ForStmt']
    if len(loops) != 1 or not apps:
        chk.broke('calcVarExpressed: expected one loop with DVectorAppend calls')
        return
    lp = loops[0]
    hdr = g.unit.text(lp).split(')')[0].replace(' ', '')
    ex2 = Extractor(prog, g)
    ex2.locals_ok = True
    ex2.acc = {}
    ex2.opaque_scalars = True
    # the loop variable
    var = None
    for n in walk(kids(lp)[0]) if kids(lp) else []:
        if n.get('kind') == 'VarDecl':
            var = n.get('name')
        if n.get('kind') == 'BinaryOperator' and n.get('opcode') == '=' and strip(kids(n)[0]).get('kind') == 'DeclRefExpr':
            var = var or strip(kids(n)[0])['referencedDecl'].get('name')
    rng_ok = var is not None and ('%s=0;%s<%s->size;' % (var, var, gp[1])) in g.unit.text(lp).replace(' ', '').replace('size_t', '')
    want = Rat(A('$1[%s]' % var) * 100, A('S:' + gp[0])) if var else None
    good = []
    for a in apps:
        if g.unit.text(call_args(a)[0]).strip() != gp[2]:
            continue
        try:
            val = ex2.rat(call_args(a)[1], {var: A(var)} if var else {}, {})
        except Unsupported as e:
            chk.broke('calcVarExpressed: value %s not understood: %s' % (g.unit.text(call_args(a)[1])[:40], e))
            return
        if want is not None and val.same(want):
            good.append(a)
        elif not val.is_zero():
            chk.instance(R, '%s calcVarExpressed appends %r' % (g.unit.where(a), val), 'refuted')
            chk.violation(Finding('PCA.variance', rel(g.file), g.name, 'varexp', g.unit.where(a),
                                  'calcVarExpressed appends %r, not eval[i] / ss * 100' % val))
    if good and rng_ok:
        chk.instance(R, '%s calcVarExpressed: varexp[i] = eval[i] / ss * 100 for i in [0, size(eval))' % g.unit.where(good[0]))
    elif not good:
        chk.instance(R, '%s calcVarExpressed never appends eval[i] / ss * 100' % g.where, 'refuted')
        chk.violation(Finding('PCA.variance', rel(g.file), g.name, 'varexp-missing', g.where, 'calcVarExpressed never appends eval[i] / ss * 100'))
    else:
        chk.instance(R, '%s calcVarExpressed does not visit every eigenvalue: %s' % (g.unit.where(lp), hdr), 'refuted')
        chk.violation(Finding('PCA.variance', rel(g.file), g.name, 'varexp-range', g.unit.where(lp),
                              'calcVarExpressed: the loop `%s` does not run over every eigenvalue from 0' % hdr))


def blocks(chk, prog):
    R = chk.rule('PCA.blocks', 'PCA() centres/scales the input into model->colaverage / model->colscaling and iterates on that matrix; '
                 'PCAScorePredictor applies exactly those statistics (option -1)')
    f, g = prog.funcs.get('PCA'), prog.funcs.get('PCAScorePredictor')
    if f is None or g is None:
        chk.broke('PCA / PCAScorePredictor not found')
        return
    probs = []
    for fn, opt in ((f, None), (g, '-1')):
        pre = [n for n in walk(fn.body) if n.get('kind') == 'CallExpr' and callee_name(n) == 'MatrixPreprocess']
        pn = [p['name'] for p in fn.params]
        if len(pre) != 1:
            chk.broke('%s: %d MatrixPreprocess calls' % (fn.name, len(pre)))
            return
        a = [fn.unit.text(x).replace(' ', '') for x in call_args(pre[0])]
        model = 'model'
        want_opt = pn[1] if opt is None else opt
        if a[0] != pn[0] or a[1] != want_opt or a[2] != '%s->colaverage' % model or a[3] != '%s->colscaling' % model:
            probs.append((fn, pre[0], 'MatrixPreprocess(%s) instead of (%s, %s, model->colaverage, model->colscaling, ...)' % (', '.join(a), pn[0], want_opt)))
        else:
            # the matrix the products work on is the preprocessed one
            prods = [n for n in walk(fn.body) if n.get('kind') == 'CallExpr' and callee_name(n) in ('MT_MatrixDVectorDotProduct', 'MatrixDVectorDotProduct')]
            if not prods or any(fn.unit.text(call_args(n)[0]).strip() != a[4] for n in prods):
                probs.append((fn, pre[0], 'the projection does not work on the preprocessed matrix %s' % a[4]))
            else:
                chk.instance(R, '%s %s: MatrixPreprocess(%s), projection on %s' % (fn.unit.where(pre[0]), fn.name, ', '.join(a), a[4]))
    for fn, node, msg in probs:
        chk.instance(R, '%s %s: %s' % (fn.unit.where(node), fn.name, msg), 'refuted')
        chk.violation(Finding('PCA.blocks', rel(fn.file), fn.name, 'preprocess', fn.unit.where(node), '%s: %s' % (fn.name, msg)))


def score_predictor(chk, prog):
    R = chk.rule('PCA.score-predictor', 'PCAScorePredictor, for every component i < npc: p = loadings[:, i]; t = E p (/ p\'p) accumulated from zero; pscores[:, i] = t; '
                 'E <- E - t p\'; so projecting the training matrix walks through the same deflations as the fit')
    f = prog.funcs.get('PCAScorePredictor')
    if f is None or f.body is None:
        chk.broke('PCAScorePredictor not found')
        return
    outer = None
    for n in walk(f.body):
        if n.get('kind') == 'ForStmt' and any(m.get('kind') == 'CallExpr' and callee_name(m) in ('MT_MatrixDVectorDotProduct', 'MatrixDVectorDotProduct') for m in walk(n)):
            outer = n
            break
    if outer is None:
        chk.broke('PCAScorePredictor: loop over the components not found')
        return
    txt = f.unit.text(outer).split(')')[0].replace(' ', '')
    tl = Tail(prog, f)
    _alloc_sizes(f, tl)
    pc = [m for m in walk(outer) if m.get('kind') == 'CallExpr' and callee_name(m) in ('MT_MatrixDVectorDotProduct', 'MatrixDVectorDotProduct')][0]
    try:
        En, pn, tn = (tl.nm(x) for x in call_args(pc))
    except NotUnderstood as e:
        chk.broke('PCAScorePredictor: %s' % e)
        return
    pnames = [p['name'] for p in f.params]
    # loop header: i from 0 to npc
    var = None
    for n in walk(kids(outer)[0]):
        if n.get('kind') == 'BinaryOperator' and n.get('opcode') == '=' and strip(kids(n)[0]).get('kind') == 'DeclRefExpr':
            var = strip(kids(n)[0])['referencedDecl'].get('name')
    hdr_ok = var is not None and txt.startswith('for(%s=0;%s<%s;' % (var, var, pnames[2]))
    tl.mat[En] = {('M', En): ONE}
    tl.vec[tn] = {}                               # zero at the loop head: checked to be inductive below
    tl.vec[pn] = {'?%s' % pn: ONE}
    try:
        live, exits = exec_paths(tl, [kids(outer)[-1]])
    except NotUnderstood as e:
        chk.broke('PCAScorePredictor: the loop body is not understood: %s' % e)
        return
    if len(live) != 1 or exits:
        chk.broke('PCAScorePredictor: the loop body has %d paths and %d breaks' % (len(live), len(exits)))
        return
    st = live[0]
    probs = []
    if not hdr_ok:
        probs.append(('range', 'the components run over `%s`, not from 0 to npc' % txt))
    cs = [c for c in st.colstores]
    B = None
    if len(cs) != 1 or cs[0][0] != '$3' or cs[0][1] != var or cs[0][2] != tn:
        probs.append(('store', 'the projected score is not stored as column %s of the result: %s' % (var, [(c[0], c[1], c[2]) for c in cs])))
    else:
        val = cs[0][3]
        bases = list(val)
        if len(bases) == 1 and bases[0].startswith('%s*' % En) and '->loadings[:,%s]' % var in bases[0]:
            B = bases[0][len(En) + 1:]
            c = val[bases[0]]
            if not (c.same(ONE) or c.same(ONE / (N(B) * N(B)))):
                probs.append(('score', 'the projected score is %s, not E p (or E p / p\'p) for the stored loading p' % vshow(val)[:200]))
            okext = cs[0][4] == '%s->size' % tn or cs[0][4] in st.same_size.get(tn, ())
            if not okext:
                probs.append(('store-extent', 'only the first %s cells of the score are stored' % cs[0][4]))
            want_E = {('M', En): ONE, ('outer', bases[0], B): ZERO - c}
            if not msame(st.mat[En], want_E):
                probs.append(('deflation', 'E is left as %s, not E - t p\' = %s' % (mshow(st.mat[En])[:200], mshow(want_E)[:200])))
        else:
            probs.append(('score', 'the projected score is %s, not E times column %s of the stored loadings' % (vshow(val)[:200], var)))
    report_partial(chk, R, f, st, 'one component')
    if st.vec.get(tn) != {}:
        probs.append(('reset', 'the score vector is %s at the end of the body: the product kernel adds into it, so the next component starts from it' % vshow(st.vec.get(tn, {}))[:160]))
    if not probs:
        chk.instance(R, '%s PCAScorePredictor: p = loadings[:, %s]; t = E p / p\'p from zero; pscores[:, %s] = t; E -= t p\'; t reset' % (f.unit.where(outer), var, var))
    for key, msg in probs:
        chk.instance(R, '%s PCAScorePredictor: %s' % (f.unit.where(outer), msg), 'refuted')
        chk.violation(Finding('PCA.score-predictor', rel(f.file), f.name, key, f.unit.where(outer), 'PCAScorePredictor: ' + msg))


def back_transform(chk, prog):
    R = chk.rule('PCA.back-transform', 'PCAIndVarPredictor: x[i][j] = (sum over pc < npc of t[i][pc]*p[j][pc]) * colscaling[j] + colaverage[j]; '
                 'the scaling applied before the shift, both indexed by the column, on every branch')
    f = prog.funcs.get('PCAIndVarPredictor')
    if f is None or f.body is None:
        chk.broke('PCAIndVarPredictor not found')
        return
    A = Poly.atom
    found = []

    def collect(n, guards):
        for c in kids(n):
            c0 = strip(c)
            k = c0.get('kind')
            if k == 'ForStmt':
                found.append((c0, list(guards)))
            elif k == 'CompoundStmt':
                collect(c0, guards)
            elif k == 'IfStmt':
                ks = kids(c0)
                ct = f.unit.text(ks[0]).replace(' ', '')
                collect({'kind': 'CompoundStmt', 'inner': [ks[1]]}, guards + [ct])
                if len(ks) > 2:
                    collect({'kind': 'CompoundStmt', 'inner': [ks[2]]}, guards + ['!' + ct])
    collect(f.body, [])
    groups = []
    try:
        for lp, guards in found:
            ex = Extractor(prog, f)
            ex.locals_ok = True
            ex.acc = {}
            ex.stmt(lp, [], {}, {})
            groups.append((guards, ex.contribs, lp))
    except Unsupported as e:
        chk.broke('PCAIndVarPredictor: loops not understood: %s' % e)
        return
    probs = []
    sums = [(g, cs, lp) for g, cs, lp in groups if not g]
    if len(sums) != 1 or len(sums[0][1]) != 1:
        chk.broke('PCAIndVarPredictor: expected one unconditional accumulation loop')
        return
    c1 = sums[0][1][0]
    i1, j1 = [str(x) for x in c1.out[1]]
    lv1 = {l[0]: l for l in c1.loops}
    pcs = [v for v in lv1 if v not in (i1, j1)]
    if c1.out[0] != '$5' or c1.mode != '+=' or len(pcs) != 1 or not c1.term.same(Rat(A('$0[%s][%s]' % (i1, pcs[0])) * A('$1[%s][%s]' % (j1, pcs[0])))):
        probs.append(('sum', c1, 'the accumulated term is %r, not t[i][pc]*p[j][pc]' % c1.term))
    else:
        l = lv1[pcs[0]]
        if str(l[1]) != '0' or l[3] != 1 or str(l[2]) != '$4':
            probs.append(('sum-range', c1, 'the sum runs over pc in [%s, %s), not over the first npc components' % (l[1], l[2])))
        if str(lv1[i1][2]) != '$0->row' or str(lv1[j1][2]) != '$1->row' or str(lv1[i1][1]) != '0' or str(lv1[j1][1]) != '0':
            probs.append(('sum-cells', c1, 'the product is not formed for every object and every variable'))
    from .plscheck import zero_filled_first
    if not zero_filled_first(f, f.params[5]['name'], c1.node):
        probs.append(('start', c1, 'the result is not zero-filled (ResizeMatrix, unconditionally, before the loop) when the sum is accumulated into it: '
                      'an output that already has the right shape keeps its old content'))
    rest = [(g, cs, lp) for g, cs, lp in groups if g]

    def form(c, arr, mode):
        idx = [str(x) for x in c.out[1]]
        lv = {l[0]: l for l in c.loops}
        return c.out[0] == '$5' and len(idx) == 2 and c.mode == mode and c.term.same(Rat(A('%s[%s]' % (arr, idx[1])))) and \
            all(v in lv and str(lv[v][1]) == '0' for v in idx) and str(lv[idx[0]][2]) in ('$5->row', '$0->row') and str(lv[idx[1]][2]) in ('$5->col', '$1->row')
    seen_scaled = seen_plain = False
    for g, cs, lp in rest:
        gt = ' && '.join(g)
        scaled = 'colscaling->size>0' in gt and '!colscaling->size>0' not in gt
        if 'colaverage->size>0' not in gt:
            chk.broke('PCAIndVarPredictor: back-transform under a condition that is not understood: %s' % gt)
            return
        if scaled:
            seen_scaled = True
            if len(cs) == 2 and form(cs[0], '$3', '*=') and form(cs[1], '$2', '+='):
                continue
            if len(cs) == 2 and form(cs[0], '$2', '+=') and form(cs[1], '$3', '*='):
                probs.append(('order', cs[0], 'the mean is added before the scaling is undone: the result is (sum + mean[j]) * scale[j]'))
            else:
                probs.append(('scaled', cs[0] if cs else c1, 'with centring and scaling the back-transform is %r, not `*= colscaling[j]` then `+= colaverage[j]`' % (cs,)))
        else:
            seen_plain = True
            if not (len(cs) == 1 and form(cs[0], '$2', '+=')):
                probs.append(('centred', cs[0] if cs else c1, 'with centring only the back-transform is %r, not `+= colaverage[j]`' % (cs,)))
    if not seen_scaled:
        probs.append(('scaled-missing', c1, 'no branch undoes the scaling when one was recorded'))
    if not seen_plain:
        # a single branch that handles both is fine only if the scaled branch is unconditional on the scaling
        pass
    if not probs:
        chk.instance(R, '%s PCAIndVarPredictor: sum over pc in [0, npc) of t[i][pc]*p[j][pc] into the zero-filled result' % f.unit.where(c1.node))
        for g, cs, lp in rest:
            chk.instance(R, '%s PCAIndVarPredictor: under %s: %s' % (f.unit.where(lp), ' && '.join(g), ', then '.join('%s %r' % (c.mode, c.term) for c in cs)))
    for key, c, msg in probs:
        chk.instance(R, '%s PCAIndVarPredictor: %s' % (f.unit.where(c.node), msg), 'refuted')
        chk.violation(Finding('PCA.back-transform', rel(f.file), f.name, key, f.unit.where(c.node), 'PCAIndVarPredictor: ' + msg))


def run(chk, prog):
    clamps(chk, prog, 'PCA.clamp', ('PCA', 'PCAScorePredictor', 'PCAIndVarPredictor'))
    for r_ in ('PCA.component', 'PCA.reset'):
        chk.rule(r_, '')
    En = component(chk, prog)
    if En:
        variance(chk, prog, En)
    blocks(chk, prog)
    score_predictor(chk, prog)
    back_transform(chk, prog)
