"""Whole-program view over the loaded units: functions, call graph (direct calls by resolved
callee + address-taken functions), globals and who writes them, thread entries."""
from . import frontend as fe
from .frontend import kids, strip, walk, callee_name, call_args

NORETURN = {'abort', 'exit', 'pthread_exit', '_exit', '__assert_fail'}
ASSIGN_KINDS = ('BinaryOperator', 'CompoundAssignOperator')


def is_assign(n):
    return (n.get('kind') == 'CompoundAssignOperator' or
            (n.get('kind') == 'BinaryOperator' and n.get('opcode') == '='))


def is_incdec(n):
    return n.get('kind') == 'UnaryOperator' and n.get('opcode') in ('++', '--')


def lvalue_base(n):
    """Peel subscripts / member accesses / derefs down to the root DeclRefExpr (or None).
    Returns (root decl stub, through_pointer) where through_pointer says whether the peeled
    path dereferences a pointer (then the store goes to the pointee, not to the variable)."""
    through = False
    while True:
        n = strip(n)
        k = n.get('kind')
        if k == 'DeclRefExpr':
            return n['referencedDecl'], through
        if k == 'ArraySubscriptExpr':
            b = kids(n)[0]
            bt = fe.qual(strip(b, casts=False))
            if '[' not in bt:
                through = True
            n = b
        elif k == 'MemberExpr':
            if n.get('isArrow'):
                through = True
            n = kids(n)[0]
        elif k == 'UnaryOperator' and n.get('opcode') == '*':
            through = True
            n = kids(n)[0]
        elif k == 'UnaryOperator' and n.get('opcode') in ('&', '++', '--'):
            n = kids(n)[0]
        elif k in ('BinaryOperator',) and n.get('opcode') in ('+', '-'):
            # pointer arithmetic: follow the pointer operand
            a, b = kids(n)
            n = a if '*' in fe.qual(strip(a, casts=False)) else b
            through = True
        else:
            return None, through


class Func:
    def __init__(self, unit, decl):
        self.unit, self.decl, self.name = unit, decl, decl['name']
        self.body = fe.body_of(decl)
        self.params = fe.params_of(decl)
        self.calls = []        # (callee name, CallExpr)
        self.addr_taken = []   # (function name, node)
        self.static = decl.get('storageClass') == 'static'
        self.file = decl.get('_file')

    @property
    def where(self):
        return self.unit.where(self.decl)


class Program:
    def __init__(self, units):
        self.units = units
        self.funcs = {}        # name -> Func (external + static; static keyed 'unit:name' too)
        self.globals = {}      # name -> (unit, VarDecl)   file-scope and function-static variables
        for u in units.values():
            for name, d in u.funcs.items():
                f = Func(u, d)
                if f.static:
                    self.funcs[u.name + ':' + name] = f
                    self.funcs.setdefault(name, f)
                else:
                    self.funcs[name] = f
            for name, v in u.vars.items():
                if v.get('storageClass') == 'extern' and name in self.globals:
                    continue
                self.globals[name] = (u, v)
        self._gids = {}
        for u in units.values():
            for d in u.decls:
                if d.get('kind') == 'VarDecl':
                    self._gids[d['id']] = d['name']
            for name, fd in u.funcs.items():
                for n in walk(fd):
                    if n.get('kind') == 'VarDecl' and n.get('storageClass') == 'static':
                        key = '%s::%s' % (name, n['name'])
                        self.globals[key] = (u, n)
                        self._gids[n['id']] = key
        for f in set(self.funcs.values()):
            self._scan(f)

    def _scan(self, f):
        callee_nodes = set()
        for n in walk(f.body):
            if n.get('kind') == 'CallExpr':
                cn = callee_name(n)
                if cn:
                    f.calls.append((cn, n))
                    callee_nodes.add(id(strip(kids(n)[0])))
        for n in walk(f.body):
            if (n.get('kind') == 'DeclRefExpr' and n['referencedDecl'].get('kind') == 'FunctionDecl'
                    and id(n) not in callee_nodes):
                f.addr_taken.append((n['referencedDecl']['name'], n))

    def resolve(self, caller, name):
        if caller is not None:
            k = caller.unit.name + ':' + name
            if k in self.funcs:
                return self.funcs[k]
        return self.funcs.get(name)

    def all_funcs(self):
        seen = set()
        for f in self.funcs.values():
            if id(f) not in seen:
                seen.add(id(f))
                yield f

    def callees(self, f, with_addr=True):
        out = []
        for cn, node in f.calls:
            g = self.resolve(f, cn)
            if g:
                out.append((g, node))
        if with_addr:
            for cn, node in f.addr_taken:
                g = self.resolve(f, cn)
                if g:
                    out.append((g, node))
        return out

    def reach(self, roots, with_addr=True):
        """{Func: path from a root (list of Funcs)}"""
        paths = {}
        work = []
        for r in roots:
            f = r if isinstance(r, Func) else self.funcs.get(r)
            if f and f not in paths:
                paths[f] = [f]
                work.append(f)
        while work:
            f = work.pop(0)
            for g, _ in self.callees(f, with_addr):
                if g not in paths:
                    paths[g] = paths[f] + [g]
                    work.append(g)
        return paths

    # -- thread entries ------------------------------------------------------------
    def thread_creates(self):
        """[(Func containing the call, CallExpr, entry function name)]"""
        out = []
        for f in self.all_funcs():
            for cn, node in f.calls:
                if cn == 'pthread_create':
                    a = call_args(node)
                    ent = fe.ref_name(a[2]) if len(a) >= 3 else None
                    e = strip(a[2]) if len(a) >= 3 else {}
                    if e.get('kind') == 'UnaryOperator' and e.get('opcode') == '&':
                        ent = fe.ref_name(kids(e)[0])
                    out.append((f, node, ent))
        return out

    # -- globals -------------------------------------------------------------------
    def global_name(self, declstub):
        if declstub is None:
            return None
        if declstub.get('kind') != 'VarDecl':
            return None
        gid = declstub.get('id')
        if gid in self._gids:
            return self._gids[gid]
        return None

    def global_accesses(self, f):
        """[(global name, 'w'|'r'|'addr', node)] performed directly by f"""
        acc = []
        written = set()
        for n in walk(f.body):
            tgt = None
            if is_assign(n):
                tgt = kids(n)[0]
            elif is_incdec(n):
                tgt = kids(n)[0]
            if tgt is not None:
                root, through = lvalue_base(tgt)
                g = self.global_name(root)
                if g and (not through or self._is_array_global(g)):
                    acc.append((g, 'w', n))
                    written.add(id(strip(tgt)))
                elif g and through:
                    acc.append((g, 'w*', n))      # store through a global pointer
        for n in walk(f.body):
            if n.get('kind') == 'DeclRefExpr':
                g = self.global_name(n['referencedDecl'])
                if g:
                    acc.append((g, 'r', n))
            if n.get('kind') == 'UnaryOperator' and n.get('opcode') == '&':
                root, through = lvalue_base(kids(n)[0])
                g = self.global_name(root)
                if g and not through:
                    acc.append((g, 'addr', n))
        return acc

    def _is_array_global(self, g):
        u, v = self.globals[g]
        return '[' in fe.qual(v)
