"""E10 abi: Python ctypes declarations <-> C declarations (decides C20).

Python side is parsed with `ast` (never imported).  The deciding step is a generated C
translation unit of compile-fail witnesses checked by `clang -fsyntax-only`:
  * every bound function is redeclared with the signature Python claims (C requires
    compatible types for redeclarations);
  * per ctypes.Structure: _Static_assert on sizeof / offsetof / __builtin_types_compatible_p
    for each _fields_ entry, positionally, with sizes/offsets computed under LP64;
  * the address of every function Python calls or declares is taken (undeclared => error).
Engine-side exact comparisons: field count, call-site arity, "defined in a compiled unit".
"""
import ast
import glob
import json
import os
import re
import subprocess

from . import frontend as fe
from .report import Finding

PYDIR = os.path.join(fe.SRC, 'python_bindings', 'libscientific')

# ctypes scalar -> (C spelling, size, alignment) under LP64
SCALARS = {
    'c_bool': ('_Bool', 1), 'c_char': ('char', 1), 'c_byte': ('signed char', 1), 'c_ubyte': ('unsigned char', 1),
    'c_short': ('short', 2), 'c_ushort': ('unsigned short', 2), 'c_int': ('int', 4), 'c_uint': ('unsigned int', 4),
    'c_long': ('long', 8), 'c_ulong': ('unsigned long', 8), 'c_longlong': ('long long', 8),
    'c_ulonglong': ('unsigned long long', 8), 'c_size_t': ('size_t', 8), 'c_ssize_t': ('ssize_t', 8),
    'c_float': ('float', 4), 'c_double': ('double', 8), 'c_longdouble': ('long double', 16),
    'c_int8': ('int8_t', 1), 'c_uint8': ('uint8_t', 1), 'c_int16': ('int16_t', 2), 'c_uint16': ('uint16_t', 2),
    'c_int32': ('int32_t', 4), 'c_uint32': ('uint32_t', 4), 'c_int64': ('int64_t', 8), 'c_uint64': ('uint64_t', 8),
    'c_char_p': ('char *', 8), 'c_void_p': ('void *', 8), 'c_wchar_p': ('wchar_t *', 8),
}


class PyType:
    """canonical ctypes type: base (scalar C spelling or ('struct', module, class)) + pointer depth"""

    def __init__(self, base, depth=0, struct=None):
        self.base, self.depth, self.struct = base, depth, struct

    def ptr(self):
        return PyType(self.base, self.depth + 1, self.struct)


class PyModule:
    def __init__(self, path):
        self.path = path
        self.name = os.path.splitext(os.path.basename(path))[0]
        self.tree = ast.parse(open(path).read(), path)
        self.aliases = {}      # local name -> module name (libscientific.<x>) or 'ctypes'
        self.names = {}        # local name -> (module, attr) for `from x import y`
        self.structs = {}      # class name -> [(field, type-expr, line)], line
        self.argtypes = {}     # fn -> (list of expr | None, line)
        self.restype = {}      # fn -> (expr, line)
        self.calls = []        # (fn, nargs, line, has_star)
        self.lib_names = set()
        self._scan()

    def _scan(self):
        for n in ast.walk(self.tree):
            if isinstance(n, ast.Import):
                for a in n.names:
                    if a.name == 'ctypes':
                        self.aliases[a.asname or 'ctypes'] = 'ctypes'
                    elif a.name.startswith('libscientific.'):
                        self.aliases[a.asname or a.name] = a.name.split('.', 1)[1]
            elif isinstance(n, ast.ImportFrom):
                if n.module == 'libscientific':
                    for a in n.names:
                        self.aliases[a.asname or a.name] = a.name
                elif n.module and n.module.startswith('libscientific.'):
                    for a in n.names:
                        self.names[a.asname or a.name] = (n.module.split('.', 1)[1], a.name)
                elif n.module == 'ctypes':
                    for a in n.names:
                        self.names[a.asname or a.name] = ('ctypes', a.name)
        # names bound to the loaded library
        for n in ast.walk(self.tree):
            if isinstance(n, ast.Assign) and isinstance(n.value, ast.Call):
                f = n.value.func
                fn = f.id if isinstance(f, ast.Name) else (f.attr if isinstance(f, ast.Attribute) else None)
                if fn == 'load_libscientific_library':
                    for t in n.targets:
                        if isinstance(t, ast.Name):
                            self.lib_names.add(t.id)
        for n in ast.walk(self.tree):
            if isinstance(n, ast.ClassDef) and any(self._is_structure(b) for b in n.bases):
                fields = None
                for s in n.body:
                    if isinstance(s, ast.Assign) and any(isinstance(t, ast.Name) and t.id == '_fields_' for t in s.targets):
                        fields = []
                        if not isinstance(s.value, (ast.List, ast.Tuple)):
                            raise fe.AnalysisBroken('%s: _fields_ of %s is not a literal list' % (self.path, n.name))
                        for e in s.value.elts:
                            if not (isinstance(e, ast.Tuple) and len(e.elts) >= 2 and isinstance(e.elts[0], ast.Constant)):
                                raise fe.AnalysisBroken('%s: unrecognised _fields_ entry in %s' % (self.path, n.name))
                            fields.append((e.elts[0].value, e.elts[1], e.lineno))
                if fields is not None:
                    self.structs[n.name] = (fields, n.lineno)
            elif isinstance(n, ast.Assign):
                for t in n.targets:
                    if (isinstance(t, ast.Attribute) and t.attr in ('argtypes', 'restype')
                            and isinstance(t.value, ast.Attribute) and isinstance(t.value.value, ast.Name)
                            and t.value.value.id in self.lib_names):
                        fn = t.value.attr
                        if t.attr == 'argtypes':
                            if isinstance(n.value, (ast.List, ast.Tuple)):
                                self.argtypes[fn] = (list(n.value.elts), n.lineno)
                            elif isinstance(n.value, ast.Constant) and n.value.value is None:
                                self.argtypes[fn] = (None, n.lineno)
                            else:
                                raise fe.AnalysisBroken('%s:%d argtypes of %s is not a literal list' % (self.path, n.lineno, fn))
                        else:
                            self.restype[fn] = (n.value, n.lineno)
            elif isinstance(n, ast.Call):
                f = n.func
                if (isinstance(f, ast.Attribute) and isinstance(f.value, ast.Name) and f.value.id in self.lib_names):
                    star = any(isinstance(a, ast.Starred) for a in n.args) or bool(n.keywords)
                    self.calls.append((f.attr, len(n.args), n.lineno, star))

    def _is_structure(self, b):
        if isinstance(b, ast.Attribute) and b.attr == 'Structure':
            return True
        return isinstance(b, ast.Name) and self.names.get(b.id) == ('ctypes', 'Structure')


class PySide:
    def __init__(self):
        files = sorted(glob.glob(os.path.join(PYDIR, '*.py')))
        if not files:
            raise fe.AnalysisBroken('no python binding files under ' + PYDIR)
        self.modules = {}
        for f in files:
            m = PyModule(f)
            self.modules[m.name] = m

    def resolve(self, mod, e):
        """type expression -> PyType"""
        if isinstance(e, ast.Constant) and e.value is None:
            return PyType('void')
        if isinstance(e, ast.Call):
            f = e.func
            fname = f.attr if isinstance(f, ast.Attribute) else (f.id if isinstance(f, ast.Name) else None)
            if fname == 'POINTER' and len(e.args) == 1:
                return self.resolve(mod, e.args[0]).ptr()
            raise fe.AnalysisBroken('%s:%d unsupported ctypes type constructor %s' % (mod.path, e.lineno, fname))
        if isinstance(e, ast.Attribute) and isinstance(e.value, ast.Name):
            target = mod.aliases.get(e.value.id)
            if target == 'ctypes':
                return self._scalar(mod, e.attr, e.lineno)
            if target in self.modules:
                return self._named(self.modules[target], e.attr, e.lineno)
            raise fe.AnalysisBroken('%s:%d cannot resolve %s.%s' % (mod.path, e.lineno, e.value.id, e.attr))
        if isinstance(e, ast.Name):
            if e.id in mod.names:
                tm, attr = mod.names[e.id]
                if tm == 'ctypes':
                    return self._scalar(mod, attr, e.lineno)
                if tm in self.modules:
                    return self._named(self.modules[tm], attr, e.lineno)
            return self._named(mod, e.id, e.lineno)
        raise fe.AnalysisBroken('%s:%d unsupported type expression %s' % (mod.path, getattr(e, 'lineno', 0), ast.dump(e)[:80]))

    def _scalar(self, mod, attr, line):
        if attr not in SCALARS:
            raise fe.AnalysisBroken('%s:%d unknown ctypes scalar %s' % (mod.path, line, attr))
        sp = SCALARS[attr][0]
        if sp.endswith(' *'):
            return PyType(sp[:-2], 1)
        return PyType(sp)

    def _named(self, mod, name, line):
        if name in mod.structs:
            return PyType(None, 0, (mod.name, name))
        # module-level alias  X = ctypes.c_double
        for n in mod.tree.body:
            if isinstance(n, ast.Assign) and any(isinstance(t, ast.Name) and t.id == name for t in n.targets):
                return self.resolve(mod, n.value)
        raise fe.AnalysisBroken('%s:%d cannot resolve type name %s' % (mod.path, line, name))


# --------------------------------------------------------------------------------------
# C side

class CSide:
    def __init__(self):
        heads = fe.installed_headers()
        self.headers = heads
        d = fe.scratch_dir()
        self.umbrella = os.path.join(d, 'abi_umbrella.c')
        with open(self.umbrella, 'w') as f:
            f.write('#include <stddef.h>\n#include <stdint.h>\n#include <sys/types.h>\n')
            for h in heads:
                f.write('#include "%s"\n' % h)
        units = fe.load_units([], {'abi_umbrella.c': self.umbrella})
        u = units['abi_umbrella.c']
        self.unit = u
        self.protos = {}
        for dcl in u.decls:
            if dcl.get('kind') == 'FunctionDecl':
                self.protos.setdefault(dcl['name'], dcl)
        # typedef name -> record decl
        self.structs = {}
        recs = u.records
        for name, td in u.typedefs.items():
            for c in fe.walk(td):
                if c.get('kind') == 'RecordType' and c.get('decl', {}).get('id') in recs:
                    self.structs[name] = recs[c['decl']['id']]
        for r in recs.values():
            if r.get('name') and r.get('completeDefinition'):
                self.structs.setdefault('struct ' + r['name'], r)

    def fields(self, tname):
        r = self.structs[tname]
        return [(c['name'], c['type']['qualType']) for c in r.get('inner', []) if c.get('kind') == 'FieldDecl']

    def params(self, fn):
        p = self.protos[fn]
        return [fe.qual(c) and c['type']['qualType'] for c in fe.params_of(p)]

    def proto_text(self, fn):
        return self.protos[fn]['type']['qualType']

    def has_prototype(self, fn):
        return '(' in self.proto_text(fn) and not self.proto_text(fn).endswith('()')


def defined_functions():
    """Names defined in the compiled library units (LLVM IR 'define' lines; nothing is linked or run)."""
    d = fe.scratch_dir()
    names = set()
    from concurrent.futures import ThreadPoolExecutor

    def one(u):
        r = subprocess.run([fe.CLANG, '-S', '-emit-llvm', '-O0', '-o', '-'] + fe.cflags() + [os.path.join(fe.SRC, u)],
                           stdout=subprocess.PIPE, stderr=subprocess.PIPE)
        if r.returncode != 0:
            raise fe.AnalysisBroken('clang -emit-llvm failed on %s: %s' % (u, r.stderr.decode()[-300:]))
        return re.findall(r'^define [^@]*@([A-Za-z_0-9]+)\(', r.stdout.decode(), re.M)
    with ThreadPoolExecutor(max_workers=16) as ex:
        for lst in ex.map(one, fe.library_units()):
            names.update(lst)
    return names


# --------------------------------------------------------------------------------------

def c_spelling(t, structmap):
    if t.struct:
        base = structmap.get(t.struct)
        if base is None:
            base = 'struct __unmapped_%s_%s' % t.struct
    else:
        base = t.base
    return base + (' ' + '*' * t.depth if t.depth else '')


def layout(pyside, t, structmap, cache):
    """(size, align) of a PyType under LP64"""
    if t.depth:
        return 8, 8
    if t.struct:
        if t.struct in cache:
            return cache[t.struct][0:2]
        mod = pyside.modules[t.struct[0]]
        off, al, offs = 0, 1, []
        for (fname, expr, line) in mod.structs[t.struct[1]][0]:
            ft = pyside.resolve(mod, expr)
            s, a = layout(pyside, ft, structmap, cache)
            off = (off + a - 1) // a * a
            offs.append(off)
            off += s
            al = max(al, a)
        size = (off + al - 1) // al * al
        cache[t.struct] = (size, al, offs)
        return size, al
    for sp, sz in SCALARS.values():
        if sp == t.base:
            return sz, sz
    if t.base == 'void':
        return 1, 1
    raise fe.AnalysisBroken('no layout for ' + str(t.base))


def normalise_ctype(s):
    s = re.sub(r'\bconst\b|\bvolatile\b|\brestrict\b', '', s)
    return re.sub(r'\s+', '', s)


def run(chk, thorough=False):
    py = PySide()
    c = CSide()
    chk.units = ['abi_umbrella.c (%d installed headers)' % len(c.headers)] + ['python:' + m for m in py.modules]
    R_struct = chk.rule('abi.struct', 'each ctypes.Structure has the same field count and, positionally, the same '
                        'C type, offset and total size as the C struct it mirrors (compile-fail witnesses)')
    R_fn = chk.rule('abi.function', 'each lsci.<f>.argtypes/restype redeclared in C with the claimed signature is '
                    'compatible with the header prototype, and f is defined in a compiled unit')
    R_call = chk.rule('abi.callsite', 'each call lsci.<f>(...) names a function that exists and passes as many '
                      'positional arguments as the C prototype has parameters')

    # ---- map python structures to C typedefs: case-insensitive name, else majority usage
    structmap = {}
    lower = {}
    for n in c.structs:
        lower.setdefault(n.lower(), n)
    usage = {}
    for m in py.modules.values():
        for fn, (elts, line) in m.argtypes.items():
            if elts is None or fn not in c.protos:
                continue
            cps = c.params(fn)
            if len(cps) != len(elts):
                continue
            for e, cp in zip(elts, cps):
                t = py.resolve(m, e)
                if t.struct:
                    base = normalise_ctype(cp).rstrip('*')
                    if normalise_ctype(cp).count('*') == t.depth:
                        usage.setdefault(t.struct, {}).setdefault(base, 0)
                        usage[t.struct][base] += 1
    for m in py.modules.values():
        for sname in m.structs:
            key = (m.name, sname)
            if sname.lower() in lower:
                structmap[key] = lower[sname.lower()]
            elif key in usage:
                best = max(usage[key].items(), key=lambda kv: kv[1])[0]
                if best in c.structs:
                    structmap[key] = best
    # ---- generate the witness unit
    lines = ['#include <stddef.h>', '#include <stdint.h>', '#include <sys/types.h>']
    lines += ['#include "%s"' % h for h in c.headers]
    obligations = {}   # tag -> dict
    tagno = [0]

    def emit(pyfile, line, code, desc, rule, function, construct):
        tagno[0] += 1
        tag = 'OBL%04d' % tagno[0]
        obligations[tag] = {'file': pyfile, 'line': line, 'desc': desc, 'rule': rule,
                            'function': function, 'construct': construct, 'failed': None}
        lines.append('#line %d "%s"' % (line, pyfile))
        lines.append(code.replace('@TAG@', tag))
        return tag

    cache = {}
    nstruct = 0
    for m in py.modules.values():
        rel = os.path.relpath(m.path, fe.REPO)
        for sname, (fields, sline) in m.structs.items():
            nstruct += 1
            key = (m.name, sname)
            ct = structmap.get(key)
            if ct is None:
                chk.instance(R_struct, '%s.%s mirrors no C struct' % (m.name, sname), 'refuted')
                chk.violation(Finding('abi.struct', rel, sname, 'unmapped', '%s:%d' % (rel, sline),
                                      'ctypes structure %s mirrors no C typedef struct' % sname))
                continue
            cf = c.fields(ct)
            if len(cf) != len(fields):
                chk.instance(R_struct, '%s field count py=%d c=%d' % (sname, len(fields), len(cf)), 'refuted')
                chk.violation(Finding('abi.struct', rel, sname, 'field-count', '%s:%d' % (rel, sline),
                                      'ctypes structure %s declares %d fields, C %s has %d' % (sname, len(fields), ct, len(cf)),
                                      witness={'python': [f[0] for f in fields], 'c': [f[0] for f in cf]}))
            else:
                chk.instance(R_struct, '%s<->%s field count %d' % (sname, ct, len(cf)))
            size, al = layout(py, PyType(None, 0, key), structmap, cache)
            offs = cache[key][2]
            emit(rel, sline, '_Static_assert(sizeof(%s) == %d, "@TAG@");' % (ct, size),
                 'sizeof(%s)==%d' % (ct, size), 'abi.struct', sname, 'sizeof')
            for i, (fname, expr, fline) in enumerate(fields):
                if i >= len(cf):
                    break
                cname = cf[i][0]
                t = py.resolve(m, expr)
                sp = c_spelling(t, structmap)
                emit(rel, fline, '_Static_assert(offsetof(%s, %s) == %d, "@TAG@");' % (ct, cname, offs[i]),
                     'offsetof(%s,%s)==%d' % (ct, cname, offs[i]), 'abi.struct', sname, 'field%d:offset' % i)
                emit(rel, fline, '_Static_assert(__builtin_types_compatible_p(__typeof__(((%s*)0)->%s), %s), "@TAG@");'
                     % (ct, cname, sp), 'typeof(%s.%s)~%s' % (ct, cname, sp), 'abi.struct', sname, 'field%d:type' % i)
                if fname != cname:
                    cnames = [x[0] for x in cf]
                    if fname in cnames:
                        # the Python name exists in the C struct at another position: the two declarations list the fields in a
                        # different order (a swap of same-typed fields is invisible to offsets/types but reads the wrong member)
                        chk.instance(R_struct, '%s:%d %s.%s is field %d in Python but field %d in C' % (rel, fline, sname, fname, i, cnames.index(fname)), 'refuted')
                        chk.violation(Finding('abi.struct', rel, sname, 'order:' + fname, '%s:%d' % (rel, fline),
                                              'structure %s: Python declares `%s` at position %d, the C struct %s has `%s` there and `%s` at '
                                              'position %d: the fields are not in the same order (Python reads the other member)' % (
                                                  sname, fname, i, ct, cname, fname, cnames.index(fname)),
                                              witness={'python_order': [f[0] for f in fields], 'c_order': cnames}))
                    else:
                        chk.note('%s:%d field %d of %s is named %r in Python, %r in C (renamed only: no C field of that name elsewhere)' % (rel, fline, i, sname, fname, cname))
                else:
                    chk.instance(R_struct, '%s:%d %s.%s same name at position %d' % (rel, fline, sname, fname, i))
    chk.extra['structures'] = nstruct
    chk.extra['struct_map'] = {'%s.%s' % k: v for k, v in structmap.items()}

    defined = defined_functions()
    chk.extra['c_functions_defined'] = len(defined)
    chk.extra['c_prototypes'] = len(c.protos)
    chk.extra['c_typedef_structs'] = len(c.structs)
    nfun = 0
    declared = {}
    for m in py.modules.values():
        rel = os.path.relpath(m.path, fe.REPO)
        fns = sorted(set(m.argtypes) | set(m.restype), key=lambda f: (m.argtypes.get(f) or m.restype.get(f))[1])
        for fn in fns:
            nfun += 1
            line = (m.argtypes.get(fn) or m.restype.get(fn))[1]
            declared[(m.name, fn)] = True
            if fn not in c.protos:
                chk.instance(R_fn, fn + ' not declared in any installed header', 'refuted')
                chk.violation(Finding('abi.function', rel, fn, 'missing', '%s:%d' % (rel, line),
                                      'Python declares lsci.%s but no installed header declares it' % fn))
                continue
            if fn not in defined:
                chk.instance(R_fn, fn + ' declared but not defined in a compiled unit', 'refuted')
                chk.violation(Finding('abi.function', rel, fn, 'undefined', '%s:%d' % (rel, line),
                                      'lsci.%s is declared in a header but defined in no compiled unit' % fn))
                continue
            elts = m.argtypes.get(fn, (None, line))[0]
            res = m.restype.get(fn)
            cps = c.params(fn)
            cproto = c.protos[fn]['type']['qualType']
            cret = cproto.split('(')[0].strip()
            if res is None:
                rsp = 'int'       # ctypes default restype
                rline = line
            else:
                rsp = c_spelling(py.resolve(m, res[0]), structmap)
                rline = res[1]
            if normalise_ctype(cret) == normalise_ctype(rsp):
                rsp = cret
            if elts is None:
                # only the return kind is claimed
                emit(rel, rline, '%s %s();' % (rsp, fn), '%s %s()' % (rsp, fn), 'abi.function', fn, 'signature')
                continue
            psp = []
            for i, e in enumerate(elts):
                sp = c_spelling(py.resolve(m, e), structmap)
                if i < len(cps) and normalise_ctype(cps[i]) == normalise_ctype(sp):
                    sp = cps[i]          # copy qualifiers only (no ABI content)
                psp.append(sp)
            sig = '%s %s(%s);' % (rsp, fn, ', '.join(psp) if psp else 'void')
            if not c.has_prototype(fn) and not psp:
                sig = '%s %s();' % (rsp, fn)
            emit(rel, line, sig, sig, 'abi.function', fn, 'signature')
    for m in py.modules.values():
        rel = os.path.relpath(m.path, fe.REPO)
        for (fn, nargs, line, star) in m.calls:
            desc = '%s:%d lsci.%s(%d args)' % (rel, line, fn, nargs)
            if fn not in c.protos or fn not in defined:
                chk.instance(R_call, desc, 'refuted')
                chk.violation(Finding('abi.callsite', rel, fn, 'call-missing', '%s:%d' % (rel, line),
                                      'call to lsci.%s: the library %s such function' % (
                                          fn, 'declares no' if fn not in c.protos else 'defines no')))
                continue
            if star:
                chk.instance(R_call, desc + ' (starred/keyword arguments)', 'undecided')
                continue
            want = len(c.params(fn))
            if nargs != want:
                chk.instance(R_call, desc, 'refuted')
                chk.violation(Finding('abi.callsite', rel, fn, 'call-arity', '%s:%d' % (rel, line),
                                      'call passes %d arguments, C %s takes %d: %s' % (nargs, fn, want, c.proto_text(fn)),
                                      witness={'passed': nargs, 'c_parameters': want}))
            else:
                chk.instance(R_call, desc)
    chk.extra['declared_functions'] = nfun
    chk.extra['call_sites'] = sum(len(m.calls) for m in py.modules.values())

    # ---- compile the witnesses
    wit = os.path.join(fe.scratch_dir(), 'abi_witness.c')
    open(wit, 'w').write('\n'.join(lines) + '\n')
    compilers = [[fe.CLANG, '-fsyntax-only', '-ferror-limit=0']]
    if thorough:
        compilers.append(['gcc', '-fsyntax-only', '-fmax-errors=0'])
    results = []
    for comp in compilers:
        cmd = comp + ['-std=gnu11', '-I' + fe.SRC, '-I' + fe.config_dir(), wit]
        r = subprocess.run(cmd, stdout=subprocess.PIPE, stderr=subprocess.PIPE)
        failed = parse_diagnostics(r.stderr.decode(), obligations, wit)
        results.append((comp[0], failed, r.returncode))
        if r.returncode != 0 and not failed:
            raise fe.AnalysisBroken('%s rejected the witness unit without a mappable diagnostic: %s' % (comp[0], r.stderr.decode()[:500]))
    chk.extra['checker_cmd'] = ' '.join(compilers[0] + ['-std=gnu11', '-I<repo>/src', '<generated abi_witness.c>'])
    chk.extra['trusted_base'] = ["clang's C type-compatibility and _Static_assert evaluation", "CPython ast",
                                 'LP64 size/alignment table used to turn _fields_ into offsets']
    failed = results[0][1]
    if thorough and len(results) > 1:
        a, b = set(results[0][1]), set(results[1][1])
        chk.extra['second_compiler_agrees'] = (a == b)
        if a != b:
            chk.broke('clang and gcc disagree on the witness unit: only-clang=%s only-gcc=%s' % (sorted(a - b)[:5], sorted(b - a)[:5]))
    for tag, ob in obligations.items():
        desc = '%s:%d %s' % (ob['file'], ob['line'], ob['desc'])
        if tag in failed:
            chk.instance(ob['rule'], desc, 'refuted')
            msg = failed[tag]
            if ob['rule'] == 'abi.function':
                fn = ob['function']
                msg = 'Python claims `%s` but C declares `%s`' % (ob['desc'].rstrip(';'), c.proto_text(fn).replace('(', fn + '(', 1))
            else:
                msg = 'structure %s: %s does not hold for the C struct (%s)' % (ob['function'], ob['desc'], msg)
            chk.violation(Finding(ob['rule'], ob['file'], ob['function'], ob['construct'],
                                  '%s:%d' % (ob['file'], ob['line']), msg))
        else:
            chk.instance(ob['rule'], desc)
    return py, c


def parse_diagnostics(stderr, obligations, wit):
    """map compiler errors back to obligation tags"""
    failed = {}
    bykey = {}
    for tag, ob in obligations.items():
        bykey.setdefault((ob['file'], ob['line']), []).append(tag)
    for ln in stderr.splitlines():
        m = re.match(r'(.*?):(\d+):(?:\d+:)? (?:fatal )?error: (.*)', ln)
        if not m:
            continue
        f, line, msg = m.group(1), int(m.group(2)), m.group(3)
        t = re.search(r'OBL\d{4}', msg)
        if t:
            failed[t.group(0)] = msg
            continue
        q = re.search(r"['‘]([A-Za-z_0-9]+)['’]", msg)
        cands = bykey.get((f, line), [])
        hit = None
        for tag in cands:
            ob = obligations[tag]
            if ob['rule'] == 'abi.function' and (q is None or q.group(1) == ob['function']):
                hit = tag
        if hit is None and q:
            for tag, ob in obligations.items():
                if ob['rule'] == 'abi.function' and ob['function'] == q.group(1) and ob['file'] == f:
                    hit = tag
        if hit:
            failed[hit] = msg
        else:
            failed.setdefault('UNMAPPED:%s:%d' % (f, line), msg)
    unm = [k for k in failed if k.startswith('UNMAPPED')]
    if unm:
        raise fe.AnalysisBroken('witness diagnostics not mappable to an obligation: %s' % [(k, failed[k]) for k in unm][:3])
    return failed
