"""E12: algebraic relations between the statements of the natural cubic spline (C19).

Nothing is executed and no loop is unrolled: every array store of cubic_spline_interpolation is turned into a rational
function of symbolic cells with a SYMBOLIC index k, and the clauses of C19 that are polynomial identities between those
definitions are decided by normalising polynomials:

  SP.sweep      the forward loop has the shape of Thomas elimination   L[i] = D - A*U[i-1];  U[i] = C/L[i];
                Z[i] = (R - A'*Z[i-1])/L[i]   and eliminates ONE multiplier per row:  A == A'
  SP.backsub    the backward loop is   c[j] = Z[j] - U[j]*c[j+1]   over a range containing the sweep range
  SP.order      recurrences only read entries that were already computed (offset direction agrees with loop direction)
  SP.defined    every array entry read lies inside the index range its defining loop / boundary store covers
  SP.natural    boundary stores give c[first] = 0 and c[last] = 0 (zero second derivative at both ends)
  SP.c0         a_j + b_j h_j + c_j h_j^2 + d_j h_j^3 == a_{j+1},  a_j == y_j      (passes through every point)
  SP.c2         2 c_j + 6 d_j h_j == 2 c_{j+1}                                       (second derivative continuous)
  SP.c1         S'_{i-1}(x_i) - S'_i(x_i)  ==  kappa * (A_i c_{i-1} + D_i c_i + C_i c_{i+1} - R_i),  kappa != 0
                (the linear system being solved IS first-derivative continuity at the interior knots)
  SP.eval       the table written (x, a, b, c, d) is read back by cubic_spline_predict as a + b t + c t^2 + d t^3, t = x - x_j

with h_j := x_{j+1} - x_j taken from the knot matrix, not from the code's own h[] (whose definition is inlined).
Exact arithmetic; rounding is not modelled.  Trusted mathematics: the Thomas algorithm solves the tridiagonal system whose
rows it eliminates (given SP.sweep/SP.backsub/SP.order), and a polynomial identity with a symbolic index holds for every index."""
from fractions import Fraction

from . import frontend as fe
from .frontend import kids, strip, walk
from . import exprs, flow
from .sym import Poly
from .report import Finding

FUNC = 'cubic_spline_interpolation'
EVAL = 'cubic_spline_predict'
K = Poly.atom('k')


def rel(p):
    return p[len(fe.REPO) + 1:] if p.startswith(fe.REPO + '/') else p


class Unsupported(Exception):
    pass


class Rat:
    __slots__ = ('n', 'd')

    def __init__(self, n, d=None):
        self.n = n if isinstance(n, Poly) else Poly.const(n)
        self.d = d if d is not None else Poly.const(1)
        if not isinstance(self.d, Poly):
            self.d = Poly.const(self.d)

    def __add__(self, o):
        if self.d == o.d:
            return Rat(self.n + o.n, self.d)
        return Rat(self.n * o.d + o.n * self.d, self.d * o.d)

    def __sub__(self, o):
        return self + Rat(-o.n, o.d)

    def __neg__(self):
        return Rat(-self.n, self.d)

    def __mul__(self, o):
        return Rat(self.n * o.n, self.d * o.d)

    def __truediv__(self, o):
        if not o.n.t:
            raise Unsupported('division by a literal zero')
        return Rat(self.n * o.d, self.d * o.n)

    def is_zero(self):
        return not self.n.t

    def same(self, o):
        return (self.n * o.d - o.n * self.d).t == {}

    def atoms(self):
        return self.n.atoms() | self.d.atoms()

    def __repr__(self):
        return '(%s)/(%s)' % (self.n, self.d) if self.d != Poly.const(1) else '%s' % self.n


def P(x):
    return Rat(x)


class Store:
    def __init__(self, arr, idx, rhs, loop, node, order):
        self.arr, self.idx, self.rhs, self.loop, self.node, self.order = arr, idx, rhs, loop, node, order


class Loop:
    def __init__(self, var, lo, hi, asc, node):
        self.var, self.lo, self.hi, self.asc, self.node = var, lo, hi, asc, node     # inclusive range lo..hi


class Spline:
    def __init__(self, chk, prog):
        self.chk = chk
        self.prog = prog
        self.f = prog.funcs.get(FUNC)
        self.g = prog.funcs.get(EVAL)

    # ---- front end ---------------------------------------------------------------------------------------------
    def where(self, f, n):
        return f.unit.where(n)

    def int_env(self, f):
        """single-definition integer locals -> Poly over parameter paths (np1 = xy->row, n = np1-1)"""
        env = {}
        for n in walk(f.body):
            if n.get('kind') == 'VarDecl' and kids(n) and not fe.is_float_type(n) and '[' not in (n.get('type') or {}).get('qualType', ''):
                init = kids(n)[-1]
                if init.get('kind', '').endswith('Literal') or init.get('kind') in ('ImplicitCastExpr', 'BinaryOperator', 'MemberExpr', 'ParenExpr'):
                    env[n['name']] = exprs.to_poly(init, byname=True, env=env)
        # plain assignments n = S->row-1 at top level (cubic_spline_predict)
        for s in kids(f.body):
            s0 = strip(s)
            if s0.get('kind') == 'BinaryOperator' and s0.get('opcode') == '=':
                l = strip(kids(s0)[0])
                if l.get('kind') == 'DeclRefExpr' and not fe.is_float_type(l):
                    nm = l['referencedDecl'].get('name')
                    cnt = sum(1 for x in walk(f.body) if x.get('kind') in ('BinaryOperator', 'CompoundAssignOperator', 'UnaryOperator') and
                              (x.get('opcode') or '').rstrip('=') in ('', '+', '-', '++', '--') and x.get('opcode') not in ('==', '+', '-') and
                              kids(x) and strip(kids(x)[0]).get('kind') == 'DeclRefExpr' and strip(kids(x)[0])['referencedDecl'].get('name') == nm)
                    if cnt == 1:
                        env[nm] = exprs.to_poly(kids(s0)[1], byname=True, env=env)
        return env

    def loop_of(self, node, ienv):
        ind = flow.induction(node)
        if ind is None:
            return None
        var = ind['var'].split('#')[0]
        init, cond, inc, body = flow.for_parts(node)
        # re-evaluate init / bound by name with the integer environment
        c = strip(cond)
        l, r = kids(c)
        bound_node = r if exprs.path_of(l) == ind['var'] else l
        bound = exprs.to_poly(bound_node, byname=True, env=ienv)
        init_s = strip(init)
        rr = strip(kids(init_s)[1]) if init_s.get('kind') == 'BinaryOperator' else None
        if rr is None:
            return None
        while rr.get('kind') == 'BinaryOperator' and rr.get('opcode') == '=':
            rr = strip(kids(rr)[1])
        a = exprs.to_poly(rr, byname=True, env=ienv)
        step = ind['step'].const_value()
        op = ind['op']
        if step == 1 and op in ('<', '<='):
            return Loop(var, a, bound - 1 if op == '<' else bound, True, node)
        if step == -1 and op in ('>', '>='):
            return Loop(var, bound + 1 if op == '>' else bound, a, False, node)
        return None

    def collect(self, f):
        """array stores of f in program order with their (innermost, only) loop"""
        self.ienv = self.int_env(f)
        self.arrays = {}
        for n in walk(f.body):
            if n.get('kind') == 'VarDecl' and '[' in (n.get('type') or {}).get('qualType', '') and fe.is_float_type({'type': {'qualType': (n.get('type') or {}).get('qualType', '').split('[')[0]}}):
                self.arrays[n['name']] = n
        stores = []
        order = [0]
        temps = {}            # floating locals defined in the current loop body (double h_prev = h[i-1];): expanded in the right-hand sides

        def expand_temps(node):
            if not temps:
                return node
            if node.get('kind') == 'DeclRefExpr' and node['referencedDecl'].get('name') in temps:
                t_ = temps[node['referencedDecl']['name']]
                return {'kind': 'ParenExpr', 'type': node.get('type'), 'range': node.get('range'), 'inner': [t_]}
            if 'inner' not in node:
                return node
            out = dict(node)
            out['inner'] = [expand_temps(c) if isinstance(c, dict) else c for c in node['inner']]
            return out

        def visit(n, loop):
            k = n.get('kind')
            if k == 'DeclStmt' and loop is not None:
                for vd in kids(n):
                    if vd.get('kind') == 'VarDecl' and kids(vd) and fe.is_float_type(vd):
                        temps[vd['name']] = expand_temps(kids(vd)[-1])
                return
            if k == 'BinaryOperator' and n.get('opcode') == '=' and loop is not None and strip(kids(n)[0]).get('kind') == 'DeclRefExpr' and \
                    fe.is_float_type(strip(kids(n)[0])) and not self.store_target(n):
                temps[strip(kids(n)[0])['referencedDecl'].get('name')] = expand_temps(kids(n)[1])
                return
            if k == 'ForStmt':
                temps.clear()
                lp = self.loop_of(n, self.ienv)
                init, cond, inc, body = flow.for_parts(n)
                if lp is None:
                    raise Unsupported('loop at %s is not a unit-step counting loop' % self.where(f, n))
                if loop is not None:
                    for x in walk(body):
                        if self.store_target(x):
                            raise Unsupported('array store in a nested loop at %s' % self.where(f, x))
                visit(body, lp)
                temps.clear()
                return
            if k in ('WhileStmt', 'DoStmt', 'IfStmt', 'SwitchStmt'):
                for x in walk(n):
                    if self.store_target(x):
                        raise Unsupported('array store under %s at %s' % (k, self.where(f, x)))
                return
            if k == 'BinaryOperator' and n.get('opcode') == '=' and self.store_target(n):
                # chained  c[i] = l[i] = ... = 0.f
                targets = []
                cur = n
                while strip(cur).get('kind') == 'BinaryOperator' and strip(cur).get('opcode') == '=':
                    cur = strip(cur)
                    targets.append(kids(cur)[0])
                    cur = kids(cur)[1]
                for t in targets:
                    tg = self.store_target({'kind': 'BinaryOperator', 'opcode': '=', 'inner': [t, cur]})
                    if tg is None:
                        raise Unsupported('chained assignment with a non-array target at %s' % self.where(f, n))
                    order[0] += 1
                    stores.append(Store(tg[0], tg[1], expand_temps(cur), loop, n, order[0]))
                return
            for c in kids(n):
                visit(c, loop)
        visit(f.body, None)
        return stores

    def store_target(self, n):
        if n.get('kind') != 'BinaryOperator' or n.get('opcode') != '=':
            return None
        l = strip(kids(n)[0])
        if l.get('kind') != 'ArraySubscriptExpr':
            return None
        b = strip(kids(l)[0])
        if b.get('kind') == 'DeclRefExpr' and b['referencedDecl'].get('name') in getattr(self, 'arrays', {}):
            return b['referencedDecl']['name'], kids(l)[1]
        return None

    # ---- expressions -> Rat ---------------------------------------------------------------------------------------
    def idx(self, node, ienv):
        p = exprs.to_poly(node, byname=True, env=ienv)
        if any(a.startswith('?') for a in p.atoms()):
            raise Unsupported('index expression not understood')
        return p

    def rat(self, n, ienv, fenv=None, expand=True):
        """floating expression -> Rat over cell atoms.  ienv: integer variable name -> Poly; fenv: float local -> node"""
        n = strip(n)
        k = n.get('kind')
        if k == 'FloatingLiteral':
            fr = Fraction(str(n.get('value'))).limit_denominator(10 ** 9)
            return Rat(Poly.const(fr.numerator), Poly.const(fr.denominator))
        if k == 'IntegerLiteral':
            return Rat(Poly.const(int(n['value'])))
        if k == 'UnaryOperator' and n.get('opcode') in ('-', '+'):
            r = self.rat(kids(n)[0], ienv, fenv, expand)
            return -r if n['opcode'] == '-' else r
        if k == 'BinaryOperator' and n.get('opcode') in ('+', '-', '*', '/'):
            a = self.rat(kids(n)[0], ienv, fenv, expand)
            b = self.rat(kids(n)[1], ienv, fenv, expand)
            return {'+': a.__add__, '-': a.__sub__, '*': a.__mul__, '/': a.__truediv__}[n['opcode']](b)
        if k == 'ArraySubscriptExpr':
            b = strip(kids(n)[0])
            if b.get('kind') == 'DeclRefExpr':
                nm = b['referencedDecl'].get('name')
                ip = self.idx(kids(n)[1], ienv)
                if expand and nm in self.inline:
                    return self.definition(nm, ip)
                return Rat(Poly.atom('%s[%s]' % (nm, ip)))
            if b.get('kind') == 'ArraySubscriptExpr':
                bb = strip(kids(b)[0])
                if bb.get('kind') == 'MemberExpr' and bb.get('name') == 'data':
                    base = exprs.path_of(kids(bb)[0], byname=True)
                    r_ = self.idx(kids(b)[1], ienv)
                    c_ = self.idx(kids(n)[1], ienv)
                    return Rat(Poly.atom('%s[%s][%s]' % (base, r_, c_)))
            if b.get('kind') == 'MemberExpr' and b.get('name') == 'data':
                base = exprs.path_of(kids(b)[0], byname=True)
                return Rat(Poly.atom('%s[%s]' % (base, self.idx(kids(n)[1], ienv))))
        if k == 'DeclRefExpr':
            nm = n['referencedDecl'].get('name')
            if fenv and nm in fenv:
                nd = fenv[nm]
                if isinstance(nd, tuple):
                    return self.rat(nd[0], nd[1], fenv, expand)
                return self.rat(nd, ienv, fenv, expand)
            return Rat(Poly.atom('$' + nm))
        raise Unsupported('floating expression of kind %s' % k)

    def principal(self, nm):
        """the one defining store of array nm: inside a loop, index == loop variable, not a literal-zero initialisation"""
        c = [s for s in self.stores if s.arr == nm and s.loop is not None and not self.is_zero_literal(s.rhs)]
        if len(c) != 1:
            return None
        s = c[0]
        ip = exprs.to_poly(s.idx, byname=True)
        if ip != Poly.atom(s.loop.var):
            return None
        return s

    @staticmethod
    def is_zero_literal(n):
        v = strip(n)
        if v.get('kind') == 'UnaryOperator' and v.get('opcode') in ('+', '-'):
            v = strip(kids(v)[0])
        return v.get('kind') in ('FloatingLiteral', 'IntegerLiteral') and float(v.get('value')) == 0.0

    def definition(self, nm, ip, expand=True):
        s = self.principal(nm)
        if s is None:
            raise Unsupported('array %s has no single defining loop store' % nm)
        env = dict(self.ienv)
        env[s.loop.var] = ip
        return self.rat(s.rhs, env, expand=expand)

    def array_refs(self, node):
        out = []
        for x in walk(node):
            if x.get('kind') == 'ArraySubscriptExpr':
                b = strip(kids(x)[0])
                if b.get('kind') == 'DeclRefExpr' and b['referencedDecl'].get('name') in self.arrays:
                    out.append((b['referencedDecl']['name'], kids(x)[1], x))
        return out

    # ---- the rules ----------------------------------------------------------------------------------------------------
    def run(self):
        chk = self.chk
        f = self.f
        R = {}
        for name, text in (
                ('SP.sweep', 'the forward loop is Thomas elimination and uses one multiplier per row (A == A\')'),
                ('SP.backsub', 'the backward loop is c[j] = Z[j] - U[j]*c[j+1] over a range containing the sweep range'),
                ('SP.order', 'recurrences read only entries computed earlier in the loop direction'),
                ('SP.defined', 'every array entry read lies inside the index range covered by its defining loop or a boundary store'),
                ('SP.natural', 'boundary stores force c = 0 at the first and the last knot (zero second derivative at both ends)'),
                ('SP.c0', 'piece j evaluated at x_{j+1} equals y_{j+1}, and a_j == y_j (passes through every point)'),
                ('SP.c2', 'the second derivative of piece j at x_{j+1} equals that of piece j+1'),
                ('SP.c1', 'the tridiagonal row solved at knot i is first-derivative continuity at knot i (up to a non-zero constant)'),
                ('SP.lines', 'for ordinates on a straight line y = m x + q the right-hand side vanishes identically, hence c = 0, and then b == m, d == 0'),
                ('SP.independent', 'in the evaluator no scalar state is carried from one query to the next: each prediction depends only on its own abscissa and the table'),
                ('SP.lookup', 'a piece evaluated under a range guard is guarded by x_j <= x <= x_{j+1} of its own row (column 0)'),
                ('SP.eval', 'cubic_spline_predict reads the coefficient table in the column order in which it was written, as a cubic in (x - x_j)')):
            R[name] = chk.rule(name, text)
        if f is None or self.g is None:
            chk.broke('%s or %s not found' % (FUNC, EVAL))
            return
        try:
            self.inline = set()
            self.stores = self.collect(f)
            self.analyse()
        except Unsupported as e:
            chk.broke('spline algebra: %s' % e)

    def fail(self, rule, construct, node, msg, witness=None):
        f = self.f
        import re as _re
        if _re.search(r'\$[A-Za-z_]', msg):
            # the expressions compared contain a scalar local the algebra could not resolve to cells (`$name`): no verdict
            self.chk.instance(rule, '%s %s' % (self.where(f, node) if node is not None else f.where, msg[:200]), 'undecided')
            self.chk.broke('%s (%s): a scalar local could not be resolved to cells of the input, the comparison is not decided: %s' % (rule, f.name, msg[:160]))
            return
        self.chk.instance(rule, '%s %s' % (self.where(f, node) if node is not None else f.where, msg), 'refuted')
        self.chk.violation(Finding(rule, rel(f.file), f.name, construct, self.where(f, node) if node is not None else f.where,
                                   '%s: %s' % (f.name, msg), witness=witness))

    def ok(self, rule, msg, node=None):
        self.chk.instance(rule, '%s %s' % (self.where(self.f, node) if node is not None else self.f.where, msg))

    def analyse(self):
        f = self.f
        # dependency graph between arrays -> which are input-derived (inlined) and which are recurrences
        deps = {}
        for nm in self.arrays:
            s = self.principal(nm)
            deps[nm] = set(a for a, _, _ in self.array_refs(s.rhs)) if s else set()

        def reach(a, seen):
            for b in deps.get(a, ()):
                if b not in seen:
                    seen.add(b)
                    reach(b, seen)
            return seen
        cyc = {a for a in self.arrays if a in reach(a, set())}
        rec = {a for a in self.arrays if a in cyc or reach(a, set()) & cyc}
        self.inline = {a for a in self.arrays if a not in rec and self.principal(a) is not None}
        self.chk.extra['spline_arrays'] = {'inlined (input-derived)': sorted(self.inline), 'recurrences / derived from them': sorted(rec)}

        self.rule_defined_and_order(rec)
        sweep = self.find_sweep(cyc)
        if sweep is None:
            return
        back = self.find_backsub(sweep)
        if back is None:
            return
        self.rule_natural(sweep, back)
        self.rule_pieces(sweep, back)
        self.rule_eval(back)

    # -- ranges
    def covered(self, nm):
        """index intervals (lo, hi inclusive Polys) of nm written by non-initialising stores: principal loop + boundary point stores"""
        out = []
        for s in self.stores:
            if s.arr != nm:
                continue
            if s.loop is not None:
                if self.is_zero_literal(s.rhs) and self.principal(nm) is not None:
                    continue       # bulk zero initialisation
                ip = exprs.to_poly(s.idx, byname=True, env=self.ienv)
                if ip == Poly.atom(s.loop.var):
                    out.append((s.loop.lo, s.loop.hi, s))
            else:
                ip = self.idx(s.idx, self.ienv)
                out.append((ip, ip, s))
        return out

    @staticmethod
    def cdiff(a, b):
        d = a - b
        return d.const_value() if d.is_const() else None

    def inside(self, lo, hi, ivs):
        """is [lo,hi] inside the union of the (possibly empty, symbolic) intervals ivs?  differences must be constants to count"""
        cur = lo
        used = set()
        progress = True
        while progress:
            progress = False
            for n_, (a, b, _) in enumerate(ivs):
                if n_ in used:
                    continue
                da = self.cdiff(cur, a)
                if da is None or da < 0:
                    continue
                dn = self.cdiff(hi, b)
                if dn is not None and dn <= 0:
                    return True
                used.add(n_)
                cur = b + 1          # if b + 1 < cur this only asks for more
                progress = True
                break
        d = self.cdiff(hi, cur)
        return d is not None and d < 0

    def rule_defined_and_order(self, rec):
        f = self.f
        for s in self.stores:
            if s.loop is None:
                continue
            for nm, inode, node in self.array_refs(s.rhs):
                ip = exprs.to_poly(inode, byname=True, env=self.ienv)
                v = Poly.atom(s.loop.var)
                off = self.cdiff(ip, v)
                if off is None:
                    self.chk.instance('SP.defined', '%s read of %s[%s]: index is not loop variable + constant' % (self.where(f, node), nm, ip), 'undecided')
                    continue
                ivs = self.covered(nm)
                lo, hi = s.loop.lo + off, s.loop.hi + off
                # entries produced by the same loop at earlier iterations count (checked by SP.order)
                if self.inside(lo, hi, ivs):
                    self.ok('SP.defined', 'read of %s[%s] for %s in [%s, %s] lies inside the defined range of %s' % (nm, ip, s.loop.var, s.loop.lo, s.loop.hi, nm), node)
                else:
                    self.fail('SP.defined', 'read:%s[%s]@%s' % (nm, ip, s.arr), node,
                              'reads %s[%s] for %s in [%s, %s], i.e. entries [%s, %s], but %s is only given a value on %s: the remaining entries '
                              'still hold the initial zero' % (nm, ip, s.loop.var, s.loop.lo, s.loop.hi, lo, hi, nm,
                                                                ', '.join('[%s, %s]' % (a, b) for a, b, _ in ivs) or 'no range'))
                # order: an entry produced by this very loop must already have been produced
                prod = [t for t in self.stores if t.arr == nm and t.loop is s.loop and not self.is_zero_literal(t.rhs)]
                if prod:
                    t = prod[0]
                    fine = (off < 0) if s.loop.asc else (off > 0)
                    if off == 0:
                        fine = t.order < s.order
                    if fine:
                        self.ok('SP.order', '%s[%s] was produced %s' % (nm, ip, 'earlier in the body' if off == 0 else 'by an earlier iteration'), node)
                    else:
                        self.fail('SP.order', 'order:%s[%s]@%s' % (nm, ip, s.arr), node,
                                  'reads %s[%s] in a loop running %s that only produces that entry later: the value read is the initial zero, '
                                  'not the recurrence value' % (nm, ip, 'upwards' if s.loop.asc else 'downwards'))

    # -- forward sweep
    def linear_in(self, r, atom):
        """r = rest + coef*atom with atom absent from the denominator -> (coef Rat, rest Rat) or None"""
        if atom in r.d.atoms():
            return None
        c = r.n.coeff(atom)
        if c is None:
            return None
        rest = r.n - c * Poly.atom(atom)
        if atom in rest.atoms() or atom in c.atoms():
            return None
        return Rat(c, r.d), Rat(rest, r.d)

    def find_sweep(self, cyc):
        f = self.f
        loops = {}
        for s in self.stores:
            if s.loop is not None and s.loop.asc and s.arr in cyc and not self.is_zero_literal(s.rhs):
                loops.setdefault(id(s.loop), []).append(s)
        cands = [v for v in loops.values() if len(v) >= 3]
        if len(cands) != 1:
            self.chk.broke('forward elimination loop not recognised (%d candidate loops)' % len(cands))
            return None
        ss = cands[0]
        lp = ss[0].loop
        var = lp.var
        env = dict(self.ienv)
        env[var] = K
        defs = {s.arr: self.rat(s.rhs, env) for s in ss}
        prev = lambda a: '%s[%s]' % (a, K - 1)
        cur = lambda a: '%s[%s]' % (a, K)
        # L: linear in U[k-1] with U another sweep array, no division by sweep arrays
        roles = None
        if len(defs) == 3:
            for Ln, Ld in defs.items():
                for Un in defs:
                    if Un == Ln:
                        continue
                    lin = self.linear_in(Ld, prev(Un))
                    if lin is None or lin[0].is_zero():
                        continue
                    Zn = [x for x in defs if x not in (Ln, Un)][0]
                    roles = (Ln, Un, Zn, lin)
        if roles is None:
            self.chk.broke('forward elimination loop at %s does not have the shape L[i] = D - A*U[i-1]' % self.where(f, lp.node))
            return None
        Ln, Un, Zn, (negA, D) = roles
        A = -negA
        Lk = Poly.atom(cur(Ln))

        def times_L(r):
            """r * L[k] with common powers of L[k] cancelled; None if L[k] survives (r is not something/L[k])"""
            at = cur(Ln)
            n_, d_ = r.n * Lk, r.d
            while n_.t and d_.t and all(at in m for m in n_.t) and all(at in m for m in d_.t):
                n_ = Poly({tuple(sorted(self._drop(m, at))): v for m, v in n_.t.items()})
                d_ = Poly({tuple(sorted(self._drop(m, at))): v for m, v in d_.t.items()})
            if at in n_.atoms() or at in d_.atoms():
                return None
            return Rat(n_, d_)
        C = times_L(defs[Un])
        W = times_L(defs[Zn])
        sU = [s for s in ss if s.arr == Un][0]
        sZ = [s for s in ss if s.arr == Zn][0]
        sL = [s for s in ss if s.arr == Ln][0]
        if C is None or any(a.split('[')[0] in (Ln, Un, Zn) for a in C.atoms()):
            self.chk.broke('%s: %s[i] is not of the form (super-diagonal entry)/%s[i]: elimination step not recognised' % (self.where(f, sU.node), Un, Ln))
            return None
        lz = self.linear_in(W, prev(Zn)) if W is not None else None
        if lz is None or lz[0].is_zero():
            self.chk.broke('%s: %s[i] is not of the form (right-hand side - multiplier*%s[i-1])/%s[i]: elimination step not recognised' %
                           (self.where(f, sZ.node), Zn, Zn, Ln))
            return None
        A2, Rr = -lz[0], lz[1]
        if any(a.split('[')[0] in (Ln, Un, Zn) for a in (A.atoms() | D.atoms() | A2.atoms() | Rr.atoms())):
            self.chk.broke('%s: the coefficients of the elimination step depend on the sweep arrays themselves: not recognised' % self.where(f, sL.node))
            return None
        self.ok('SP.sweep', 'recognised  %s[i] = D - A*%s[i-1];  %s[i] = C/%s[i];  %s[i] = (R - A\'*%s[i-1])/%s[i]  for i in [%s, %s]' %
                (Ln, Un, Un, Ln, Zn, Zn, Ln, lp.lo, lp.hi), lp.node)
        if A.same(A2):
            self.ok('SP.sweep', 'one multiplier per row: A = %s in both the pivot update and the right-hand-side update' % A, sZ.node)
        else:
            self.fail('SP.sweep', 'multiplier:' + Zn, sZ.node,
                      'row i is eliminated with multiplier %s in the pivot update (%s[i]) but with %s in the right-hand-side update (%s[i]): '
                      'the two statements no longer eliminate the same sub-diagonal entry, so %s is not the solution of any tridiagonal system '
                      'with these pivots (the spline loses first-derivative continuity)' % (A, Ln, A2, Zn, Zn))
        return {'L': Ln, 'U': Un, 'Z': Zn, 'A': A, 'D': D, 'C': C, 'R': Rr, 'loop': lp, 'stores': ss}

    @staticmethod
    def _drop(m, at):
        m = list(m)
        m.remove(at)
        return m

    def find_backsub(self, sw):
        f = self.f
        Zn, Un = sw['Z'], sw['U']
        cands = []
        for s in self.stores:
            if s.loop is None or s.loop.asc or self.is_zero_literal(s.rhs):
                continue
            refs = {a for a, _, _ in self.array_refs(s.rhs)}
            if s.arr in refs and Zn in refs:
                cands.append(s)
        if len(cands) != 1:
            self.chk.broke('back substitution statement not recognised (%d candidates)' % len(cands))
            return None
        s = cands[0]
        lp = s.loop
        env = dict(self.ienv)
        env[lp.var] = K
        r = self.rat(s.rhs, env)
        Cn = s.arr
        lin = self.linear_in(r, '%s[%s]' % (Cn, K + 1))
        good = lin is not None and lin[0].same(Rat(-Poly.atom('%s[%s]' % (Un, K)))) and lin[1].same(Rat(Poly.atom('%s[%s]' % (Zn, K))))
        if good:
            self.ok('SP.backsub', '%s[j] = %s[j] - %s[j]*%s[j+1] for j from %s down to %s' % (Cn, Zn, Un, Cn, lp.hi, lp.lo), s.node)
        else:
            self.fail('SP.backsub', 'backsub:' + Cn, s.node,
                      'the back substitution computes %s[j] = %s, expected %s[j] - %s[j]*%s[j+1] (same index j on both sweep arrays, next unknown j+1)'
                      % (Cn, r, Zn, Un, Cn))
        slo, shi = sw['loop'].lo, sw['loop'].hi
        d1, d2 = self.cdiff(slo - 1, lp.lo), self.cdiff(lp.hi, shi)
        if d1 is not None and d2 is not None and d1 >= 0 and d2 >= 0:
            self.ok('SP.backsub', 'back substitution range [%s, %s] contains the eliminated rows [%s, %s] and the row before' % (lp.lo, lp.hi, slo, shi), lp.node)
        else:
            self.fail('SP.backsub', 'range:' + Cn, lp.node,
                      'back substitution runs over [%s, %s] but rows [%s, %s] were eliminated: some unknowns are never back-substituted'
                      % (lp.lo, lp.hi, slo, shi))
        return {'c': Cn, 'loop': lp, 'store': s}

    def point_store(self, nm, ip):
        c = [s for s in self.stores if s.arr == nm and s.loop is None and self.cdiff(self.idx(s.idx, self.ienv), ip) == 0]
        return c[-1] if c else None

    def rule_natural(self, sw, back):
        f = self.f
        first = sw['loop'].lo - 1
        last = back['loop'].hi + 1
        # c[first] = Z[first] - U[first]*c[first+1] = 0  needs Z[first] = 0 and U[first] = 0
        for nm in (sw['U'], sw['Z']):
            s = self.point_store(nm, first)
            if s is not None and self.is_zero_literal(s.rhs):
                self.ok('SP.natural', '%s[%s] = 0 so that %s[%s] = 0 (zero second derivative at the first knot)' % (nm, first, back['c'], first), s.node)
            else:
                self.fail('SP.natural', 'first:' + nm, s.node if s else sw['loop'].node,
                          '%s[%s] is not set to zero before the elimination: %s[%s] = %s[%s] - %s[%s]*%s[%s] is then not zero and the '
                          'second derivative at the first knot does not vanish' % (nm, first, back['c'], first, sw['Z'], first, sw['U'], first, back['c'], first + 1))
        s = self.point_store(sw['L'], first)
        if s is None or self.is_zero_literal(s.rhs):
            self.fail('SP.natural', 'first:' + sw['L'], s.node if s else sw['loop'].node, 'pivot %s[%s] is not given a non-zero value' % (sw['L'], first))
        else:
            self.ok('SP.natural', 'pivot %s[%s] has a non-zero boundary value' % (sw['L'], first), s.node)
        s = self.point_store(back['c'], last)
        if s is not None and self.is_zero_literal(s.rhs) and s.order < back['store'].order:
            self.ok('SP.natural', '%s[%s] = 0 before back substitution (zero second derivative at the last knot)' % (back['c'], last), s.node)
        else:
            self.fail('SP.natural', 'last:' + back['c'], s.node if s else back['loop'].node,
                      '%s[%s] is not set to zero before the back substitution starts at %s: the second derivative at the last knot does not vanish'
                      % (back['c'], last, back['loop'].hi))

    def rule_pieces(self, sw, back):
        f = self.f
        Cn = back['c']
        # the table columns tell which arrays are a, b, d
        tab = self.table()
        if tab is None:
            return
        an, bn, cn2, dn = tab['cols'][1], tab['cols'][2], tab['cols'][3], tab['cols'][4]
        if cn2 != Cn:
            self.fail('SP.eval', 'col3', tab['node'], 'the quadratic coefficient column stores %s, not the solved unknown %s' % (cn2, Cn))
            return
        knots = tab['knots']            # name of the knot matrix path
        x = lambda ip: Rat(Poly.atom('%s[%s][0]' % (knots, ip)))
        y = lambda ip: Rat(Poly.atom('%s[%s][1]' % (knots, ip)))
        c = lambda ip: Rat(Poly.atom('%s[%s]' % (Cn, ip)))

        def coef(nm, ip):
            if nm in self.inline:
                return self.definition(nm, ip)
            if nm == Cn:
                return c(ip)
            return self.definition(nm, ip)
        h = lambda ip: x(ip + 1) - x(ip)
        two, three, six = P(2), P(3), P(6)
        a_k, b_k, d_k = coef(an, K), coef(bn, K), coef(dn, K)
        sb, sd = self.principal(bn), self.principal(dn)
        sa = self.principal(an)
        # a_j == y_j
        if a_k.same(y(K)):
            self.ok('SP.c0', '%s[j] == y_j: piece j takes the value y_j at its left knot' % an, sa.node if sa else None)
        else:
            self.fail('SP.c0', 'left:' + an, sa.node if sa else None, 'the constant coefficient %s[j] is %s, not the ordinate y_j' % (an, a_k))
        hk = h(K)
        e0 = a_k + b_k * hk + c(K) * hk * hk + d_k * hk * hk * hk - coef(an, K + 1)
        if e0.is_zero():
            self.ok('SP.c0', 'a_j + b_j h_j + c_j h_j^2 + d_j h_j^3 - a_{j+1} normalises to 0 (h_j = x_{j+1} - x_j)', sb.node if sb else None)
        else:
            self.fail('SP.c0', 'right', sb.node if sb else None,
                      'piece j evaluated at x_{j+1} differs from y_{j+1} by %s (with the definitions of %s[j] and %s[j] in the code): the spline '
                      'does not pass through the knots' % (self.short(e0), bn, dn))
        e2 = two * c(K) + six * d_k * hk - two * c(K + 1)
        if e2.is_zero():
            self.ok('SP.c2', '2 c_j + 6 d_j h_j - 2 c_{j+1} normalises to 0', sd.node if sd else None)
        else:
            self.fail('SP.c2', 'c2:' + dn, sd.node if sd else None,
                      'second derivative of piece j at x_{j+1} minus that of piece j+1 is %s, not 0 (definition of %s[j])' % (self.short(e2), dn))
        # first derivative continuity at knot k  <=>  row k of the system
        hm = h(K - 1)
        e1 = coef(bn, K - 1) + two * c(K - 1) * hm + three * coef(dn, K - 1) * hm * hm - b_k
        row = sw['A'] * c(K - 1) + sw['D'] * c(K) + sw['C'] * c(K + 1) - sw['R']
        p1 = e1.n * row.d
        p2 = row.n * e1.d
        kappa = None
        for m, v2 in sorted(p2.t.items(), key=lambda kv: (len(kv[0]), kv[0])):
            v1 = p1.t.get(m, 0)
            if v1 != 0:
                kappa = Fraction(v1, v2)
            break
        sL = [s for s in sw['stores'] if s.arr == sw['L']][0]
        if kappa is not None and (p1 * kappa.denominator - p2 * kappa.numerator).t == {}:
            self.ok('SP.c1', 'S\'_{i-1}(x_i) - S\'_i(x_i) == %s * (A_i c_{i-1} + D_i c_i + C_i c_{i+1} - R_i) with A = %s, D = %s, C = %s' %
                    (kappa, sw['A'], sw['D'], sw['C']), sL.node)
        else:
            self.fail('SP.c1', 'row', sL.node,
                      'the tridiagonal row (sub-diagonal %s, diagonal %s, super-diagonal %s, right-hand side %s) is not proportional to the '
                      'first-derivative jump of the pieces defined by %s[], %s[] at an interior knot: solving it does not make the spline '
                      'continuously differentiable' % (sw['A'], sw['D'], sw['C'], self.short(sw['R']), bn, dn))
        self.rule_lines(sw, an, bn, dn, Cn, knots)

    def rule_lines(self, sw, an, bn, dn, Cn, knots):
        m, q = Poly.atom('$m'), Poly.atom('$q')

        def on_line(r):
            sub = {}
            for a_ in r.atoms():
                if a_.startswith(knots + '[') and a_.endswith('][1]'):
                    sub[a_] = m * Poly.atom(a_[:-3] + '[0]') + q
            return Rat(r.n.subst(sub), r.d.subst(sub))

        def c_zero(r):
            sub = {a_: Poly.const(0) for a_ in r.atoms() if a_.startswith(Cn + '[')}
            return Rat(r.n.subst(sub), r.d.subst(sub))
        sZ = [s_ for s_ in sw['stores'] if s_.arr == sw['Z']][0]
        r0 = on_line(sw['R'])
        if r0.is_zero():
            self.ok('SP.lines', 'right-hand side R_i normalises to 0 when y_k = m x_k + q: z = 0 and c = 0 throughout', sZ.node)
        else:
            self.fail('SP.lines', 'rhs', sZ.node, 'for knots on a straight line the right-hand side is %s, not 0: the spline bends between collinear points' % self.short(r0))
        b0 = on_line(c_zero(self.definition(bn, K)))
        d0 = on_line(c_zero(self.definition(dn, K)))
        sb, sd = self.principal(bn), self.principal(dn)
        if b0.same(Rat(m)) and d0.is_zero():
            self.ok('SP.lines', 'with c = 0 and collinear ordinates %s[j] == m and %s[j] == 0: pieces are the line itself' % (bn, dn), sb.node)
        else:
            self.fail('SP.lines', 'coef', sb.node, 'with c = 0 and ordinates on y = m x + q the code gives %s[j] = %s, %s[j] = %s instead of m and 0' %
                      (bn, self.short(b0), dn, self.short(d0)))

    @staticmethod
    def short(r):
        s = repr(r)
        return s if len(s) < 200 else s[:200] + '...'

    def table(self):
        """stores S->data[i][col] = arr[i] / knot x in the interpolation function -> {col: array name}"""
        f = self.f
        cols = {}
        knots = None
        node = None
        out = None
        for n in walk(f.body):
            if n.get('kind') == 'BinaryOperator' and n.get('opcode') == '=':
                l = strip(kids(n)[0])
                if l.get('kind') == 'ArraySubscriptExpr' and strip(kids(l)[0]).get('kind') == 'ArraySubscriptExpr':
                    inner = strip(kids(l)[0])
                    bb = strip(kids(inner)[0])
                    if bb.get('kind') == 'MemberExpr' and bb.get('name') == 'data':
                        col = exprs.to_poly(kids(l)[1], byname=True).const_value()
                        rowp = exprs.to_poly(kids(inner)[1], byname=True)
                        r = strip(kids(n)[1])
                        if col is None:
                            continue
                        out = exprs.path_of(kids(bb)[0], byname=True)
                        node = node or n
                        if r.get('kind') == 'ArraySubscriptExpr':
                            rb = strip(kids(r)[0])
                            if rb.get('kind') == 'DeclRefExpr' and rb['referencedDecl'].get('name') in self.arrays:
                                if exprs.to_poly(kids(r)[1], byname=True) != rowp:
                                    self.fail('SP.eval', 'tablerow:%d' % col, n, 'table row i, column %d is filled from entry %s of %s' %
                                              (col, exprs.to_poly(kids(r)[1], byname=True), rb['referencedDecl']['name']))
                                cols[col] = rb['referencedDecl']['name']
                                continue
                            if rb.get('kind') == 'ArraySubscriptExpr':
                                kb = strip(kids(rb)[0])
                                if kb.get('kind') == 'MemberExpr' and kb.get('name') == 'data':
                                    kc = exprs.to_poly(kids(r)[1], byname=True).const_value()
                                    if exprs.to_poly(kids(rb)[1], byname=True) != rowp:
                                        self.fail('SP.eval', 'tablerow:%d' % col, n, 'table row i, column %d is not filled from knot i' % col)
                                    cols[col] = 'knot:%s' % kc
                                    knots = exprs.path_of(kids(kb)[0], byname=True)
        if sorted(cols) != [0, 1, 2, 3, 4] or knots is None or cols[0] != 'knot:0':
            self.chk.broke('coefficient table stores not recognised: %s' % cols)
            return None
        self.ok('SP.eval', 'table columns written: 0 = x_j, 1 = %s, 2 = %s, 3 = %s, 4 = %s' % (cols[1], cols[2], cols[3], cols[4]), node)
        return {'cols': cols, 'knots': knots, 'node': node, 'out': out}

    def rule_eval(self, back):
        """every evaluation expression of cubic_spline_predict is  S[j][1] + S[j][2] t + S[j][3] t^2 + S[j][4] t^3,  t = x - S[j][0]"""
        g = self.g
        ienv = self.int_env(g)
        fenv = {}
        sites = 0
        for n in walk(g.body):
            if n.get('kind') == 'VarDecl' and fe.is_float_type(n) and kids(n):
                fenv[n['name']] = kids(n)[-1]
        # float locals assigned more than once keep their atom (x, y); single-definition ones (xi) are inlined
        assigned = {}
        for n in walk(g.body):
            if n.get('kind') == 'BinaryOperator' and n.get('opcode') == '=':
                l = strip(kids(n)[0])
                if l.get('kind') == 'DeclRefExpr':
                    assigned.setdefault(l['referencedDecl'].get('name'), []).append(n)
        for nm in list(fenv):
            if nm in assigned:
                del fenv[nm]
        # scoped re-declarations (double xi in two blocks): resolve per site by walking blocks
        def visit(n, scope, ie, guard=None):
            nonlocal sites
            k = n.get('kind')
            if k == 'CompoundStmt':
                scope, ie = dict(scope), dict(ie)
                for c in kids(n):
                    visit(c, scope, ie, guard)
                return
            if k == 'IfStmt':
                ks = kids(n)
                visit(ks[1], dict(scope), dict(ie), (ks[0], dict(scope), dict(ie)))
                for c in ks[2:]:
                    visit(c, dict(scope), dict(ie), None)
                return
            if k == 'DeclStmt':
                for vd in kids(n):
                    if vd.get('kind') == 'VarDecl' and fe.is_float_type(vd) and kids(vd) and vd['name'] not in assigned:
                        scope[vd['name']] = (kids(vd)[-1], dict(ie))
                return
            if k == 'BinaryOperator' and n.get('opcode') == '=':
                l = strip(kids(n)[0])
                if l.get('kind') == 'DeclRefExpr' and fe.is_float_type(l) and any(x.get('kind') == 'ArraySubscriptExpr' for x in walk(kids(n)[1])):
                    self.eval_site(n, ie, scope, guard)
                    sites += 1
                    return
                if l.get('kind') == 'DeclRefExpr' and not fe.is_float_type(l):
                    ie[l['referencedDecl'].get('name')] = exprs.to_poly(kids(n)[1], byname=True, env=ie)
                    return
            if k == 'ForStmt':
                lp = flow.induction(n)
                ie = dict(ie)
                if lp:
                    ie.pop(lp['var'].split('#')[0], None)
                visit(flow.for_parts(n)[3], scope, ie, None)
                return
            for c in kids(n):
                visit(c, dict(scope), dict(ie), guard)
        visit(g.body, {}, ienv)
        # each predicted value is a function of its own abscissa and the table: no state flows from one query to the next
        qloops = [l for l in kids(g.body) if strip(l).get('kind') == 'ForStmt']
        for l in qloops:
            l = strip(l)
            if not any(x.get('kind') == 'ForStmt' for x in walk(flow.for_parts(l)[3])):
                continue
            car = loop_carried_scalars(g, l)
            if not car:
                self.chk.instance('SP.independent', '%s query loop: every scalar written in an iteration is defined in that iteration before it is read' % g.unit.where(l))
            # a cache that is re-validated needs a second, complete scan (from piece 0) in the same iteration: then the verdict is left open
            full_scans = 0
            for x in walk(flow.for_parts(l)[3]):
                if x.get('kind') == 'ForStmt':
                    i2 = flow.induction(x)
                    if i2 is not None and i2['init'] == Poly.const(0):
                        full_scans += 1
            for nm, node in sorted(car.items()):
                if full_scans:
                    self.chk.instance('SP.independent', '%s query loop carries `%s` between queries but also scans from piece 0: not decided' %
                                      (g.unit.where(node), nm), 'undecided')
                    continue
                self.chk.instance('SP.independent', '%s query loop carries `%s` from one query to the next' % (g.unit.where(node), nm), 'refuted')
                self.chk.violation(Finding('SP.independent', rel(g.file), g.name, 'carried:' + nm, g.unit.where(node),
                                           '%s: `%s` is read at %s before the iteration has written it, and a previous iteration writes it: the value '
                                           'predicted for a query depends on the queries before it (order of the abscissae), not only on its own '
                                           'abscissa and the coefficient table' % (g.name, nm, g.unit.where(node))))
        if sites < 2:
            self.chk.broke('%s: %d evaluation expressions found, expected the in-range and the fall-back one' % (EVAL, sites))

    def eval_site(self, n, ienv, scope, guard=None):
        g = self.g
        try:
            # the row index used by the site: first subscript of the first table read
            r = self.rat(kids(n)[1], ienv, scope, expand=False)
        except Unsupported as e:
            self.chk.instance('SP.eval', '%s evaluation expression not understood: %s' % (g.unit.where(n), e), 'undecided')
            return
        atoms = sorted(a for a in r.atoms() if '][' in a)
        rows = {a.split('[')[1].rstrip(']') for a in atoms}
        base = {a.split('[')[0] for a in atoms}
        others = sorted(a for a in r.atoms() if '][' not in a)
        if len(rows) != 1 or len(base) != 1 or len(others) != 1:
            self.chk.instance('SP.eval', '%s evaluation reads rows %s of %s with free variables %s' % (g.unit.where(n), sorted(rows), sorted(base), others), 'refuted')
            self.chk.violation(Finding('SP.eval', rel(g.file), g.name, 'eval-rows', g.unit.where(n),
                                       '%s: one evaluation mixes coefficients of different table rows %s' % (g.name, sorted(rows))))
            return
        S, row, xv = base.pop(), rows.pop(), others[0]
        cell = lambda c_: Rat(Poly.atom('%s[%s][%d]' % (S, row, c_)))
        t = Rat(Poly.atom(xv)) - cell(0)
        want = cell(1) + cell(2) * t + cell(3) * t * t + cell(4) * t * t * t
        if guard is not None:
            self.lookup_rule(n, guard, S, row, xv)
        if r.same(want):
            self.chk.instance('SP.eval', '%s evaluation == S[j][1] + S[j][2] t + S[j][3] t^2 + S[j][4] t^3 with t = %s - S[j][0], j = %s' % (g.unit.where(n), xv.lstrip('$'), row))
        else:
            self.chk.instance('SP.eval', '%s evaluation differs from the cubic in (x - x_j)' % g.unit.where(n), 'refuted')
            self.chk.violation(Finding('SP.eval', rel(g.file), g.name, 'eval-form', g.unit.where(n),
                                       '%s: the evaluation expression is not a + b t + c t^2 + d t^3 with t = x - x_j over the columns (x,a,b,c,d) '
                                       'written by %s; difference %s' % (g.name, FUNC, self.short(r - want))))


def loop_carried_scalars(f, loop):
    """scalar locals that an iteration of `loop` may read before writing them although the body writes them (state carried from
    one iteration to the next), induction variable excluded.  Structured walk: a definition counts after an if only when both
    arms define, after an inner loop only when made by its init clause."""
    ind = flow.induction(loop)
    ivar = ind['var'].split('#')[0] if ind else None
    init, cond, inc, body = flow.for_parts(loop)
    written = set()
    for x in walk(body):
        k = x.get('kind')
        if k in ('BinaryOperator', 'CompoundAssignOperator') and (x.get('opcode') or '').endswith('=') and x.get('opcode') not in ('==', '!=', '<=', '>='):
            t = strip(kids(x)[0])
            if t.get('kind') == 'DeclRefExpr':
                written.add(t['referencedDecl'].get('name'))
        elif k == 'UnaryOperator' and x.get('opcode') in ('++', '--'):
            t = strip(kids(x)[0])
            if t.get('kind') == 'DeclRefExpr':
                written.add(t['referencedDecl'].get('name'))
    written.discard(ivar)
    carried = {}

    def uses(n, defined):
        for x in walk(n):
            if x.get('kind') == 'DeclRefExpr':
                nm = x['referencedDecl'].get('name')
                if nm in written and nm not in defined and nm not in carried:
                    carried[nm] = x

    def expr(n, defined):
        """evaluate an expression statement: uses first, then its definitions"""
        n0 = strip(n)
        k = n0.get('kind')
        if k == 'BinaryOperator' and n0.get('opcode') == '=':
            t = strip(kids(n0)[0])
            expr(kids(n0)[1], defined)
            if t.get('kind') == 'DeclRefExpr':
                defined.add(t['referencedDecl'].get('name'))
            else:
                uses(t, defined)
            return
        uses(n0, defined)

    def stmt(n, defined):
        k = n.get('kind')
        if k == 'CompoundStmt':
            for c in kids(n):
                stmt(c, defined)
        elif k == 'DeclStmt':
            for vd in kids(n):
                if vd.get('kind') == 'VarDecl':
                    if kids(vd):
                        uses(kids(vd)[-1], defined)
                        defined.add(vd['name'])
        elif k == 'IfStmt':
            ks = kids(n)
            uses(ks[0], defined)
            d1, d2 = set(defined), set(defined)
            stmt(ks[1], d1)
            if len(ks) > 2:
                stmt(ks[2], d2)
            defined |= (d1 & d2)
        elif k == 'ForStmt':
            i2, c2, inc2, b2 = flow.for_parts(n)
            if i2 is not None and i2.get('kind'):
                if i2.get('kind') == 'DeclStmt':
                    stmt(i2, defined)
                else:
                    expr(i2, defined)
            if c2 is not None and c2.get('kind'):
                uses(c2, defined)
            inner = set(defined)
            stmt(b2, inner)
            if inc2 is not None and inc2.get('kind'):
                uses(inc2, inner)
        elif k in ('WhileStmt', 'DoStmt'):
            inner = set(defined)
            for c in kids(n):
                if c.get('kind') in ('CompoundStmt',):
                    stmt(c, inner)
                else:
                    uses(c, inner)
        elif k in ('BreakStmt', 'ContinueStmt', 'NullStmt'):
            pass
        elif k == 'ReturnStmt':
            uses(n, defined)
        else:
            expr(n, defined)
    stmt(body, set())
    return carried


def _lookup_rule(self, n, guard, S, row, xv):
    """a piece evaluated under a range guard must be guarded by  x_j <= x <= x_{j+1}  of the SAME row j"""
    g = self.g
    cond, scope, ie = guard
    lows, ups, other = [], [], 0
    strict_low = []

    def conj(c):
        c = strip(c)
        if c.get('kind') == 'BinaryOperator' and c.get('opcode') == '&&':
            conj(kids(c)[0])
            conj(kids(c)[1])
            return
        nonlocal other
        if c.get('kind') == 'BinaryOperator' and c.get('opcode') in ('<', '<=', '>', '>='):
            try:
                a = self.rat(kids(c)[0], ie, scope, expand=False)
                b = self.rat(kids(c)[1], ie, scope, expand=False)
            except Unsupported:
                other += 1
                return
            X = Rat(Poly.atom(xv))
            op = c['opcode']
            if a.same(X):
                (lows if op in ('>', '>=') else ups).append(b)
                if op == '>':
                    strict_low.append(c)
                return
            if b.same(X):
                (ups if op in ('>', '>=') else lows).append(a)
                if op == '<':
                    strict_low.append(c)
                return
        other += 1
    conj(cond)
    if len(lows) != 1 or len(ups) != 1:
        if not lows and not ups:
            return          # not a range guard (e.g. the MISSING test of the fall-back)
        self.chk.instance('SP.lookup', '%s guard of the evaluation is not a two-sided range test' % g.unit.where(cond), 'undecided')
        return
    def pure_cell(r):
        ats = list(r.atoms())
        return len(ats) == 1 and '][' in ats[0] and r.same(Rat(Poly.atom(ats[0])))
    if not (pure_cell(lows[0]) and pure_cell(ups[0])):
        self.chk.instance('SP.lookup', '%s range guard %s <= x <= %s is not a comparison against table cells alone' %
                          (g.unit.where(cond), self.short(lows[0]), self.short(ups[0])), 'undecided')
        return
    lo_want = Rat(Poly.atom('%s[%s][0]' % (S, row)))
    m_ = [a for a in ups[0].atoms()]
    ok_lo = lows[0].same(lo_want)
    # upper bound: the abscissa of the next row
    ok_up = False
    if len(m_) == 1 and m_[0].startswith(S + '[') and m_[0].endswith('][0]') and ups[0].same(Rat(Poly.atom(m_[0]))):
        ok_up = True
        up_row = m_[0][len(S) + 1:-4]
    if ok_lo and ok_up:
        # compare row polys textually through Poly arithmetic: rebuild from the loop variable
        lo_atom = [a for a in lows[0].atoms()][0]
        lo_row = lo_atom[len(S) + 1:-4]
        same_next = (up_row.replace(' ', '') in ('1+' + lo_row.replace(' ', ''), lo_row.replace(' ', '') + '+1'))
        if same_next:
            # the scan over the pieces must start at the first one: a later start can skip the piece that holds x (then only the fall-back is left)
            inner = None
            for lp_ in walk(g.body):
                if lp_.get('kind') == 'ForStmt' and any(m_ is cond for m_ in walk(lp_)):
                    inner = lp_
            if inner is not None:
                ind_ = flow.induction(inner)
                if ind_ is None or ind_['init'].const_value() != 0:
                    self.chk.instance('SP.lookup', '%s the scan over the pieces starts at `%s`, not at the first piece: that the piece holding x is always reached is not decided' %
                                      (g.unit.where(inner), g.unit.text(kids(inner)[0])[:50]), 'undecided')
                    self.chk.broke('SP.lookup (%s): the scan over the spline pieces does not start at piece 0 (%s); completeness of the lookup is not decided' %
                                   (g.name, g.unit.text(kids(inner)[0])[:50]))
                    return
            if strict_low:
                # x_j < x: no piece admits x == x_0 (the abscissae increase strictly, so no later row does either); unless another test on x
                # picks that case up, the first knot is left to the extrapolation fall-back
                inside = {id(m_) for m_ in walk(cond)}
                elsewhere = 0
                for m_ in walk(g.body):
                    if id(m_) in inside or m_.get('kind') != 'BinaryOperator' or m_.get('opcode') not in ('<', '<=', '>', '>=', '==', '!='):
                        continue
                    for side in kids(m_):
                        sd = strip(side)
                        if sd.get('kind') == 'DeclRefExpr' and sd.get('referencedDecl', {}).get('name') == xv.lstrip('$').split('#')[0]:
                            elsewhere += 1
                if elsewhere:
                    self.chk.instance('SP.lookup', '%s lower bound of the piece guard is strict and x is tested elsewhere in %s: which evaluation serves '
                                      'x == first abscissa is not decided' % (g.unit.where(cond), g.name), 'undecided')
                    self.chk.broke('SP.lookup (%s): strict lower bound of the piece guard with another test on x; the evaluation at the first knot is not decided' % g.name)
                    return
                self.chk.instance('SP.lookup', '%s piece %s is evaluated only when %s[%s][0] < x: x equal to the first abscissa selects no piece' %
                                  (g.unit.where(cond), row, S, lo_row), 'refuted')
                self.chk.violation(Finding('SP.lookup', rel(g.file), g.name, 'strict-lower', g.unit.where(cond),
                                           '%s: the piece of row %s is evaluated under the strict guard %s[%s][0] < x; with strictly increasing abscissae no piece '
                                           'admits x equal to the first abscissa, so the first point is evaluated by the extrapolation fall-back (the last piece) '
                                           'and the spline does not pass through it' % (g.name, row, S, lo_row)))
                return
            self.chk.instance('SP.lookup', '%s piece %s is evaluated exactly when %s[%s][0] <= x <= %s[%s][0]' % (g.unit.where(cond), row, S, lo_row, S, up_row))
            return
    self.chk.instance('SP.lookup', '%s piece %s is selected by a guard over other rows/columns' % (g.unit.where(cond), row), 'refuted')
    self.chk.violation(Finding('SP.lookup', rel(g.file), g.name, 'guard', g.unit.where(cond),
                               '%s: the piece of row %s is evaluated under the guard %s <= x <= %s; a piece is valid between the abscissa of its own '
                               'row and that of the next row (column 0)' % (g.name, row, lows[0], ups[0])))


Spline.lookup_rule = _lookup_rule


def run_area(chk, prog):
    """AR.*: curve_area is the sum over consecutive segments of the exact integral of the segment"""
    R1 = chk.rule('AR.trapezoid', 'each term added to the area equals (x_{i+1} - x_i) * (y_i + y_{i+1}) / 2, the exact integral of the linear segment i')
    R2 = chk.rule('AR.sum', 'the area starts at a literal 0, is changed only by `+= term_i` in one loop over i = 0 .. rows-2 of the matrix read '
                  '(each segment exactly once, so the area over a range is the sum over its sub-ranges), and is what the function returns')
    f = prog.funcs.get('curve_area')
    if f is None:
        chk.broke('curve_area not found')
        return
    sp = Spline(chk, prog)
    sp.inline, sp.arrays, sp.stores = set(), {}, []
    sp.ienv = {}
    where = f.unit.where

    def bad(rule, construct, node, msg):
        chk.instance(rule, '%s %s' % (where(node), msg), 'refuted')
        chk.violation(Finding(rule, rel(f.file), f.name, construct, where(node), '%s: %s' % (f.name, msg)))
    # the accumulator: the float local returned
    rets = [n for n in walk(f.body) if n.get('kind') == 'ReturnStmt']
    acc = None
    if len(rets) == 1 and kids(rets[0]) and strip(kids(rets[0])[0]).get('kind') == 'DeclRefExpr':
        acc = strip(kids(rets[0])[0])['referencedDecl'].get('name')
    if acc is None:
        chk.broke('curve_area: returned accumulator not recognised')
        return
    decl = [n for n in walk(f.body) if n.get('kind') == 'VarDecl' and n.get('name') == acc]
    writes = []
    for n in walk(f.body):
        if n.get('kind') in ('BinaryOperator', 'CompoundAssignOperator') and (n.get('opcode') or '').endswith('=') and n.get('opcode') not in ('==', '!=', '<=', '>='):
            l = strip(kids(n)[0])
            if l.get('kind') == 'DeclRefExpr' and l['referencedDecl'].get('name') == acc:
                writes.append(n)
    loops = [n for n in walk(f.body) if n.get('kind') == 'ForStmt' and any(w is x for w in writes for x in walk(n))]
    init_ok = decl and kids(decl[0]) and Spline.is_zero_literal(kids(decl[0])[-1])
    if not init_ok:
        bad('AR.sum', 'init', decl[0] if decl else f.body, 'the accumulator %s does not start at a literal 0' % acc)
    if len(writes) != 1 or writes[0].get('opcode') != '+=' or len(loops) != 1:
        bad('AR.sum', 'writes', writes[0] if writes else f.body,
            'the accumulator %s is modified %d time(s) (%s) in %d loop(s); expected exactly one `+=` in one loop' %
            (acc, len(writes), ', '.join(w.get('opcode') for w in writes), len(loops)))
        return
    lp = sp.loop_of(loops[0], {})
    if lp is None or not lp.asc:
        chk.broke('curve_area: accumulation loop is not an ascending counting loop')
        return
    # sequential float definitions in the loop body
    body = flow.for_parts(loops[0])[3]
    fenv = {}
    ienv = {lp.var: K}
    term = None
    try:
        for st_ in (kids(body) if body.get('kind') == 'CompoundStmt' else [body]):
            s0 = strip(st_)
            if s0 is writes[0] or any(x is writes[0] for x in walk(s0)):
                term = sp.rat(kids(writes[0])[1], ienv, fenv, expand=False)
                break
            if s0.get('kind') == 'BinaryOperator' and s0.get('opcode') == '=' and strip(kids(s0)[0]).get('kind') == 'DeclRefExpr':
                fenv[strip(kids(s0)[0])['referencedDecl'].get('name')] = (kids(s0)[1], dict(ienv))
            elif s0.get('kind') == 'DeclStmt':
                for vd in kids(s0):
                    if vd.get('kind') == 'VarDecl' and kids(vd):
                        fenv[vd['name']] = (kids(vd)[-1], dict(ienv))
    except Unsupported as e:
        chk.broke('curve_area: term not understood: %s' % e)
        return
    if term is None:
        chk.broke('curve_area: accumulation statement not at the top level of the loop body')
        return
    cells = sorted(a for a in term.atoms() if '][' in a)
    bases = {a.split('[')[0] for a in cells}
    if len(bases) != 1 or any('][' not in a for a in term.atoms()):
        bad('AR.trapezoid', 'term', writes[0], 'the term added reads %s: not a function of the two end points of segment i alone' % sorted(term.atoms()))
        return
    M = bases.pop()
    x = lambda ip: Rat(Poly.atom('%s[%s][0]' % (M, ip)))
    y = lambda ip: Rat(Poly.atom('%s[%s][1]' % (M, ip)))
    want = (x(K + 1) - x(K)) * (y(K) + y(K + 1)) / Rat(Poly.const(2))
    if term.same(want):
        chk.instance(R1, '%s term == (x[i+1]-x[i])*(y[i]+y[i+1])/2 over %s' % (where(writes[0]), M))
    else:
        bad('AR.trapezoid', 'term', writes[0], 'the term added for segment i is %s; it differs from the exact integral of the segment by %s' %
            (Spline.short(term), Spline.short(term - want)))
    # range: i = 0 .. bound-2 where bound is the row count of M on every path reaching the loop
    lo_ok = lp.lo == Poly.const(0)
    hi = lp.hi          # inclusive
    bvars = [a for a in hi.atoms()]
    rows_ok = False
    why = ''
    wrong_bound = []
    if len(bvars) == 1 and (hi - Poly.atom(bvars[0])).const_value() == -2:
        bv = bvars[0]
        # every branch before the loop makes bv the row count of M
        ok_paths = 0
        tot_paths = 0
        for n in walk(f.body):
            if n.get('kind') == 'IfStmt' and not any(x is loops[0] for x in walk(n)):
                arms = kids(n)[1:]
                if len(arms) != 2:
                    continue
                for arm in arms:
                    tot_paths += 1
                    calls = [c for c in walk(arm) if c.get('kind') == 'CallExpr']
                    asg = [c for c in walk(arm) if c.get('kind') == 'BinaryOperator' and c.get('opcode') == '=' and
                           strip(kids(c)[0]).get('kind') == 'DeclRefExpr' and strip(kids(c)[0])['referencedDecl'].get('name') == bv]
                    for c in calls:
                        cn = fe.callee_name(c)
                        a = fe.call_args(c)
                        g = prog.funcs.get(cn) if cn else None
                        if cn == 'MatrixCopy' and len(a) == 2 and M in (exprs.path_of(a[1], byname=True) or '') and len(asg) == 1:
                            src = exprs.path_of(a[0], byname=True)
                            got = exprs.to_poly(kids(asg[0])[1], byname=True)
                            if got == Poly.atom('%s->row' % src):
                                ok_paths += 1
                            elif got is not None and (got - Poly.atom('%s->row' % src)).const_value() not in (None, 0):
                                # the copy has src->row rows but the bound is src->row + c: the last segments are dropped (c < 0) or rows past the end are read (c > 0)
                                wrong_bound.append((asg[0], got, src))
                        elif g is not None and g.body is not None and not asg:
                            # callee sizes the output parameter with the count parameter: ResizeMatrix(out, count, 2)
                            pm = {p_.get('name'): i_ for i_, p_ in enumerate(g.params)}
                            for c2 in walk(g.body):
                                if c2.get('kind') == 'CallExpr' and fe.callee_name(c2) == 'ResizeMatrix':
                                    a2 = fe.call_args(c2)
                                    o_, r_ = exprs.path_of(a2[0], byname=True), exprs.path_of(a2[1], byname=True)
                                    if o_ in pm and r_ in pm and pm[o_] < len(a) and pm[r_] < len(a):
                                        if exprs.path_of(a[pm[o_]], byname=True) == M and exprs.path_of(a[pm[r_]], byname=True) == bv:
                                            ok_paths += 1
        rows_ok = tot_paths == 2 and ok_paths == 2
        why = '%d of %d paths establish %s == %s->row' % (ok_paths, tot_paths, bv, M)
    off = (hi - Poly.atom(bvars[0])).const_value() if len(bvars) == 1 else None
    if not lo_ok:
        bad('AR.sum', 'range', loops[0], 'the accumulation starts at segment %s: the segments before it are not counted' % lp.lo)
    elif off is not None and off != -2:
        bad('AR.sum', 'range', loops[0], 'the accumulation runs over i in [%s, %s]; with %s rows the segments are 0 .. %s-2' % (lp.lo, hi, bvars[0], bvars[0]))
    elif wrong_bound:
        a_, got, src = wrong_bound[0]
        bad('AR.sum', 'bound', a_, 'the polyline copied from %s has %s->row rows, but the accumulation bound %s is set to %s: the segments are 0 .. %s->row-2, '
            'so the sum over [0, %s] %s' % (src, src, bvars[0], got, src, hi,
                                           'drops the last segment(s)' if (got - Poly.atom('%s->row' % src)).const_value() < 0 else 'reads rows past the end'))
    elif rows_ok:
        chk.instance(R2, '%s %s starts at 0, += once per i in [0, %s], %s; returned' % (where(loops[0]), acc, hi, why))
    else:
        chk.instance(R2, '%s accumulation range [%s, %s]: %s' % (where(loops[0]), lp.lo, hi, why or 'bound not related to the row count'), 'undecided')
        chk.broke('AR.sum (curve_area): that the accumulation bound is the row count of the matrix read is not established on every path (%s)' %
                  (why or 'bound not related to the row count'))


def run(chk, prog):
    sp = Spline(chk, prog)
    sp.run()
    run_area(chk, prog)
    return sp
