"""E1 shapecheck: symbolic extent / index abstract interpretation over the structured AST.

Abstract state (one per disjunct, path-sensitive): integer locals as polynomials over atoms (entry values of scalar
parameters `$i`, entry shape fields `$i->row`, loop induction atoms `i@L`, opaque `?...`); per container path the
field values row/col/size/order and, separately, the allocation extents (data array extent, row segments
[lo,hi) -> row extent, slot segments for pointer arrays); raw buffer extents; facts p >= 0.
Obligation at every subscript: 0 <= idx < extent, decided three-valued:
  PROVED (closed syntactic prover) / REFUTED (bounded witness search over the abstract atoms) / UNDECIDED.
Nothing is executed; witnesses are valuations of abstract shape atoms."""
import os
import re

from . import frontend as fe
from .frontend import kids, strip, walk, callee_name, call_args
from . import exprs, flow
from .program import is_assign, is_incdec
from .sym import Poly, prove_nonneg, find_witness, infeasible, defined_atom

CONTAINER = {'matrix': ('row', 'col'), 'dvector': ('size',), 'uivector': ('size',), 'ivector': ('size',),
             'strvector': ('size',), 'tensor': ('order',), 'dvectorlist': ('size',)}
PTR_ARRAY_FIELD = {'matrix': 'data', 'tensor': 'm', 'dvectorlist': 'd', 'strvector': 'data'}
ELEM_TYPE = {'tensor': 'matrix', 'dvectorlist': 'dvector'}
MAX_STATES = 96
LOSSY_AT = 24


def ctype_of(e):
    """container struct name of a pointer-typed expression ('matrix' for matrix*), or None"""
    t = ((strip(e, casts=False).get('type')) or {}).get('qualType', '')
    t = t.replace('const', '').replace('struct', '').strip()
    base = t.replace('*', '').strip()
    return base if base in CONTAINER else None


class Shape:
    __slots__ = ('ctype', 'f', 'ext', 'rows', 'slots', 'freed', 'fresh', 'nullslots')

    def __init__(self, ctype):
        self.ctype = ctype
        self.f = {}          # field -> Poly
        self.ext = None      # extent of the primary array (data / m / d)
        self.rows = []       # matrix: [(lo, hi, ext)] row segments ; pointer arrays: slots assigned [(lo, hi)]
        self.slots = []
        self.freed = False
        self.fresh = False
        self.nullslots = False   # slots outside `slots` are known to be NULL (safe to test, not to dereference)

    def copy(self):
        s = Shape(self.ctype)
        s.f = dict(self.f)
        s.ext = self.ext
        s.rows = list(self.rows)
        s.slots = list(self.slots)
        s.freed = self.freed
        s.fresh = self.fresh
        s.nullslots = self.nullslots
        return s

    def sig(self):
        return (self.ctype, tuple(sorted((k, repr(v)) for k, v in self.f.items())), repr(self.ext),
                tuple((repr(a), repr(b), repr(c)) for a, b, c in self.rows),
                tuple((repr(a), repr(b)) for a, b in self.slots), self.freed, self.nullslots)


class St:
    def __init__(self):
        self.vals = {}
        self.shapes = {}
        self.raw = {}
        self.facts = []
        self.eqs = {}
        self.alias = {}
        self.signed = set()
        self.iter_rows = {}      # (cpath, repr(idx)) -> ext   rows assigned in the current loop iteration
        self.iter_slots = {}     # (cpath, repr(idx)) -> True
        self.overflow = False
        self.lossy = False
        self.freed_raw = set()
        self.fresh = {}          # storage allocated in this function: key -> dict(p, lo, hi, ext, w=[(a,b)], unknown, node)
        self.iter_cells = []     # cell stores of the current loop iteration: (cpath, row Poly|None, col Poly | (a,b))

    def copy(self):
        s = St()
        s.vals = dict(self.vals)
        s.shapes = {k: v.copy() for k, v in self.shapes.items()}
        s.raw = dict(self.raw)
        s.facts = list(self.facts)
        s.eqs = dict(self.eqs)
        s.alias = dict(self.alias)
        s.signed = set(self.signed)
        s.iter_rows = dict(self.iter_rows)
        s.iter_slots = dict(self.iter_slots)
        s.overflow = self.overflow
        s.lossy = self.lossy
        s.freed_raw = set(self.freed_raw)
        s.fresh = {k: dict(v, w=list(v['w'])) for k, v in self.fresh.items()}
        s.iter_cells = list(self.iter_cells)
        return s

    def sig(self):
        return (tuple(sorted((k, repr(v)) for k, v in self.vals.items())),
                tuple(sorted((k, v.sig()) for k, v in self.shapes.items())),
                tuple(sorted((k, repr(v)) for k, v in self.raw.items())),
                tuple(sorted(self.alias.items())), tuple(sorted((k, repr(v)) for k, v in self.iter_rows.items())),
                tuple(sorted(self.freed_raw)),
                tuple(sorted((repr(k), repr(v['w']), v.get('unknown', False)) for k, v in self.fresh.items())),
                tuple(sorted(set(repr(x) for x in self.iter_cells))))

    def add_fact(self, p):
        p = p.subst(self.eqs) if self.eqs else p
        if p.is_const():
            return p.const_value() >= 0
        if infeasible(p) and not (p.atoms() & self.signed):
            return False
        self.facts.append(p)
        return True

    def add_eq(self, a, b):
        """a == b"""
        d = a - b
        ok = self.add_fact(d) and self.add_fact(-d)
        # orient:  single atom = rest
        for v in sorted(d.atoms()):
            c = d.coeff(v)
            if c is not None and c.const_value() in (1, -1) and not v.startswith('?'):
                rest = (Poly.atom(v) * c.const_value() - d) * c.const_value()
                if v not in rest.atoms() and v not in self.eqs:
                    # prefer eliminating loop atoms / locals over entry atoms
                    pass
        return ok


class Obligation:
    def __init__(self, func, node, kind, idx, ext, where, text):
        self.func, self.node, self.kind, self.idx, self.ext, self.where, self.text = func, node, kind, idx, ext, where, text
        self.status = 'PROVED'
        self.witness = None
        self.detail = ''

    def key(self):
        return '%s|%s|%s' % (self.func, self.kind, self.text)


RANK = {'PROVED': 0, 'UNDECIDED': 1, 'REFUTED': 2}


class Engine:
    """analyses one function; transformers/contracts come from the owning Checker"""

    def __init__(self, checker, f, pre=None, dom=3):
        self.ck, self.f, self.prog = checker, f, checker.prog
        self.dom = dom
        self.pre = pre or []          # precondition polys over positional atoms (>= 0)
        self.obligs = {}              # (id(node), kind) -> Obligation
        self.exit_states = []
        self.pnames = {}
        self.pindex = {}
        for i, p in enumerate(f.params):
            self.pnames[p['id']] = '$%d' % i
            self.pindex['$%d' % i] = i
        self.lnames = {}
        seen = {}
        for n in walk(f.body):
            if n.get('kind') == 'VarDecl':
                nm = n['name']
                seen[nm] = seen.get(nm, 0) + 1
                self.lnames[n['id']] = nm if seen[nm] == 1 else '%s~%d' % (nm, seen[nm])
        self.notes = []
        self.nstates_peak = 0
        self.unmodelled = 0

    # ---- naming ----------------------------------------------------------------------
    def vname(self, declstub):
        i = declstub.get('id')
        if i in self.pnames:
            return self.pnames[i]
        if i in self.lnames:
            return self.lnames[i]
        return declstub.get('name', '?')

    def cpath(self, e, st, want_ptrptr=False):
        """canonical container path of a container-pointer expression; None if not a path"""
        e = strip(e)
        k = e.get('kind')
        if k == 'DeclRefExpr':
            nm = self.vname(e['referencedDecl'])
            t = (e.get('type') or {}).get('qualType', '')
            if t.count('*') >= 2:
                return '(*%s)' % nm if want_ptrptr else nm
            return st.alias.get(nm, nm)
        if k == 'UnaryOperator' and e.get('opcode') == '*':
            inner = strip(kids(e)[0])
            if inner.get('kind') == 'DeclRefExpr':
                return '(*%s)' % self.vname(inner['referencedDecl'])
            p = self.cpath(inner, st)
            return '(*%s)' % p if p else None
        if k == 'UnaryOperator' and e.get('opcode') == '&':
            inner = strip(kids(e)[0])
            if inner.get('kind') == 'DeclRefExpr':
                nm = self.vname(inner['referencedDecl'])
                return st.alias.get(nm, nm)
            return self.cpath(inner, st)
        if k == 'MemberExpr':
            b = self.cpath(kids(e)[0], st) if e.get('isArrow') else self.cpath_lv(kids(e)[0], st)
            return None if b is None else '%s->%s' % (b, e['name'])
        if k == 'ArraySubscriptExpr':
            b, i = kids(e)
            bp = self.cpath(b, st)
            if bp is None:
                return None
            return '%s[%s]' % (bp, self.ev(i, st))
        return None

    def cpath_lv(self, e, st):
        """path of an lvalue struct expression:  (*m).data  /  arg[th].x"""
        e = strip(e)
        if e.get('kind') == 'UnaryOperator' and e.get('opcode') == '*':
            return self.cpath(kids(e)[0], st, want_ptrptr=False) if ctype_of(kids(e)[0]) else self.cpath(e, st)
        if e.get('kind') == 'ArraySubscriptExpr':
            b, i = kids(e)
            bp = self.cpath(b, st)
            return None if bp is None else '%s[%s]' % (bp, self.ev(i, st))
        if e.get('kind') == 'DeclRefExpr':
            return self.vname(e['referencedDecl'])
        return self.cpath(e, st)

    def container_arg(self, a, st):
        """path of the container denoted by a call argument: X, &X (T** formal), *pp, pp (T**)"""
        s = strip(a)
        t = (strip(a, casts=False).get('type') or {}).get('qualType', '')
        if s.get('kind') == 'UnaryOperator' and s.get('opcode') == '&':
            return self.cpath(kids(s)[0], st)
        if t.count('*') >= 2 and s.get('kind') == 'DeclRefExpr':
            return '(*%s)' % self.vname(s['referencedDecl'])
        return self.cpath(a, st)

    # ---- shapes ----------------------------------------------------------------------
    def shape(self, st, path, ctype):
        sh = st.shapes.get(path)
        if sh is None:
            sh = Shape(ctype)
            for fld in CONTAINER.get(ctype, ()):
                sh.f[fld] = Poly.atom('%s->%s' % (path, fld))
            first = CONTAINER[ctype][0]
            sh.ext = sh.f[first]
            if ctype == 'matrix':
                sh.rows = [(Poly.const(0), sh.f['row'], sh.f['col'])]
            elif ctype in ('tensor', 'dvectorlist', 'strvector'):
                sh.slots = [(Poly.const(0), sh.f[first])]
            st.shapes[path] = sh
        return sh

    def havoc_shape(self, st, path, ctype, tag):
        sh = Shape(ctype)
        for fld in CONTAINER.get(ctype, ()):
            sh.f[fld] = Poly.atom('?%s->%s@%s' % (path, fld, tag))
        first = CONTAINER[ctype][0]
        sh.ext = sh.f[first]
        if ctype == 'matrix':
            sh.rows = [(Poly.const(0), sh.f['row'], sh.f['col'])]
        elif ctype in ('tensor', 'dvectorlist', 'strvector'):
            sh.slots = [(Poly.const(0), sh.f[first])]
        st.shapes[path] = sh
        return sh

    # ---- integer evaluation ------------------------------------------------------------
    def ev(self, e, st):
        e = strip(e)
        k = e.get('kind')
        if k == 'IntegerLiteral':
            return Poly.const(int(e['value']))
        if k == 'CharacterLiteral':
            return Poly.const(int(e['value']))
        if k == 'DeclRefExpr':
            d = e['referencedDecl']
            if d.get('kind') == 'EnumConstantDecl':
                return Poly.atom('enum:' + d['name'])
            nm = self.vname(d)
            if nm in st.vals:
                return st.vals[nm]
            if nm.startswith('$'):
                if 'int' == fe.qual(e) or fe.qual(e) in ('long', 'short', 'char'):
                    st.signed.add(nm)
                return Poly.atom(nm)
            if nm in getattr(self, 'free_locals', ()):
                return Poly.atom('%' + nm)       # a fixed but unknown value (e.g. a detected processor count)
            a = '?%s' % nm
            return Poly.atom(a)
        if k == 'MemberExpr':
            base = kids(e)[0]
            ct = ctype_of(base) if e.get('isArrow') else self._lv_ctype(base)
            if ct and e.get('name') in CONTAINER[ct]:
                p = self.cpath(base, st) if e.get('isArrow') else self.cpath_lv(base, st)
                if p is not None:
                    sh = self.shape(st, p, ct)
                    return sh.f[e['name']]
            p = self.cpath(e, st)
            if p is not None:
                if p in st.vals:
                    return st.vals[p]
                return Poly.atom(p)
        if k == 'UnaryOperator':
            op = e.get('opcode')
            if op == '-':
                return -self.ev(kids(e)[0], st)
            if op == '+':
                return self.ev(kids(e)[0], st)
            if op == '*':
                p = self.cpath(e, st)
                if p is not None:
                    return st.vals.get(p, Poly.atom(p))
        if k == 'BinaryOperator':
            op = e.get('opcode')
            a, b = kids(e)
            if op == '+':
                return self.ev(a, st) + self.ev(b, st)
            if op == '-':
                return self.ev(a, st) - self.ev(b, st)
            if op == '*':
                return self.ev(a, st) * self.ev(b, st)
            if op == '/':
                pa, pb = self.ev(a, st), self.ev(b, st)
                if pb.is_const() and pb.const_value() not in (0, None) and all(v % pb.const_value() == 0 for v in pa.t.values()):
                    return Poly({k_: v // pb.const_value() for k_, v in pa.t.items()})
                c_ = pb.const_value()
                opq = any(x.startswith('?') for x in pa.atoms() | pb.atoms())
                if not opq and (c_ is None or c_ > 0):
                    q = Poly.atom(defined_atom('div', pa, pb))      # value computed from its arguments in witness searches
                    if c_ is None:
                        st.add_fact(pa - q * pb)                    # q*b <= a  (b >= 1 where the division is defined)
                else:
                    q = Poly.atom('?div(%s,%s)' % (pa, pb))
                if c_ is not None and c_ > 0:
                    st.add_fact(pa - q * c_)
                    st.add_fact(q * c_ + (c_ - 1) - pa)
                return q
            if op == '%':
                pa, pb = self.ev(a, st), self.ev(b, st)
                c_ = pb.const_value()
                if c_ is not None and c_ > 0 and not any(x.startswith('?') for x in pa.atoms()):
                    r_ = Poly.atom(defined_atom('mod', pa, pb))
                    st.add_fact(Poly.const(c_ - 1) - r_)
                    st.add_fact(pa - r_)
                    return r_
                return Poly.atom('?mod(%s,%s)' % (pa, pb))
        if k == 'UnaryExprOrTypeTraitExpr':
            return Poly.atom('sizeof(%s)' % ((e.get('argType') or {}).get('qualType') or (kids(e) and fe.qual(strip(kids(e)[0], casts=False))) or '?'))
        if k == 'CallExpr':
            cn = callee_name(e)
            a = call_args(e)
            if cn in ('ceil', 'floor') and a:
                inner = strip(a[0])
                if inner.get('kind') == 'BinaryOperator' and inner.get('opcode') == '/':
                    x, y = kids(inner)
                    px, py = self.ev(x, st), self.ev(y, st)
                    tag = 'ceildiv' if cn == 'ceil' else 'floordiv'
                    if not fe.is_float_type(inner):
                        tag = 'floordiv'        # integer division: already truncated, ceil() has no effect
                    if any(z.startswith('?') for z in px.atoms() | py.atoms()):
                        return Poly.atom('?%s(%s,%s)' % (tag, px, py))
                    q = Poly.atom(defined_atom(tag, px, py))
                    # defining inequalities (for py >= 1):  ceil: q*py >= px, (q-1)*py <= px - 1 ; floor: q*py <= px < (q+1)*py
                    if tag == 'ceildiv':
                        st.add_fact(q * py - px)
                        st.add_fact(px - 1 - (q - 1) * py + Poly.const(0)) if False else None
                    else:
                        st.add_fact(px - q * py)
                    return q
                return self.ev(a[0], st)
        b = fe.begin(e) or {}
        return Poly.atom('?%s@%s' % (k, b.get('offset')))

    def _lv_ctype(self, e):
        t = ((strip(e, casts=False).get('type')) or {}).get('qualType', '')
        t = t.replace('const', '').replace('struct', '').strip()
        return t if t in CONTAINER else None

    # ---- obligations -------------------------------------------------------------------
    def oblige(self, node, kind, idx, ext, st, le=False, text=None):
        if st.overflow:
            status, wit, detail = 'UNDECIDED', None, 'state cap reached'
        else:
            status, wit, detail = self.decide(idx, ext, st, le)
        key = (id(node), kind)
        ob = self.obligs.get(key)
        if ob is None:
            ob = Obligation(self.f.name, node, kind, idx, ext, self.f.unit.where(node), text or self.f.unit.text(node)[:80])
            ob.status = status
            ob.witness, ob.detail = wit, detail
            self.obligs[key] = ob
        elif RANK[status] > RANK[ob.status]:
            ob.status, ob.witness, ob.detail, ob.idx, ob.ext = status, wit, detail, idx, ext
        return status

    def decide(self, idx, ext, st, le=False):
        facts = st.facts + self.pre_facts(st)
        upper = ext - idx - (0 if le else 1)
        up_ok = prove_nonneg(upper, facts, equalities=st.eqs) and not self._has_signed(upper, st)
        lo_ok = prove_nonneg(idx, facts, equalities=st.eqs) and not self._has_signed_neg(idx, st)
        if not lo_ok and self._has_signed_neg(idx, st):
            lo_ok = prove_nonneg(idx, facts, equalities=st.eqs) and self._signed_covered(idx, facts, st)
        if up_ok and lo_ok:
            return 'PROVED', None, ''
        if st.lossy:
            return 'UNDECIDED', None, 'state joined with loss of facts: cannot prove %s < %s' % (idx, ext)
        # refutation: idx >= ext (+1 if le)  or  idx <= -1
        for neg, what in ((idx - ext + (0 if not le else -1), 'index %s reaches extent %s' % (idx, ext)),
                          (-idx - 1, 'index %s is negative (unsigned wrap)' % idx)):
            if what.startswith('index') and 'negative' in what and lo_ok:
                continue
            if 'reaches' in what and up_ok:
                continue
            w = find_witness(neg, facts, dom=self.dom, max_atoms=11, opaque=lambda a: a.startswith('?') or a.startswith('sizeof'),
                             order=None)
            if isinstance(w, dict):
                return 'REFUTED', w, what
        return 'UNDECIDED', None, 'cannot prove %s < %s' % (idx, ext)

    def _has_signed(self, p, st):
        return False

    def _has_signed_neg(self, p, st):
        return bool(p.atoms() & st.signed)

    def _signed_covered(self, p, facts, st):
        # every signed atom of p has an explicit lower-bound fact  atom + c >= 0
        for a in p.atoms() & st.signed:
            if not any(f.coeff(a) is not None and (f.coeff(a).const_value() or 0) > 0 and
                       all(x == a or x not in st.signed for x in f.atoms()) for f in facts):
                return False
        return True

    def pre_facts(self, st):
        return self.pre

    # ---- expression visitor ------------------------------------------------------------
    def visit(self, e, st, addr=False, lhs=False):
        """evaluate expression for effects and obligations (single state, no splitting)"""
        if e is None or not e.get('kind'):
            return
        k = e['kind']
        if k in ('ImplicitCastExpr', 'ParenExpr', 'CStyleCastExpr', 'ConstantExpr'):
            for c in kids(e):
                self.visit(c, st, addr, lhs)
            return
        if k == 'UnaryExprOrTypeTraitExpr':
            return
        if k == 'BinaryOperator' and e.get('opcode') in ('&&', '||'):
            a, b = kids(e)
            self.visit(a, st)
            alts = self.cond_alts(a, e['opcode'] == '&&', st)
            # evaluate b under each alternative of a; obligations take the worst
            if not alts:
                return
            for facts, effs in alts[:4]:
                s2 = st.copy()
                if all(s2.add_fact(f) for f in facts):
                    self.visit(b, s2)
            return
        if k == 'ConditionalOperator':
            c, a, b = kids(e)
            self.visit(c, st)
            for pol, br in ((True, a), (False, b)):
                for facts, effs in self.cond_alts(c, pol, st)[:4]:
                    s2 = st.copy()
                    if all(s2.add_fact(f) for f in facts):
                        self.visit(br, s2)
            return
        if k == 'BinaryOperator' and e.get('opcode') == '*' and fe.is_float_type(e):
            self.contraction(e, st)
        if is_assign(e):
            return self.assign(e, st)
        if is_incdec(e):
            t = kids(e)[0]
            self.visit(t, st)
            self.store_int(t, self.ev(t, st) + (1 if e['opcode'] == '++' else -1), st)
            return
        if k == 'UnaryOperator' and e.get('opcode') == '&':
            self.visit(kids(e)[0], st, addr=True)
            return
        if k == 'CallExpr':
            return self.call(e, st)
        if k == 'ArraySubscriptExpr':
            return self.subscript(e, st, addr)
        if k == 'MemberExpr':
            base = kids(e)[0]
            self.visit(base, st)
            self.deref_check(e, base, st)
            return
        for c in kids(e):
            self.visit(c, st)

    def cell_subscripts(self, e, st):
        """X->data[i][j] / v->data[i] / buf[i]  ->  list of index Polys (outermost subscript first), or None"""
        e = strip(e)
        subs = []
        while e.get('kind') == 'ArraySubscriptExpr':
            b, i = kids(e)
            if fe.is_float_type(strip(i, casts=False)):
                return None
            subs.append(self.ev(i, st))
            e = strip(b)
        if not subs:
            return None
        if e.get('kind') == 'MemberExpr' and e.get('name') == 'data':
            return list(reversed(subs))
        if e.get('kind') == 'DeclRefExpr':
            return list(reversed(subs))
        return None

    def contraction(self, e, st):
        """a product of two container cells inside loops: every loop variable that occurs in the subscripts of BOTH factors
        must occur through the same index expression (a[i][k+2]*b[k+1][j] pairs column k+2 of a with row k+1 of b)"""
        a, b = kids(e)
        sa, sb = self.cell_subscripts(a, st), self.cell_subscripts(b, st)
        if sa is None or sb is None:
            return
        loopvars = {x for p_ in sa for x in p_.atoms()} & {x for p_ in sb for x in p_.atoms()}
        loopvars = {x for x in loopvars if '@L' in x or '!L' in x or x.startswith('?')}
        for v in sorted(loopvars):
            ia = [p_ for p_ in sa if v in p_.atoms()]
            ib = [p_ for p_ in sb if v in p_.atoms()]
            if len(ia) == 1 and len(ib) == 1 and ia[0] != ib[0]:
                # the same loop variable drives one dimension of each factor through different expressions
                d = ia[0] - ib[0]
                if d.const_value() is not None and d.const_value() != 0:
                    self.flag(e, 'contraction', 'the factors are paired through different indices of the summation variable %s: %s in `%s` '
                              'but %s in `%s` (terms of a contraction must use the same index in both factors)' % (
                                  re.split('[@!]', v.lstrip('?'))[0], ia[0], self.f.unit.text(a)[:40], ib[0], self.f.unit.text(b)[:40]), st,
                              {'left_index': repr(ia[0]), 'right_index': repr(ib[0])})

    def deref_check(self, node, base, st):
        """use of a freed / never assigned container object"""
        ct = ctype_of(base)
        if not ct:
            return
        p = self.cpath(base, st)
        if p is None:
            return
        sh = st.shapes.get(p)
        if sh is not None and sh.freed is True:
            self.flag(node, 'use-after-free', 'container %s is used after it was freed' % p, st)

    def flag(self, node, kind, msg, st, witness=None):
        key = (id(node), kind)
        if key not in self.obligs:
            ob = Obligation(self.f.name, node, kind, Poly.const(0), Poly.const(0), self.f.unit.where(node), self.f.unit.text(node)[:80])
            ob.status, ob.detail, ob.witness = 'REFUTED', msg, witness or {}
            self.obligs[key] = ob

    def subscript(self, e, st, addr=False):
        base, index = kids(e)
        self.visit(index, st)
        b = strip(base)
        idx = self.ev(index, st)
        # raw local buffers / VLAs
        if b.get('kind') == 'DeclRefExpr':
            nm = self.vname(b['referencedDecl'])
            if nm in st.freed_raw:
                self.flag(e, 'use-after-free', 'buffer %s is used after it was freed' % nm, st)
            if nm in st.raw:
                self.oblige(e, 'raw', idx, st.raw[nm], st, le=addr)
            else:
                self.unmodelled += 1
            return
        if b.get('kind') == 'MemberExpr':
            cont = kids(b)[0]
            ct = ctype_of(cont) if b.get('isArrow') else self._lv_ctype(cont)
            self.visit(cont, st)
            if ct and b.get('name') == PTR_ARRAY_FIELD.get(ct, 'data'):
                p = self.cpath(cont, st) if b.get('isArrow') else self.cpath_lv(cont, st)
                if p is None:
                    self.unmodelled += 1
                    return
                sh = self.shape(st, p, ct)
                if sh.freed:
                    self.flag(e, 'use-after-free', 'storage of %s is used after it was freed' % p, st)
                self.oblige(e, 'elem' if ct not in PTR_ARRAY_FIELD else 'ptr', idx, sh.ext, st, le=addr)
                if ct in ('tensor', 'dvectorlist') and not addr and getattr(self, '_lhs_node', None) is not e \
                        and id(e) not in getattr(self, '_nulltest_nodes', ()):
                    self.slot_check(e, p, sh, idx, st)
                return
            if ct and b.get('name') == 'data':
                p = self.cpath(cont, st) if b.get('isArrow') else self.cpath_lv(cont, st)
                if p is None:
                    self.unmodelled += 1
                    return
                sh = self.shape(st, p, ct)
                if sh.freed:
                    self.flag(e, 'use-after-free', 'storage of %s is used after it was freed' % p, st)
                self.oblige(e, 'elem', idx, sh.ext, st, le=addr)
                return
            self.unmodelled += 1
            return
        if b.get('kind') == 'ArraySubscriptExpr':
            # X->data[i][j]
            self.subscript(b, st)
            bb = strip(kids(b)[0])
            if bb.get('kind') == 'MemberExpr' and bb.get('name') == 'data':
                cont = kids(bb)[0]
                ct = ctype_of(cont) if bb.get('isArrow') else self._lv_ctype(cont)
                if ct == 'matrix':
                    p = self.cpath(cont, st) if bb.get('isArrow') else self.cpath_lv(cont, st)
                    if p is not None:
                        sh = self.shape(st, p, 'matrix')
                        ri = self.ev(kids(b)[1], st)
                        ext = self.row_extent(st, p, sh, ri)
                        if ext is None:
                            self.oblige(e, 'cell', idx, Poly.atom('?rowext(%s,%s)' % (p, ri)), st, le=addr)
                        else:
                            self.oblige(e, 'cell', idx, ext, st, le=addr)
                        return
            self.unmodelled += 1
            return
        self.visit(base, st)
        self.unmodelled += 1

    def slot_check(self, node, p, sh, idx, st):
        """pointer slot idx of a tensor / list must have been assigned"""
        if (p, repr(idx)) in st.iter_slots:
            return
        facts = st.facts + self.pre
        for lo, hi in sh.slots:
            if prove_nonneg(idx - lo, facts, equalities=st.eqs) and prove_nonneg(hi - idx - 1, facts, equalities=st.eqs):
                return
        # refute: some idx < ext that lies in no slot segment
        if not sh.slots:
            w = find_witness(sh.ext - idx - 1, facts + [idx], dom=self.dom,
                             opaque=lambda a: a.startswith('?') or a.startswith('sizeof'))
            if isinstance(w, dict):
                self.flag(node, 'unassigned-slot', 'slot %s of %s is dereferenced but was never assigned' % (idx, p), st, w)

    def row_extent(self, st, p, sh, ri):
        k = (p, repr(ri))
        if k in st.iter_rows:
            return st.iter_rows[k]
        facts = st.facts + self.pre
        for lo, hi, ext in reversed(sh.rows):
            if prove_nonneg(ri - lo, facts, equalities=st.eqs) and prove_nonneg(hi - ri - 1, facts, equalities=st.eqs):
                return ext
        if len(sh.rows) == 1:
            return sh.rows[0][2]      # the row-pointer obligation already covers the range
        # several segments: the smallest provable extent is unknown
        exts = {repr(x[2]) for x in sh.rows}
        if len(exts) == 1 and sh.rows:
            return sh.rows[0][2]
        return None

    # ---- assignments -------------------------------------------------------------------
    def store_int(self, target, val, st):
        t = strip(target)
        if t.get('kind') == 'DeclRefExpr':
            st.vals[self.vname(t['referencedDecl'])] = val
            return
        if t.get('kind') == 'MemberExpr':
            base = kids(t)[0]
            ct = ctype_of(base) if t.get('isArrow') else self._lv_ctype(base)
            if ct and t.get('name') in CONTAINER[ct]:
                p = self.cpath(base, st) if t.get('isArrow') else self.cpath_lv(base, st)
                if p is not None:
                    self.shape(st, p, ct).f[t['name']] = val
                    return
        p = self.cpath(t, st)
        if p is not None:
            st.vals[p] = val

    def alloc_extent(self, call, st):
        """xmalloc(sizeof(T)*E) -> E (elements); xmalloc(E) -> E bytes"""
        a = call_args(call)
        cn = callee_name(call)
        size = a[-1] if cn in ('xmalloc', 'malloc', 'xrealloc', 'realloc') else None
        if cn in ('calloc',) and len(a) == 2:
            return self.ev(a[0], st)
        if size is None:
            return None
        p = self.ev(size, st)
        out = Poly()
        for mono, c in p.t.items():
            sz = [x for x in mono if x.startswith('sizeof(')]
            if len(sz) == 1:
                m2 = list(mono)
                m2.remove(sz[0])
                out = out + Poly({tuple(m2): c})
            elif len(sz) == 0 and not any(y for y in p.t if any(x.startswith('sizeof(') for x in y)):
                out = out + Poly({mono: c})
            else:
                # e.g. sizeof(char)*length + 1 : bytes beyond element multiples are ignored (never shrinks)
                if len(sz) == 0:
                    continue
                return Poly.atom('?alloc@%s' % (fe.begin(call) or {}).get('offset'))
        return out

    def assign(self, e, st):
        l, r = kids(e)
        ls, rs = strip(l), strip(r)
        op = e.get('opcode')
        # evaluate rhs first (calls, obligations)
        rcall = rs if rs.get('kind') == 'CallExpr' else None
        if rcall is not None and callee_name(rcall) in ('xmalloc', 'malloc', 'xrealloc', 'realloc', 'calloc'):
            for a in call_args(rcall):
                self.visit(a, st)
            ext = self.alloc_extent(rcall, st)
            self.alloc_store(e, ls, ext, st, realloc=callee_name(rcall) in ('xrealloc', 'realloc'))
            return
        if op != '=':
            self.visit(l, st)
            self.visit(r, st)
            if fe.is_float_type(ls):
                return
            cur = self.ev(l, st)
            rv = self.ev(r, st)
            val = {'+=': cur + rv, '-=': cur - rv, '*=': cur * rv}.get(op)
            if val is None:
                val = Poly.atom('?%s@%s' % (op, (fe.begin(e) or {}).get('offset')))
            self.store_int(l, val, st)
            return
        self.visit(r, st)
        self._lhs_node = strip(l)
        self.visit(l, st, lhs=True)
        self._lhs_node = None
        lt = (ls.get('type') or {}).get('qualType', '')
        # container pointer assignment:  X = Y  /  X = call()  /  (*m) = ...
        lct = ctype_of(l)
        if lct and '*' in lt:
            if ls.get('kind') == 'ArraySubscriptExpr':
                self.deep_copy_rule(e, l, r, st)
                self.slot_store(ls, r, st)
            lp = self.cpath(l, st)
            if rcall is not None:
                self.ck.apply_return(self, rcall, lp, lct, st)
                return
            rp = self.cpath(r, st) if ctype_of(r) else None
            if lp is not None and rp is not None:
                if ls.get('kind') == 'DeclRefExpr':
                    st.alias[self.vname(ls['referencedDecl'])] = rp
                else:
                    st.shapes[lp] = self.shape(st, rp, lct).copy()
                    self.deep_copy_rule(e, l, r, st)
            elif lp is not None and fe.int_value(r) == 0:
                sh = Shape(lct)
                sh.ext = Poly.const(0)
                st.shapes[lp] = sh
            return
        # pointer stored into a container's pointer array:  A->data[i] = B->data[j]
        if ls.get('kind') == 'ArraySubscriptExpr' and '*' in lt:
            if rs.get('kind') == 'DeclRefExpr' and self.vname(rs['referencedDecl']) in st.raw and self.vname(rs['referencedDecl']) not in st.freed_raw:
                # A->data[i] = buf;  with  buf = xmalloc(...)  earlier: the row is that allocation.  Its cells may be written through `buf`,
                # which is not followed: the written-cell record of the row is marked unknown (never a refutation)
                n_before = len(st.fresh)
                self.alloc_store(e, ls, st.raw[self.vname(rs['referencedDecl'])], st, realloc=False)
                for fk, v_ in st.fresh.items():
                    if v_.get('where') == self.f.unit.where(e):
                        v_['unknown'] = True
                return
            self.deep_copy_rule(e, l, r, st)
            self.slot_store(ls, r, st)
            return
        # X->data = NULL
        if ls.get('kind') == 'MemberExpr' and ls.get('name') in ('data', 'm', 'd') and '*' in lt:
            cont = kids(ls)[0]
            ct = ctype_of(cont) if ls.get('isArrow') else self._lv_ctype(cont)
            p = self.cpath(cont, st) if ls.get('isArrow') else self.cpath_lv(cont, st)
            if ct and p:
                sh = self.shape(st, p, ct)
                sh.ext = Poly.const(0)
                sh.rows, sh.slots = [], []
            return
        if ls.get('kind') == 'ArraySubscriptExpr' and '*' not in lt:
            self.record_cell_store(ls, st)
        if fe.is_float_type(ls) or '*' in lt:
            # raw pointer local = other pointer: lose extent
            if ls.get('kind') == 'DeclRefExpr' and '*' in lt:
                st.raw.pop(self.vname(ls['referencedDecl']), None)
            return
        self.store_int(l, self.ev(r, st), st)

    def record_cell_store(self, ls, st):
        """X->data[r][c] = v  /  V->data[c] = v : remember which cells of storage allocated in this function get written"""
        b = strip(kids(ls)[0])
        c = self.ev(kids(ls)[1], st)
        if b.get('kind') == 'ArraySubscriptExpr':
            bb = strip(kids(b)[0])
            if bb.get('kind') == 'MemberExpr' and bb.get('name') == 'data':
                cont = kids(bb)[0]
                if (ctype_of(cont) if bb.get('isArrow') else self._lv_ctype(cont)) == 'matrix':
                    p = self.cpath(cont, st) if bb.get('isArrow') else self.cpath_lv(cont, st)
                    if p:
                        r = self.ev(kids(b)[1], st)
                        fk = (p, repr(r), repr(r + 1))
                        if fk in st.fresh:
                            st.fresh[fk]['w'].append((c, c + 1))
                        st.iter_cells.append((p, r, c))
        elif b.get('kind') == 'MemberExpr' and b.get('name') == 'data':
            cont = kids(b)[0]
            ct = ctype_of(cont) if b.get('isArrow') else self._lv_ctype(cont)
            if ct in ('dvector', 'uivector', 'ivector'):
                p = self.cpath(cont, st) if b.get('isArrow') else self.cpath_lv(cont, st)
                if p:
                    if (p, 'vec') in st.fresh:
                        st.fresh[(p, 'vec')]['w'].append((c, c + 1))
                    st.iter_cells.append((p, None, c))

    def deep_copy_rule(self, node, l, r, st):
        ls, rs = strip(l), strip(r)
        if rs.get('kind') == 'ArraySubscriptExpr' and ls.get('kind') == 'ArraySubscriptExpr':
            lb, rb = strip(kids(ls)[0]), strip(kids(rs)[0])
            if lb.get('kind') == 'MemberExpr' and rb.get('kind') == 'MemberExpr':
                lp, rp = self.cpath(kids(lb)[0], st), self.cpath(kids(rb)[0], st)
                if lp and rp and lp != rp and '*' in (ls.get('type') or {}).get('qualType', ''):
                    self.flag(node, 'shallow-copy', 'a pointer loaded from the storage of %s is stored into the storage of %s: '
                              'the two containers share (and will both free) the same cell' % (rp, lp), st)

    def slot_store(self, ls, r, st):
        b = strip(kids(ls)[0])
        if b.get('kind') == 'MemberExpr':
            cont = kids(b)[0]
            ct = ctype_of(cont) if b.get('isArrow') else self._lv_ctype(cont)
            p = self.cpath(cont, st) if b.get('isArrow') else self.cpath_lv(cont, st)
            if ct in ('tensor', 'dvectorlist', 'strvector') and p:
                idx = self.ev(kids(ls)[1], st)
                sh = self.shape(st, p, ct)
                if r is not None and self.is_null(r):
                    # slot explicitly cleared: if no slot of this container is valid yet, all of them are NULL or unset;
                    # an initialisation loop over the whole array makes them all NULL
                    if not sh.slots:
                        sh.nullslots = True
                    return
                st.iter_slots[(p, repr(idx))] = True
                sh.slots = sh.slots + [(idx, idx + 1)]

    def alloc_store(self, node, ls, ext, st, realloc=False):
        """lhs = xmalloc/xrealloc(...)"""
        if ext is None:
            return
        if ls.get('kind') == 'DeclRefExpr':
            nm = self.vname(ls['referencedDecl'])
            st.raw[nm] = ext
            st.freed_raw.discard(nm)
            return
        if ls.get('kind') == 'UnaryOperator' and ls.get('opcode') == '*':
            # (*m) = xmalloc(sizeof(matrix)) : a fresh object, fields undefined until assigned
            ct = ctype_of(ls)
            p = self.cpath(ls, st)
            if ct and p:
                sh = Shape(ct)
                for fld in CONTAINER[ct]:
                    sh.f[fld] = Poly.atom('?uninit(%s->%s)' % (p, fld))
                sh.ext = Poly.const(0)
                sh.fresh = True
                st.shapes[p] = sh
            return
        if ls.get('kind') == 'ParenExpr':
            return self.alloc_store(node, strip(ls), ext, st, realloc)
        if ls.get('kind') == 'MemberExpr':
            cont = kids(ls)[0]
            ct = ctype_of(cont) if ls.get('isArrow') else self._lv_ctype(cont)
            p = self.cpath(cont, st) if ls.get('isArrow') else self.cpath_lv(cont, st)
            if ct and p and ls.get('name') == PTR_ARRAY_FIELD.get(ct, 'data'):
                sh = self.shape(st, p, ct)
                if ct in ('dvector', 'uivector', 'ivector'):
                    oldw = [(Poly.const(0), sh.f['size'])] if (realloc and not sh.fresh) else []
                    if realloc and (p, 'vec') in st.fresh:
                        oldw = list(st.fresh[(p, 'vec')]['w'])
                    st.fresh[(p, 'vec')] = {'p': p, 'lo': None, 'hi': None, 'ext': ext, 'w': oldw, 'unknown': False,
                                            'where': self.f.unit.where(node)}
                sh.ext = ext
                sh.freed = False
                if not realloc:
                    sh.rows, sh.slots = [], []
                    for k_ in [k_ for k_, v_ in st.fresh.items() if v_['p'] == p and v_['lo'] is not None]:
                        del st.fresh[k_]
                return
            if ct and p and ls.get('name') == 'data':
                sh = self.shape(st, p, ct)
                if ct in ('dvector', 'uivector', 'ivector'):
                    oldw = [(Poly.const(0), sh.f['size'])] if (realloc and not sh.fresh) else []
                    if realloc and (p, 'vec') in st.fresh:
                        oldw = list(st.fresh[(p, 'vec')]['w'])
                    st.fresh[(p, 'vec')] = {'p': p, 'lo': None, 'hi': None, 'ext': ext, 'w': oldw, 'unknown': False,
                                            'where': self.f.unit.where(node)}
                sh.ext = ext
                sh.freed = False
                return
            # fresh container object stored in a struct field: X->f = xmalloc(sizeof(T))
            return
        if ls.get('kind') == 'ArraySubscriptExpr':
            # row allocation  X->data[i] = xmalloc(sizeof(double)*E)
            b = strip(kids(ls)[0])
            if b.get('kind') == 'MemberExpr' and b.get('name') == 'data':
                cont = kids(b)[0]
                ct = ctype_of(cont) if b.get('isArrow') else self._lv_ctype(cont)
                p = self.cpath(cont, st) if b.get('isArrow') else self.cpath_lv(cont, st)
                if ct == 'matrix' and p:
                    self.subscript(ls, st)
                    idx = self.ev(kids(ls)[1], st)
                    shx = self.shape(st, p, 'matrix')
                    oldw = []
                    if realloc:
                        oe = None
                        fk = (p, repr(idx), repr(idx + 1))
                        if fk in st.fresh:
                            oldw = list(st.fresh[fk]['w'])
                        else:
                            covering = [v_ for v_ in st.fresh.values() if v_['p'] == p and v_['lo'] is not None and
                                        prove_nonneg(idx - v_['lo'], st.facts + self.pre, equalities=st.eqs) and
                                        prove_nonneg(v_['hi'] - idx - 1, st.facts + self.pre, equalities=st.eqs)]
                            if covering:
                                oldw = list(covering[-1]['w'])
                            else:
                                oldw = [(Poly.const(0), shx.f['col'])]     # an entry row: all cells below col are initialised
                    st.fresh[(p, repr(idx), repr(idx + 1))] = {'p': p, 'lo': idx, 'hi': idx + 1, 'ext': ext, 'w': oldw, 'unknown': False,
                                                               'where': self.f.unit.where(node)}
                    st.iter_rows[(p, repr(idx))] = ext
                    sh = self.shape(st, p, 'matrix')
                    sh.rows = [r for r in sh.rows if not (repr(r[0]) == repr(idx) and repr(r[1]) == repr(idx + 1))] + [(idx, idx + 1, ext)]
                    return
                if ct == 'strvector' and p:
                    self.subscript(ls, st)
                    self.slot_store(ls, None, st)
                    return
            self.visit(ls, st)

    # ---- calls -------------------------------------------------------------------------
    def call(self, e, st):
        cn = callee_name(e)
        a = call_args(e)
        for x in a:
            self.visit(x, st)
        if cn in ('xfree', 'free') and a:
            self.free(e, a[0], st)
            return
        if st.fresh and hasattr(self.ck, 'cell_effects'):
            self.ck.cell_effects(self, e, cn, a, st)
        self.ck.apply_call(self, e, cn, a, st)

    def note_cell(self, st, p, r, c):
        """cell (r,c) / interval c=(a,b) of container p is written (r None: vector)"""
        iv = c if isinstance(c, tuple) else (c, c + 1)
        if r is None:
            if (p, 'vec') in st.fresh:
                st.fresh[(p, 'vec')]['w'].append(iv)
        else:
            fk = (p, repr(r), repr(r + 1))
            if fk in st.fresh:
                st.fresh[fk]['w'].append(iv)
        st.iter_cells.append((p, r, c))

    def free(self, node, arg, st):
        s = strip(arg)
        if s.get('kind') == 'DeclRefExpr' and not ctype_of(arg):
            nm = self.vname(s['referencedDecl'])
            if nm in st.freed_raw:
                self.flag(node, 'double-free', 'buffer %s is freed twice' % nm, st)
            st.freed_raw.add(nm)
            return
        ct = ctype_of(arg)
        if ct:
            p = self.cpath(arg, st)
            if p:
                sh = self.shape(st, p, ct)
                if sh.freed is True:
                    self.flag(node, 'double-free', 'container %s is freed twice' % p, st)
                sh.freed = True
            return
        if s.get('kind') == 'MemberExpr' and s.get('name') in ('data', 'm', 'd'):
            cont = kids(s)[0]
            ct = ctype_of(cont) if s.get('isArrow') else self._lv_ctype(cont)
            p = self.cpath(cont, st) if s.get('isArrow') else self.cpath_lv(cont, st)
            if ct and p:
                sh = self.shape(st, p, ct)
                # freeing the primary array: later subscripts through it are use-after-free until re-assigned
                sh.ext = Poly.const(0)
                sh.rows, sh.slots = [], []
                sh.freed = False
                st.shapes[p] = sh
                sh2 = sh
                sh2.freed = 'data'
            return
        # xfree(X->data[i]) : row freed; rows are re-assigned before use in every idiom of the library
        return

    # ---- conditions --------------------------------------------------------------------
    def cond_alts(self, c, positive, st):
        """DNF: list of (facts, effects) alternatives under which (c == positive).  effects: list of callables(st)"""
        c = strip(c)
        k = c.get('kind')
        if k == 'UnaryOperator' and c.get('opcode') == '!':
            return self.cond_alts(kids(c)[0], not positive, st)
        if k == 'BinaryOperator':
            op = c.get('opcode')
            a, b = kids(c)
            if op in ('&&', '||'):
                conj = (op == '&&') == positive
                A, B = self.cond_alts(a, positive, st), self.cond_alts(b, positive, st)
                if conj:
                    return [(fa + fb, ea + eb) for fa, ea in A for fb, eb in B][:16]
                return (A + B)[:16]
            if op in ('<', '<=', '>', '>=', '==', '!='):
                sa, sb = strip(a, casts=False), strip(b, casts=False)
                # null tests on a container's storage: X->data == NULL
                for x, y in ((a, b), (b, a)):
                    xs = strip(x)
                    if xs.get('kind') == 'MemberExpr' and xs.get('name') in ('data', 'm', 'd') and self.is_null(y):
                        cont = kids(xs)[0]
                        ct = ctype_of(cont) if xs.get('isArrow') else self._lv_ctype(cont)
                        p = self.cpath(cont, st) if xs.get('isArrow') else self.cpath_lv(cont, st)
                        if ct and p and op in ('==', '!='):
                            isnull = (op == '==') == positive
                            if isnull:
                                sh = self.shape(st, p, ct)
                                first = CONTAINER[ct][0]
                                return [([-(sh.f[first])] + [-(sh.f[f_]) for f_ in CONTAINER[ct][1:]] if not sh.fresh else [],
                                         [lambda s, p=p, ct=ct: self.set_null(s, p, ct)])]
                            return [([], [])]
                for x, y in ((a, b), (b, a)):
                    xs = strip(x)
                    if xs.get('kind') == 'ArraySubscriptExpr' and self.is_null(y) and op in ('==', '!='):
                        bx = strip(kids(xs)[0])
                        if bx.get('kind') == 'MemberExpr' and bx.get('name') in ('m', 'd'):
                            cont = kids(bx)[0]
                            ct = ctype_of(cont) if bx.get('isArrow') else self._lv_ctype(cont)
                            p = self.cpath(cont, st) if bx.get('isArrow') else self.cpath_lv(cont, st)
                            if ct in ('tensor', 'dvectorlist') and p:
                                nonnull = (op == '!=') == positive
                                idx = self.ev(kids(xs)[1], st)
                                if nonnull:
                                    return [([], [lambda s, p=p, ct=ct, idx=idx: self.mark_valid_slot(s, p, ct, idx)])]
                                return [([], [])]
                if fe.is_float_type(sa) or fe.is_float_type(sb) or '*' in fe.qual(sa) or '*' in fe.qual(sb):
                    return [([], [])]
                pa, pb = self.ev(a, st), self.ev(b, st)
                if not positive:
                    op = {'<': '>=', '<=': '>', '>': '<=', '>=': '<', '==': '!=', '!=': '=='}[op]
                if op == '<':
                    return [([pb - pa - 1], [])]
                if op == '<=':
                    return [([pb - pa], [])]
                if op == '>':
                    return [([pa - pb - 1], [])]
                if op == '>=':
                    return [([pa - pb], [])]
                if op == '==':
                    return [([pa - pb, pb - pa], [lambda s, pa=pa, pb=pb: self.learn_eq(s, pa, pb)])]
                if op == '!=':
                    return [([pb - pa - 1], []), ([pa - pb - 1], [])]
        if k == 'CallExpr' or fe.is_float_type(c):
            return [([], [])]
        if '*' in fe.qual(strip(c, casts=False)):
            return [([], [])]
        # truth value of an integer
        p = self.ev(c, st)
        if positive:
            return [([p - 1], [])] if not (p.atoms() & st.signed) else [([], [])]
        return [([-p, p], [lambda s, p=p: self.learn_eq(s, p, Poly.const(0))])]

    def is_null(self, e):
        s = strip(e)
        return fe.int_value(s) == 0 or (s.get('kind') == 'GNUNullExpr')

    def mark_valid_slot(self, st, p, ct, idx):
        sh = self.shape(st, p, ct)
        if sh.nullslots:
            sh.slots = sh.slots + [(idx, idx + 1)]
            st.iter_slots[(p, repr(idx))] = True

    def set_null(self, st, p, ct):
        sh = self.shape(st, p, ct)
        sh.ext = Poly.const(0)
        sh.rows, sh.slots = [], []

    def learn_eq(self, st, pa, pb):
        """record an orientable equality for substitution: prefer eliminating loop/local atoms"""
        d = pa - pb
        cands = []
        for v in d.atoms():
            c = d.coeff(v)
            if c is not None and c.const_value() in (1, -1):
                rest = -(d - Poly.atom(v) * c.const_value()) * c.const_value()
                if v not in rest.atoms():
                    cands.append((0 if '@' in v else (1 if not v.startswith('$') else 2), v, rest))
        if cands:
            cands.sort(key=lambda x: (x[0], x[1]))
            _, v, rest = cands[0]
            if v not in st.eqs and not v.startswith('?'):
                st.eqs[v] = rest.subst(st.eqs)
                for k_ in list(st.eqs):
                    if k_ != v:
                        st.eqs[k_] = st.eqs[k_].subst({v: st.eqs[v]})

    def split(self, c, st):
        """[(state, True|False)] successors of a condition"""
        if not hasattr(self, '_nulltest_nodes'):
            self._nulltest_nodes = set()
        for x in walk(c):
            if x.get('kind') == 'BinaryOperator' and x.get('opcode') in ('==', '!='):
                a_, b_ = kids(x)
                for u, w in ((a_, b_), (b_, a_)):
                    if self.is_null(w) and strip(u).get('kind') == 'ArraySubscriptExpr':
                        self._nulltest_nodes.add(id(strip(u)))
        self.visit(c, st)
        out = []
        for pol in (True, False):
            for facts, effs in self.cond_alts(c, pol, st):
                s2 = st.copy()
                ok = True
                for f in facts:
                    if not s2.add_fact(f):
                        ok = False
                        break
                if ok:
                    for eff in effs:
                        eff(s2)
                    if self.feasible(s2):
                        out.append((s2, pol))
        return out

    def feasible(self, st, nnew=3):
        """search a contradiction: a sum of <= 3 facts (at least one of the newest) that is syntactically negative"""
        facts = st.facts
        if not facts:
            return True
        new = facts[-nnew:]

        def neg(p):
            return all(v <= 0 for v in p.t.values()) and p.t.get((), 0) < 0 and not (p.atoms() & st.signed)
        for f in new:
            if neg(f):
                return False
            fa = f.atoms()
            rel = [g for g in facts if g is not f and g.atoms() & fa][:30]
            for g in rel:
                s2 = f + g
                if neg(s2):
                    return False
                sa = s2.atoms()
                for h in facts:
                    if h is f or h is g or not (h.atoms() & sa):
                        continue
                    if neg(s2 + h):
                        return False
        return True

    # ---- statements --------------------------------------------------------------------
    def run(self):
        st = St()
        for i, p in enumerate(self.f.params):
            t = (p.get('type') or {}).get('qualType', '')
            if t in ('int', 'long', 'short', 'ssignal', 'char') or (p.get('type') or {}).get('desugaredQualType') in ('int', 'long'):
                st.signed.add('$%d' % i)
        for n in walk(self.f.body):
            if n.get('kind') == 'VarDecl':
                t = (n.get('type') or {})
                if (t.get('desugaredQualType') or t.get('qualType')) in ('int', 'long', 'short', 'char'):
                    pass
        for i, p in enumerate(self.f.params):
            t = (p.get('type') or {}).get('qualType', '')
            if t.count('*') == 1 and t.replace('*', '').replace('const', '').strip() in ('double', 'int', 'size_t', 'float', 'unsigned int', 'long'):
                st.raw['$%d' % i] = Poly.atom('ext($%d)' % i)
        if getattr(self, 'entry_tweak', None):
            self.entry_tweak(self, st)
        flows = self.exec(self.f.body, [st])
        self.exit_states = flows['norm'] + flows['ret']
        return self

    def merge(self, states):
        """drop duplicate disjuncts; beyond LOSSY_AT disjuncts join those with identical values/shapes by intersecting
        their fact sets (such a state is marked lossy: obligations in it can be PROVED but never REFUTED)"""
        seen = {}
        out = []
        for s in states:
            k = (s.sig(), frozenset(repr(f) for f in s.facts), s.lossy)
            if k not in seen:
                seen[k] = s
                out.append(s)
        if len(out) > LOSSY_AT:
            groups, order = {}, []
            for s in out:
                k = s.sig()
                if k in groups:
                    g = groups[k]
                    keep = {repr(f) for f in s.facts}
                    if keep != {repr(f) for f in g.facts}:
                        g.lossy = True
                    g.facts = [f for f in g.facts if repr(f) in keep]
                    g.eqs = {a: b for a, b in g.eqs.items() if a in s.eqs and s.eqs[a] == b}
                    g.signed |= s.signed
                    g.overflow = g.overflow or s.overflow
                    g.lossy = g.lossy or s.lossy
                else:
                    groups[k] = s
                    order.append(k)
            out = [groups[k] for k in order]
        self.nstates_peak = max(self.nstates_peak, len(out))
        if len(out) > MAX_STATES:
            out = out[:MAX_STATES]
            for s in out:
                s.overflow = True
        return out

    def exec(self, s, states):
        flows = {'norm': [], 'brk': [], 'cont': [], 'ret': []}
        if s is None or not s.get('kind') or not states:
            flows['norm'] = states
            return flows
        k = s['kind']
        if k == 'CompoundStmt':
            cur = states
            for x in kids(s):
                if not cur:
                    break
                f2 = self.exec(x, cur)
                for t in ('brk', 'cont', 'ret'):
                    flows[t] += f2[t]
                cur = f2['norm']
            flows['norm'] = cur
            return flows
        if k == 'IfStmt':
            c, t, e = flow.if_parts(s)
            tin, ein = [], []
            for st in states:
                for s2, pol in self.split(c, st):
                    (tin if pol else ein).append(s2)
            ft = self.exec(t, self.merge(tin))
            fe_ = self.exec(e, self.merge(ein)) if e is not None else {'norm': self.merge(ein), 'brk': [], 'cont': [], 'ret': []}
            for kk in flows:
                flows[kk] = ft[kk] + fe_[kk]
            flows['norm'] = self.merge(flows['norm'])
            return flows
        if k in flow.LOOPS:
            return self.exec_loop(s, states)
        if k == 'SwitchStmt':
            return self.exec_switch(s, states)
        if k == 'ReturnStmt':
            for st in states:
                for c in kids(s):
                    self.visit(c, st)
            flows['ret'] = states
            return flows
        if k == 'BreakStmt':
            flows['brk'] = states
            return flows
        if k == 'ContinueStmt':
            flows['cont'] = states
            return flows
        if k == 'DeclStmt':
            out = []
            for st in states:
                cur = [st]
                for v in kids(s):
                    if v.get('kind') != 'VarDecl':
                        continue
                    init = strip(kids(v)[-1]) if kids(v) else {}
                    qt = (v.get('type') or {}).get('qualType', '')
                    if init.get('kind') == 'ConditionalOperator' and '*' not in qt and qt not in ('double', 'float') and '[' not in qt:
                        c, a_, b_ = kids(init)
                        nxt = []
                        for s0 in cur:
                            for s2, pol in self.split(c, s0):
                                br = a_ if pol else b_
                                self.visit(br, s2)
                                s2.vals[self.vname(v)] = self.ev(br, s2)
                                nxt.append(s2)
                        cur = nxt
                    else:
                        for s0 in cur:
                            self.decl(v, s0)
                out += cur
            flows['norm'] = self.merge(out)
            return flows
        if flow.is_noreturn_call(s):
            for st in states:
                for a in call_args(strip(s)):
                    self.visit(a, st)
            return flows
        s0_ = strip(s)
        if s0_.get('kind') == 'BinaryOperator' and s0_.get('opcode') == '=' and strip(kids(s0_)[1]).get('kind') == 'ConditionalOperator' \
                and not fe.is_float_type(strip(kids(s0_)[0])) and '*' not in fe.qual(strip(kids(s0_)[0])):
            #  lhs = c ? a : b   on integers: one state per arm (same treatment as the initialiser form above)
            c_, a_, b_ = kids(strip(kids(s0_)[1]))
            out = []
            for st in states:
                for s2, pol in self.split(c_, st):
                    arm = a_ if pol else b_
                    synth = dict(s0_)
                    synth['inner'] = [kids(s0_)[0], arm]
                    self.visit(synth, s2)
                    out.append(s2)
            flows['norm'] = self.merge(out)
            return flows
        for st in states:
            self.visit(s, st)
        flows['norm'] = states
        return flows

    def exec_switch(self, s, states):
        """switch with fall-through: every label is an entry point; execution runs on to the next break"""
        flows = {'norm': [], 'brk': [], 'cont': [], 'ret': []}
        ks = kids(s)
        cond, body = ks[0], ks[-1]
        items = []          # (labels at this position, statement)
        for stmt in (kids(body) if body.get('kind') == 'CompoundStmt' else [body]):
            labels = []
            while stmt.get('kind') in ('CaseStmt', 'DefaultStmt'):
                if stmt['kind'] == 'CaseStmt':
                    labels.append(fe.int_value(kids(stmt)[0]))
                    stmt = kids(stmt)[-1]
                else:
                    labels.append('default')
                    stmt = kids(stmt)[-1] if kids(stmt) else {}
            items.append((labels, stmt))
        values = [l for ls, _ in items for l in ls if l != 'default' and l is not None]
        has_default = any('default' in ls for ls, _ in items)
        out_norm = []
        for st in states:
            self.visit(cond, st)
            cv = None if fe.is_float_type(strip(cond, casts=False)) else self.ev(cond, st)
            entries = []
            for pos, (labels, _) in enumerate(items):
                for l in labels:
                    s2 = st.copy()
                    ok = True
                    if l != 'default' and l is not None and cv is not None:
                        ok = s2.add_fact(cv - l) and s2.add_fact(Poly.const(l) - cv)
                        if ok:
                            self.learn_eq(s2, cv, Poly.const(l))
                    if ok and self.feasible(s2):
                        entries.append((pos, s2))
            if not has_default:
                out_norm.append(st.copy())        # no label matches
            for pos, s2 in entries:
                cur = [s2]
                for (_, stmt) in items[pos:]:
                    if not cur:
                        break
                    f2 = self.exec(stmt, cur)
                    out_norm += f2['brk']           # break leaves the switch
                    flows['cont'] += f2['cont']
                    flows['ret'] += f2['ret']
                    cur = f2['norm']
                out_norm += cur
        flows['norm'] = self.merge(out_norm)
        return flows

    def decl(self, v, st):
        nm = self.vname(v)
        t = v.get('type') or {}
        qt = t.get('qualType', '')
        m = re.match(r'(.*)\[(.*)\]$', qt)
        ks = kids(v)
        if v.get('kind') == 'VarDecl' and '[' in qt:
            # VLA / fixed array: the size expression is the first child for VLAs
            size = None
            m2 = re.search(r'\[(\d+)\]', qt)
            if m2:
                size = Poly.const(int(m2.group(1)))
            else:
                for c in ks:
                    if not fe.is_float_type(c):
                        size = self.ev(c, st)
                        self.visit(c, st)
                        break
            if size is not None:
                st.raw[nm] = size
            return
        if not ks:
            return
        init = ks[-1]
        if (t.get('desugaredQualType') or qt) in ('int', 'long', 'short'):
            pass
        si = strip(init)
        if si.get('kind') == 'CallExpr' and callee_name(si) in ('xmalloc', 'malloc', 'xrealloc', 'calloc'):
            for a in call_args(si):
                self.visit(a, st)
            ext = self.alloc_extent(si, st)
            if ext is not None:
                st.raw[nm] = ext
            return
        self.visit(init, st)
        ct = ctype_of(init) if '*' in qt else None
        if ct and si.get('kind') != 'CallExpr':
            rp = self.cpath(init, st)
            if rp:
                st.alias[nm] = rp
            return
        if ct and si.get('kind') == 'CallExpr':
            self.ck.apply_return(self, si, nm, ct, st)
            return
        if '*' in qt or fe.is_float_type(v) or qt in ('double', 'float'):
            return
        st.vals[nm] = self.ev(init, st)
        if getattr(self.ck, 'check_wrap', False) and si.get('kind') == 'BinaryOperator' and si.get('opcode') == '-':
            dq = (t.get('desugaredQualType') or qt)
            if dq.startswith('unsigned') or qt in ('size_t',):
                # an unsigned difference that may be negative wraps to a huge value
                self.oblige(v, 'wrap', Poly.const(0), st.vals[nm] + 1, st, text='%s %s = %s' % (qt, v.get('name'), self.f.unit.text(si)[:60]))

    # ---- loops -------------------------------------------------------------------------
    def exec_loop(self, loop, states):
        flows = {'norm': [], 'brk': [], 'cont': [], 'ret': []}
        init, cond, inc, body = flow.loop_parts(loop)
        line = fe.node_line(loop) or 0
        out_norm = []
        from .loopterm import iteration_deltas
        for st0 in states:
            st = st0
            if init is not None:
                f0 = self.exec(init, [st]) if init.get('kind') == 'DeclStmt' else None
                if f0 is None:
                    self.visit(init, st)
            ind = self.induction(loop, st)
            assigned = self.assigned_ints(loop)
            mods = self.ck.loop_container_mods(self, loop, st)
            head = st.copy()
            head.iter_rows = {}
            head.iter_slots = {}
            head.iter_cells = []
            ivar = ind['var'] if ind else None
            range_facts = self.range_facts(loop, st, assigned, ind, line)
            for v in assigned:
                if v == ivar:
                    continue
                head.vals[v] = Poly.atom('?%s@L%d' % (v, line))
                for mk in range_facts.get(v, []):
                    head.add_fact(mk(head.vals[v]))
            for (p, ct, what) in mods:
                self.havoc_fields(head, p, ct, what, 'L%d' % line)
            loop_stores = any((is_assign(x) or is_incdec(x)) and strip(kids(x)[0]).get('kind') == 'ArraySubscriptExpr' or x.get('kind') == 'CallExpr'
                              for x in walk(loop))
            skip = None
            if ind:
                ia = '%s@L%d' % (ivar, line)
                head.vals[ivar] = Poly.atom(ia)
                if ind['signed']:
                    head.signed.add(ia)
                step = ind['step'].const_value()
                if step is not None and step > 0:
                    head.add_fact(Poly.atom(ia) - ind['init'])
                elif step is not None and step < 0:
                    head.add_fact(ind['init'] - Poly.atom(ia))
                # counters: variables whose change per iteration is a loop-invariant polynomial
                counters = {}
                if step == 1:
                    for v in assigned:
                        if v == ivar or v not in st.vals:
                            continue
                        dp = self.delta_poly(body, v, st, assigned | {ivar})
                        if dp is not None:
                            counters[v] = dp
                            head.vals[v] = st.vals[v] + (Poly.atom(ia) - ind['init']) * dp
                    # containers appended to exactly once per iteration
                    appended = self.append_counters(body, st)
                    for (p_, ct_) in appended:
                        sh0 = self.shape(st, p_, ct_)
                        first = CONTAINER[ct_][0]
                        hs = Shape(ct_)
                        hs.f = {first: sh0.f[first] + (Poly.atom(ia) - ind['init'])}
                        hs.ext = hs.f[first]
                        if ct_ in ('strvector', 'dvectorlist', 'tensor'):
                            hs.slots = [(Poly.const(0), hs.f[first])]
                        head.shapes[p_] = hs
                    skip = self.skip_one(loop, ind, st, assigned)
            heads = [head]
            if skip:
                kvar, P = skip
                heads = []
                for rel_, kval in (('lt', st.vals[kvar] + (Poly.atom(ia) - ind['init'])),
                                   ('gt', st.vals[kvar] + (Poly.atom(ia) - ind['init']) - 1),
                                   ('eq', Poly.atom('?%s@L%d' % (kvar, line)))):
                    h2 = head.copy()
                    h2.vals[kvar] = kval
                    ok_ = True
                    if rel_ == 'lt':
                        ok_ = h2.add_fact(P - Poly.atom(ia) - 1)
                    elif rel_ == 'gt':
                        ok_ = h2.add_fact(Poly.atom(ia) - P - 1) and h2.add_fact(P - ind['init'])
                    else:
                        ok_ = h2.add_fact(Poly.atom(ia) - P) and h2.add_fact(P - Poly.atom(ia))
                    if ok_:
                        heads.append(h2)
            # enter the body under the loop condition
            bodies = []
            if cond is not None and loop['kind'] != 'DoStmt':
                for h_ in heads:
                    for s2, pol in self.split(cond, h_):
                        if pol:
                            bodies.append(s2)
            else:
                bodies = heads
            fb = self.exec(body, self.merge(bodies))
            after = fb['norm'] + fb['cont']
            if inc is not None:
                for s2 in after:
                    self.visit(inc, s2.copy())
            if loop['kind'] == 'DoStmt' and cond is not None:
                for s2 in after:
                    self.visit(cond, s2.copy())
            flows['ret'] += fb['ret']
            # ---- exit states
            exits = []
            fold_zero = bool(ind and after and cond is not None and ind['step'].const_value() == 1 and ind['op'] == '<' and
                             prove_nonneg(ind['bound'] - ind['init'], st.facts + self.pre, equalities=st.eqs) and not skip)
            if loop['kind'] != 'DoStmt' and not fold_zero:
                z = st.copy()
                if ind:
                    z.vals[ivar] = ind['init']
                if cond is not None:
                    for s2, pol in self.split(cond, z):
                        if not pol:
                            exits.append(s2)
                else:
                    pass
            # after >= 1 iterations
            post = st.copy()
            for v in assigned:
                if v != ivar:
                    post.vals[v] = Poly.atom('?%s!L%d' % (v, line))
                    for mk in range_facts.get(v, []):
                        post.add_fact(mk(post.vals[v]))
            for (p, ct, what) in mods:
                self.havoc_fields(post, p, ct, what, 'X%d' % line)
            reach_post = bool(after) or loop['kind'] == 'DoStmt'
            counters = locals().get('counters', {}) if ind else {}
            appended = locals().get('appended', []) if ind else []
            if ind and cond is not None:
                xa = '%s!L%d' % (ivar, line)
                step = ind['step'].const_value()
                if step == 1 and ind['op'] == '<':
                    post.vals[ivar] = ind['bound']
                    ok = True if fold_zero else post.add_fact(ind['bound'] - ind['init'] - 1)
                    reach_post = reach_post and ok
                elif step == 1 and ind['op'] == '<=':
                    post.vals[ivar] = ind['bound'] + 1
                    reach_post = reach_post and post.add_fact(ind['bound'] - ind['init'])
                else:
                    post.vals[ivar] = Poly.atom(xa)
                    if ind['signed']:
                        post.signed.add(xa)
                if step == 1:
                    for v, dp in counters.items():
                        post.vals[v] = st.vals[v] + (post.vals[ivar] - ind['init']) * dp
                    for (p_, ct_) in appended:
                        sh0 = self.shape(st, p_, ct_)
                        first = CONTAINER[ct_][0]
                        hs = Shape(ct_)
                        hs.f = {first: sh0.f[first] + (post.vals[ivar] - ind['init'])}
                        hs.ext = hs.f[first]
                        if ct_ in ('strvector', 'dvectorlist', 'tensor'):
                            hs.slots = [(Poly.const(0), hs.f[first])]
                        post.shapes[p_] = hs
                    if skip:
                        kvar, P = skip
                        # P inside the range: one iteration skipped; outside: none
                        p_in = post.copy()
                        if p_in.add_fact(post.vals[ivar] - P - 1) and p_in.add_fact(P - ind['init']):
                            p_in.vals[kvar] = st.vals[kvar] + (post.vals[ivar] - ind['init']) - 1
                            if reach_post and after:
                                exits.append(p_in)
                        if post.add_fact(P - post.vals[ivar]):
                            post.vals[kvar] = st.vals[kvar] + (post.vals[ivar] - ind['init'])
                        else:
                            reach_post = False
                # generalise per-iteration row / slot assignments made on every path through the body
                self.generalise(loop, ind, after, post, line)
            elif cond is not None and after:
                tmp = []
                for s2, pol in self.split(cond, post):
                    if not pol:
                        tmp.append(s2)
                post = None
                exits += tmp
            if post is not None and reach_post and after:
                exits.append(post)
            # break exits keep the body state
            for b in fb['brk']:
                b2 = b.copy()
                b2.iter_rows, b2.iter_slots = dict(st.iter_rows), dict(st.iter_slots)
                if b2.fresh and loop_stores:
                    for v_ in b2.fresh.values():     # earlier iterations' stores are not described in a body state
                        v_['unknown'] = True
                b2.iter_cells = list(st.iter_cells)
                exits.append(b2)
            if not ind and loop_stores:
                for e2 in exits:
                    for v_ in e2.fresh.values():
                        v_['unknown'] = True
            out_norm += exits
        flows['norm'] = self.merge(out_norm)
        return flows

    def range_facts(self, loop, st, assigned, ind, line):
        """facts that hold for the havocked value x of a variable v at every point of the loop and after it:
        {v: [callable(x) -> Poly >= 0]}.
        (a) v only ever assigned the loop's induction variable (argmax / pivot idiom): x <= max(v0, bound-1), so x < bound when v0 < bound;
        (b) v only decremented (resp. incremented) by constants: x <= v0 (resp. x >= v0)."""
        from .loopterm import iteration_deltas
        out = {}
        init, cond, inc, body = flow.loop_parts(loop)
        for v in assigned:
            if ind and v == ind['var']:
                continue
            v0 = st.vals.get(v)
            rhs = []
            ok = True
            for x in walk(loop):
                if is_assign(x) and x.get('opcode') == '=':
                    t = strip(kids(x)[0])
                    if t.get('kind') == 'DeclRefExpr' and self.vname(t['referencedDecl']) == v:
                        rhs.append(strip(kids(x)[1]))
                elif (is_assign(x) or is_incdec(x)):
                    t = strip(kids(x)[0])
                    if t.get('kind') == 'DeclRefExpr' and self.vname(t['referencedDecl']) == v:
                        ok = False
            facts = []
            if ok and rhs and ind and v0 is not None and ind['op'] == '<' and all(
                    r.get('kind') == 'DeclRefExpr' and self.vname(r['referencedDecl']) == ind['var'] for r in rhs):
                if prove_nonneg(ind['bound'] - 1 - v0, st.facts + self.pre, equalities=st.eqs):
                    b = ind['bound']
                    facts.append(lambda x, b=b: b - 1 - x)
            if v0 is not None and not rhs:
                try:
                    dl = iteration_deltas(loop, self.rawname(v))
                except Exception:
                    dl = {None}
                if dl and None not in dl:
                    if all(d <= 0 for d in dl):
                        facts.append(lambda x, v0=v0: v0 - x)
                    elif all(d >= 0 for d in dl):
                        facts.append(lambda x, v0=v0: x - v0)
            if facts:
                out[v] = facts
        return out

    def delta_poly(self, stmt, v, st, assigned):
        """change of integer variable v caused by executing stmt once, as a loop-invariant Poly; None if unknown"""
        from .loopterm import expr_delta
        if stmt is None or not stmt.get('kind'):
            return Poly.const(0)
        k = stmt['kind']
        raw = self.rawname(v)
        if k == 'CompoundStmt':
            tot = Poly.const(0)
            for x in kids(stmt):
                d = self.delta_poly(x, v, st, assigned)
                if d is None:
                    return None
                tot = tot + d
            return tot
        if k == 'IfStmt':
            c, t, e = flow.if_parts(stmt)
            dc = expr_delta(c, raw)
            a = self.delta_poly(t, v, st, assigned)
            b = self.delta_poly(e, v, st, assigned) if e is not None else Poly.const(0)
            if dc is None or a is None or b is None or a != b:
                return None
            if flow.exits(t) or (e is not None and flow.exits(e)):
                return None
            return a + dc
        if k in ('BreakStmt', 'ContinueStmt', 'ReturnStmt'):
            return None if v in assigned else Poly.const(0)
        if k == 'ForStmt':
            if v not in self.assigned_ints(stmt):
                return Poly.const(0)
            ind = flow.induction(stmt)
            init, cond, inc, body = flow.for_parts(stmt)
            if not ind or ind['step'] != Poly.const(1) or ind['op'] != '<':
                return None
            inner = self.delta_poly(body, v, st, assigned)
            if inner is None:
                return None
            # trip count = bound - init evaluated in the enclosing state; must not depend on assigned variables
            names = self.names_in(ind['bound_expr'])
            if names & assigned:
                return None
            try:
                bound = self.ev(ind['bound_expr'], st)
                i_s = strip(init)
                a0 = self.ev(kids(i_s)[1], st) if i_s.get('kind') == 'BinaryOperator' else None
            except Exception:
                return None
            if a0 is None or any(x.startswith('?') for x in (bound - a0).atoms()):
                return None
            if any(flow.exits(x) for x in walk(body) if x.get('kind') in ('BreakStmt',)):
                return None
            return (bound - a0) * inner
        if k in ('WhileStmt', 'DoStmt'):
            return None if v in self.assigned_ints(stmt) else Poly.const(0)
        if k == 'DeclStmt':
            tot = 0
            for d in kids(stmt):
                for c in kids(d):
                    x = expr_delta(c, raw)
                    if x is None:
                        return None
                    tot += x
            return Poly.const(tot)
        d = expr_delta(stmt, raw)
        return None if d is None else Poly.const(d)

    def append_counters(self, body, st):
        """containers that receive exactly one *Append call per iteration, at the top level of the loop body,
        and are not otherwise reshaped in the loop"""
        if body is None:
            return []
        top = kids(body) if body.get('kind') == 'CompoundStmt' else [body]
        counts = {}
        for s_ in top:
            e = strip(s_)
            if e.get('kind') == 'CallExpr' and re.match(r'^(DVector|UIVector|IVector|StrVector)Append(Int|Double)?$|^DVectorListAppend$', callee_name(e) or ''):
                a = call_args(e)
                p_ = self.container_arg(a[0], st)
                ct_ = ctype_of(a[0])
                if p_ and ct_:
                    counts[(p_, ct_)] = counts.get((p_, ct_), 0) + 1
        out = []
        for (p_, ct_), n in counts.items():
            if n != 1:
                continue
            others = 0
            for x in walk(body):
                if x.get('kind') == 'CallExpr' and call_args(x):
                    cn = callee_name(x) or ''
                    if self.ck.SHAPE_CHANGERS.search(cn):
                        q = self.container_arg(call_args(x)[1 if cn.endswith('Copy') and len(call_args(x)) > 1 else 0], st)
                        if q == p_:
                            others += 1
            if others == 1:
                out.append((p_, ct_))
        return out

    def skip_one(self, loop, ind, st, assigned):
        """for(i...) { if(i == P) continue; else { ...; k++; } }  ->  (k, P)"""
        init, cond, inc, body = flow.loop_parts(loop)
        top = kids(body) if body.get('kind') == 'CompoundStmt' else [body]
        top = [x for x in top if x.get('kind')]
        if len(top) != 1 or top[0].get('kind') != 'IfStmt':
            return None
        c, t, e = flow.if_parts(top[0])
        cs = strip(c)
        if not (cs.get('kind') == 'BinaryOperator' and cs.get('opcode') in ('==', '!=')):
            return None
        a, b = kids(cs)
        names_a, names_b = self.names_in(a), self.names_in(b)
        if names_a == {ind['var']} and strip(a).get('kind') == 'DeclRefExpr':
            pe = b
        elif names_b == {ind['var']} and strip(b).get('kind') == 'DeclRefExpr':
            pe = a
        else:
            return None
        if self.names_in(pe) & assigned:
            return None
        skip_arm, work_arm = (t, e) if cs['opcode'] == '==' else (e, t)
        if work_arm is None:
            return None
        if skip_arm is not None and any(x.get('kind') not in ('ContinueStmt', 'CompoundStmt', 'NullStmt') for x in walk(skip_arm)):
            return None
        cands = [v for v in assigned if v != ind['var'] and v in st.vals and v in self.assigned_ints(work_arm)]
        for v in cands:
            dp = self.delta_poly(work_arm, v, st, assigned)
            if dp == Poly.const(1):
                return v, self.ev(pe, st)
        return None

    def rawname(self, v):
        """loopterm works on exprs.path_of names (name#id): map back"""
        for i, nm in self.lnames.items():
            if nm == v:
                return '%s#%s' % (v.split('~')[0], i)
        for i, nm in self.pnames.items():
            if nm == v:
                for p in self.f.params:
                    if p['id'] == i:
                        return '%s#%s' % (p['name'], i)
        return v

    def havoc_fields(self, st, p, ct, what, tag):
        sh = self.shape(st, p, ct)
        if what == 'all':
            self.havoc_shape(st, p, ct, tag)
        else:
            for fld in what:
                sh.f[fld] = Poly.atom('?%s->%s@%s' % (p, fld, tag))

    def generalise(self, loop, ind, after, post, line):
        if not after:
            return
        ia = '%s@L%d' % (ind['var'], line)
        common = None
        for s2 in after:
            keys = {k: v for k, v in s2.iter_rows.items() if k[1] == repr(Poly.atom(ia))}
            if common is None:
                common = keys
            else:
                common = {k: v for k, v in common.items() if k in keys and keys[k] == v}
        for (p, _), ext in (common or {}).items():
            if ia in ext.atoms() or any(a.startswith('?') for a in ext.atoms()):
                continue
            sh = post.shapes.get(p)
            if sh is None:
                continue
            hi_ = post.vals[ind['var']]
            sh.rows = [r for r in sh.rows if '@L%d' % line not in repr(r[0]) and not (repr(r[0]) == repr(ind['init']) and repr(r[1]) == repr(hi_))
                       and not (repr(r[0]) == repr(ind['init']) and prove_nonneg(hi_ - r[1], post.facts + self.pre, equalities=post.eqs))] + [(ind['init'], hi_, ext)]
        cs = None
        for s2 in after:
            keys = {k for k in s2.iter_slots if k[1] == repr(Poly.atom(ia))}
            cs = keys if cs is None else cs & keys
        for (p, _) in (cs or set()):
            sh = post.shapes.get(p)
            if sh is not None:
                sh.slots = [r for r in sh.slots if '@L%d' % line not in repr(r[0])] + [(ind['init'], post.vals[ind['var']])]
        self.generalise_cells(ind, ia, after, post, line)
        # a loop whose every iteration cleared a slot of a container with no valid slot leaves all slots NULL
        for p_, sh in post.shapes.items():
            if sh.ctype in ('tensor', 'dvectorlist') and not sh.slots and all(
                    (s2.shapes.get(p_) is not None and s2.shapes[p_].nullslots) for s2 in after):
                sh.nullslots = True
        # drop per-iteration single-row segments that mention the loop atom
        for sh in post.shapes.values():
            sh.rows = [r for r in sh.rows if '@L%d' % line not in (repr(r[0]) + repr(r[1]) + repr(r[2]))]
            sh.slots = [r for r in sh.slots if '@L%d' % line not in (repr(r[0]) + repr(r[1]))]

    def generalise_cells(self, ind, ia, after, post, line):
        """turn per-iteration cell stores / fresh rows into facts about whole index ranges"""
        A, B = ind['init'], post.vals[ind['var']]
        if ind['step'] != Poly.const(1) or ind['op'] != '<':
            for v_ in post.fresh.values():
                v_['unknown'] = True
            return
        iatom = Poly.atom(ia)

        def key_of(rec):
            p, r, c = rec
            return (p, repr(r), repr(c) if not isinstance(c, tuple) else (repr(c[0]), repr(c[1])))
        common = None
        recs = {}
        for s2 in after:
            ks = set()
            for rec in s2.iter_cells:
                k_ = key_of(rec)
                ks.add(k_)
                recs[k_] = rec
            common = ks if common is None else common & ks
        facts = post.facts + self.pre
        for k_ in sorted(common or (), key=repr):
            p, r, c = recs[k_]
            c_has = (not isinstance(c, tuple)) and ia in c.atoms()
            r_has = r is not None and ia in r.atoms()
            if not isinstance(c, tuple) and c == iatom and not r_has:
                # column loop: cells [A,B) of row r (or of the vector) are written
                if r is None:
                    if (p, 'vec') in post.fresh:
                        post.fresh[(p, 'vec')]['w'].append((A, B))
                else:
                    fk = (p, repr(r), repr(r + 1))
                    if fk in post.fresh:
                        post.fresh[fk]['w'].append((A, B))
                post.iter_cells.append((p, r, (A, B)))
            elif r is not None and r == iatom and not c_has and not (isinstance(c, tuple) and (ia in c[0].atoms() or ia in c[1].atoms())):
                # row loop: the interval is written in every row of [A,B)
                iv = c if isinstance(c, tuple) else (c, c + 1)
                for fk, v_ in post.fresh.items():
                    if v_['p'] != p or v_['lo'] is None:
                        continue
                    if prove_nonneg(v_['lo'] - A, facts, equalities=post.eqs) and prove_nonneg(B - v_['hi'], facts, equalities=post.eqs):
                        v_['w'].append(iv)
        # fresh per-iteration rows (lo == loop atom) become a segment [A,B) when every iteration wrote the same intervals
        keys = set()
        for s2 in after:
            keys |= {k_ for k_, v_ in s2.fresh.items() if v_['lo'] is not None and v_['lo'] == iatom}
        for k_ in sorted(keys, key=repr):
            holders = [s2 for s2 in after if k_ in s2.fresh]
            ref = max((s2.fresh[k_] for s2 in holders), key=lambda v_: len(v_['w']))
            agree = len(holders) == len(after)
            refset = {repr(iv_) for iv_ in ref['w']}
            for s2 in holders:
                cur = s2.fresh[k_]
                curset = {repr(iv_) for iv_ in cur['w']}
                if repr(cur['ext']) != repr(ref['ext']) or cur['where'] != ref['where'] or not curset <= refset:
                    agree = False
                    break
                for a_, b_ in ref['w']:
                    # an interval this path did not write must be empty on this path (a zero-trip inner loop)
                    if repr((a_, b_)) not in curset and not prove_nonneg(a_ - b_, s2.facts + self.pre, equalities=s2.eqs):
                        agree = False
                        break
                if not agree:
                    break
            w = ref['w']
            if any(ia in a_.atoms() or ia in b_.atoms() for a_, b_ in w) or ia in ref['ext'].atoms():
                agree = False
                w = []
            nk = (ref['p'], repr(A), repr(B))
            post.fresh[nk] = {'p': ref['p'], 'lo': A, 'hi': B, 'ext': ref['ext'], 'w': list(w) if agree else [], 'unknown': not agree,
                              'where': ref['where']}
        # entries that still mention the loop atom cannot be described after the loop
        for k_ in [k_ for k_, v_ in post.fresh.items() if v_['lo'] is not None and (ia in v_['lo'].atoms())]:
            del post.fresh[k_]
        post.iter_cells = [rec for rec in post.iter_cells if ia not in repr(rec)]

    def written_gaps(self, st, v_, upto, live=()):
        """is [0, upto) covered by the written intervals of a fresh entry?  -> ('proved'|'refuted'|'undecided', witness)"""
        facts = st.facts + self.pre
        cover = Poly.const(0)
        progress = True
        while progress:
            progress = False
            for a_, b_ in v_['w']:
                if repr(b_) != repr(cover) and prove_nonneg(cover - a_, facts, equalities=st.eqs) and prove_nonneg(b_ - cover, facts, equalities=st.eqs):
                    cover = b_
                    progress = True
        if prove_nonneg(cover - upto, facts, equalities=st.eqs):
            return 'proved', None
        if st.lossy or v_.get('unknown'):
            return 'undecided', None
        extra = [upto - 1] + list(live)
        if v_['lo'] is not None:
            extra.append(v_['hi'] - v_['lo'] - 1)

        def accept(val):
            # concrete coverage under the valuation
            try:
                iv = sorted((a_.eval(val), b_.eval(val)) for a_, b_ in v_['w'])
                need = upto.eval(val)
            except KeyError:
                return False
            cur = 0
            for a1, b1 in iv:
                if a1 <= cur:
                    cur = max(cur, b1)
            return cur < need
        atoms = set(upto.atoms())
        for a_, b_ in v_['w']:
            atoms |= a_.atoms() | b_.atoms()
        if any(x.startswith('?') for x in atoms):
            return 'undecided', None
        w = find_witness(upto - 1, facts + extra, dom=self.dom, opaque=lambda x: x.startswith('?') or x.startswith('sizeof'),
                         accept=accept, must_atoms=atoms)
        if isinstance(w, dict):
            return 'refuted', w
        return 'undecided', None

    def induction(self, loop, st):
        ind = flow.induction(loop)
        if not ind:
            return None
        init, cond, inc, body = flow.for_parts(loop)
        var = None
        i_s = strip(init) if init is not None else {}
        # variable name in our naming
        vid = ind['var'].split('#')[-1]
        nm = self.lnames.get(vid) or self.pnames.get(vid)
        if nm is None:
            return None
        if nm in self.assigned_ints(body):
            return None
        # init evaluated in the pre-loop state
        if i_s.get('kind') == 'BinaryOperator' and i_s.get('opcode') == '=':
            rr = strip(kids(i_s)[1])
            while rr.get('kind') == 'BinaryOperator' and rr.get('opcode') == '=':
                rr = strip(kids(rr)[1])
            a = self.ev(rr, st)
        elif i_s.get('kind') == 'BinaryOperator' and i_s.get('opcode') == ',':
            # for(i = 0, k = 0; ...): evaluate each
            a = None
            for part in kids(i_s):
                ps = strip(part)
                if ps.get('kind') == 'BinaryOperator' and ps.get('opcode') == '=' and self.vname(strip(kids(ps)[0]).get('referencedDecl', {})) == nm:
                    a = self.ev(kids(ps)[1], st)
            if a is None:
                return None
        elif i_s.get('kind') == 'DeclStmt':
            a = st.vals.get(nm)
            if a is None:
                return None
        else:
            return None
        be = ind['bound_expr']
        # the bound must be loop invariant
        bound = self.ev(be, st)
        assigned = self.assigned_ints(loop)
        if any(x in assigned for x in self.names_in(be)):
            bound = Poly.atom('?bound@L%d' % (fe.node_line(loop) or 0))
        vt = self.f.unit.by_id.get(vid, {}).get('type', {})
        signed = (vt.get('desugaredQualType') or vt.get('qualType')) in ('int', 'long', 'short', 'char')
        return {'var': nm, 'init': a, 'bound': bound, 'op': ind['op'], 'step': ind['step'], 'signed': signed}

    def names_in(self, e):
        out = set()
        for n in walk(e):
            if n.get('kind') == 'DeclRefExpr':
                out.add(self.vname(n['referencedDecl']))
        return out

    def assigned_ints(self, node):
        out = set()
        for x in walk(node):
            if is_assign(x) or is_incdec(x):
                t = strip(kids(x)[0])
                if t.get('kind') == 'DeclRefExpr' and not fe.is_float_type(t) and '*' not in (t.get('type') or {}).get('qualType', ''):
                    out.add(self.vname(t['referencedDecl']))
            if x.get('kind') == 'UnaryOperator' and x.get('opcode') == '&':
                t = strip(kids(x)[0])
                if t.get('kind') == 'DeclRefExpr' and not fe.is_float_type(t) and '*' not in (t.get('type') or {}).get('qualType', '') \
                        and '[' not in (t.get('type') or {}).get('qualType', ''):
                    out.add(self.vname(t['referencedDecl']))
        return out
