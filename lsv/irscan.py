"""Second front end (thorough tier): the call graph, the thread entries and the set of functions that store to a
global are recomputed from LLVM IR (clang -O0 -S -emit-llvm per unit; textual scan) and must agree with the
AST-derived ones.  Nothing is linked or run."""
import os
import re
import subprocess
from concurrent.futures import ThreadPoolExecutor

from . import frontend as fe


def ir_of(unit):
    r = subprocess.run([fe.CLANG, '-S', '-emit-llvm', '-O0', '-Xclang', '-disable-O0-optnone', '-o', '-'] + fe.cflags() +
                       [os.path.join(fe.SRC, unit)], stdout=subprocess.PIPE, stderr=subprocess.PIPE)
    if r.returncode != 0:
        raise fe.AnalysisBroken('clang -emit-llvm failed on %s: %s' % (unit, r.stderr.decode()[-300:]))
    return r.stdout.decode()


def scan(units):
    """-> (defs: {fn: unit}, edges: {(caller, callee)}, addr: {(fn, target)}, gstores: {(fn, global)}, tls: set(globals))"""
    defs, edges, addr, gstores, tls, globs = {}, set(), set(), set(), set(), set()
    with ThreadPoolExecutor(max_workers=16) as ex:
        irs = list(ex.map(ir_of, units))
    for unit, txt in zip(units, irs):
        for m in re.finditer(r'^@([A-Za-z_][\w.]*) = (?:dso_local |internal |common |external |hidden )*(thread_local )?(?:unnamed_addr )?(?:global|constant)', txt, re.M):
            globs.add(m.group(1))
            if m.group(2):
                tls.add(m.group(1))
        cur = None
        for line in txt.splitlines():
            m = re.match(r'^define [^@]*@([A-Za-z_]\w*)\(', line)
            if m:
                cur = m.group(1)
                defs[cur] = unit
                continue
            if line.startswith('}'):
                cur = None
                continue
            if cur is None:
                continue
            cm = re.search(r'\bcall\b[^@]*@([A-Za-z_]\w*)\(', line)
            callee = cm.group(1) if cm else None
            if callee and not callee.startswith('llvm.'):
                edges.add((cur, callee))
            for ref in re.findall(r'@([A-Za-z_]\w*)', line):
                if ref == callee or ref.startswith('llvm.'):
                    continue
                if ref in globs or ref.startswith('.str') or ref.startswith('__'):
                    continue
                addr.add((cur, ref))
            sm = re.search(r'\bstore\b.*,\s*[^,]*\*\s*(?:getelementptr[^@]*)?@([A-Za-z_][\w.]*)', line)
            if sm and not sm.group(1).startswith('.str'):
                gstores.add((cur, sm.group(1)))
    return defs, edges, addr, gstores, tls


def cross_check(chk, prog, units):
    """compare with the AST-derived program view; any disagreement makes the check ANALYSIS-BROKEN"""
    defs, edges, addr, gstores, tls = scan(units)
    ast_funcs = {f.name for f in prog.all_funcs() if f.unit.name in units}
    ir_funcs = set(defs)
    d1, d2 = sorted(ast_funcs - ir_funcs), sorted(ir_funcs - ast_funcs)
    if d1 or d2:
        chk.broke('function sets differ between AST and LLVM IR: only-AST %s only-IR %s' % (d1[:5], d2[:5]))
    ast_edges = set()
    for f in prog.all_funcs():
        if f.unit.name not in units:
            continue
        for cn, _ in f.calls:
            ast_edges.add((f.name, cn))
    ir_edges = {(a, b) for (a, b) in edges}
    # libm builtins may be lowered to intrinsics in IR (sqrt, fabs, ceil, floor, memset...): compare on library callees only
    lib = ast_funcs
    a = {(x, y) for (x, y) in ast_edges if y in lib}
    b = {(x, y) for (x, y) in ir_edges if y in lib}
    if a != b:
        chk.broke('call edges differ between AST and LLVM IR: only-AST %s only-IR %s' % (sorted(a - b)[:5], sorted(b - a)[:5]))
    # thread entries: functions referenced (address taken) in a function that calls pthread_create
    ast_entries = {ent for (_, _, ent) in prog.thread_creates() if ent}
    ir_entries = {t for (fn, t) in addr if (fn, 'pthread_create') in edges and t in ir_funcs}
    if ast_entries != ir_entries:
        chk.broke('thread entries differ between AST and LLVM IR: only-AST %s only-IR %s' % (
            sorted(ast_entries - ir_entries)[:5], sorted(ir_entries - ast_entries)[:5]))
    # functions that store to a global
    ast_w = set()
    for f in prog.all_funcs():
        if f.unit.name not in units:
            continue
        for (g, mode, node) in prog.global_accesses(f):
            if mode == 'w':
                ast_w.add((f.name, g.split('::')[-1]))
    ir_w = {(fn, g.split('.')[-1]) for (fn, g) in gstores}
    if ast_w != ir_w:
        chk.broke('global writers differ between AST and LLVM IR: only-AST %s only-IR %s' % (sorted(ast_w - ir_w)[:5], sorted(ir_w - ast_w)[:5]))
    chk.extra['ir_cross_check'] = {'functions': len(ir_funcs), 'call_edges': len(b), 'thread_entries': sorted(ir_entries),
                                   'global_writers': sorted(ir_w), 'thread_local_globals': sorted(tls)}
    return defs, edges
