"""E4 loopterm: every loop reachable from the C18 roots has a termination certificate
(counted / capped / consuming), or is a listed rejection-sampling loop."""
import os

from . import frontend as fe
from .frontend import kids, strip, walk, callee_name, call_args
from . import exprs, flow
from .program import is_assign, is_incdec, lvalue_base
from .report import Finding
from .sym import Poly

ROOTS = ['PCA', 'PLS', 'CPCA', 'KMeans', 'NelderMeadSimplex',
         'BootstrapRandomGroupsCV', 'LeaveOneOut', 'KFoldCV', 'MLRRandomGroupCVModel', 'MLRLOOModel_']

# Loops that cannot have a deterministic certificate by nature; keyed by (function, kind of loop, reason).
# A *new* certificate-less loop, or one of these changing shape, is still a violation.
ASSUMED = {
    ('random_kfold_group_generator', 'DoStmt'):
        'rejection sampling of an unused object id from a finite-state generator; exits with probability 1 '
        '(the conjunct k < nobj bounds the number of accepted ids, not the number of draws)',
    ('train_test_split', 'DoStmt'):
        'rejection sampling of an object id not yet in the test set (test size <= number of objects); exits with '
        'probability 1',
    ('MDC', 'WhileStmt'):
        'while(1): the counted exit nmdc == n holds on the path n > 0, which is how KMeans calls it; the n == 0 '
        'branch exits on data-dependent information values (outside the property quantifier)',
}


def rel(p):
    return os.path.relpath(p, fe.REPO)


# ---------------------------------------------------------------------------------------
# callee summaries

class Summaries:
    def __init__(self, prog):
        self.prog = prog
        self._mod = {}
        self._ret = {}

    def shape_mod(self, f, _active=None):
        """set of access-path shapes, relative to f's parameters ('$0->size', '$1->m[]->row'), of integer
        fields that f may write (transitively through calls)"""
        if f in self._mod:
            return self._mod[f]
        _active = _active or set()
        if f in _active:
            return set()
        _active = _active | {f}
        pidx = {'%s#%s' % (p['name'], p['id']): i for i, p in enumerate(f.params)}
        out = set()

        def relpath(expr):
            p = exprs.path_of(expr)
            if p is None:
                return None
            return norm_path(p, pidx)
        for n in walk(f.body):
            tgt = None
            if is_assign(n) or is_incdec(n):
                tgt = kids(n)[0]
            if tgt is not None:
                t = strip(tgt)
                if t.get('kind') == 'MemberExpr' and '*' not in fe.qual(t) and not fe.is_float_type(t):
                    rp = relpath(t)
                    if rp and rp.startswith('$'):
                        out.add(rp)
        for cn, node in f.calls:
            g = self.prog.resolve(f, cn)
            if g is None or g.body is None:
                continue
            gm = self.shape_mod(g, _active)
            a = call_args(node)
            for shape in gm:
                j = int(shape[1:].split('-')[0].split('.')[0].split('[')[0].split(')')[0])
                if j < len(a):
                    rp = relpath(a[j])
                    if rp and rp.startswith('$'):
                        out.add(simplify(shape.replace('$%d' % j, '@', 1).replace('@', rp)))
        self._mod[f] = out
        return out

    def returns_nonzero_when(self, f):
        """[(canonical conjunct over parameter positions)] such that the conjunct alone implies f returns
        a non-zero constant.  Derived from return statements whose whole path condition is one integer
        comparison between parameters/constants."""
        if f in self._ret:
            return self._ret[f]
        out = []
        pm = flow.parent_map(f.body)
        ppos = {('%s#%s' % (p['name'], p['id'])): '$%d' % i for i, p in enumerate(f.params)}
        for n in walk(f.body):
            if n.get('kind') == 'ReturnStmt' and kids(n):
                v = fe.int_value(kids(n)[0])
                if v is None or v == 0:
                    continue
                pcs = flow.path_conditions(pm, n)
                if len(pcs) != 1 or pcs[0][0] != '<=0':
                    continue
                p = pcs[0][1]
                if all(a in ppos for a in p.atoms()):
                    out.append(('<=0', p.subst({a: Poly.atom(ppos[a]) for a in p.atoms()})))
        self._ret[f] = out
        return out


def nonzero_returns(summ, f):
    """For an int helper whose result is used as an exit flag: [(atom, guards)] such that `atom` (canonical '<=0' over parameter positions
    $i) together with the guards (canonical conjuncts, parameter positions substituted where possible) implies that f returns non-zero;
    None when the helper is not understood (a return value that is not a literal, a return inside a loop, an if-less non-zero return)."""
    cache = summ.__dict__.setdefault('_nzr', {})
    if f in cache:
        return cache[f]
    pm = flow.parent_map(f.body)
    ppos = {('%s#%s' % (p['name'], p['id'])): '$%d' % i for i, p in enumerate(f.params)}

    def to_pos(q):
        return q.subst({a: Poly.atom(ppos[a]) for a in q.atoms() if a in ppos})

    def map_guard(g):
        if g[0] in ('<=0', '!=0', '==0') and isinstance(g[1], Poly):
            return (g[0], to_pos(g[1]))
        return g
    out = []
    for n in walk(f.body):
        if n.get('kind') != 'ReturnStmt' or not kids(n):
            continue
        v = fe.int_value(kids(n)[0])
        if v is None:
            cache[f] = None
            return None
        if v == 0:
            continue
        ancs = flow.ancestors(pm, n)
        if any(a.get('kind') in flow.LOOPS for a in ancs):
            cache[f] = None
            return None
        own = None
        child = n
        for a in ancs:
            if a.get('kind') == 'IfStmt':
                own = (a, child)
                break
            if a.get('kind') != 'CompoundStmt':
                break
            child = a
        if own is None:
            # unconditional `return 1` at the end: taken whenever no earlier return was; its path conditions are the guards
            guards = [map_guard(g) for g in flow.path_conditions(pm, n)]
            out.append((None, guards))
            continue
        ifs, ch = own
        c, t, e = flow.if_parts(ifs)
        positive = ch is t
        guards = [map_guard(g) for g in flow.path_conditions(pm, ifs)]
        for at in from_cond_disj(c, positive):
            q = to_pos(at[1])
            if all(a.startswith('$') for a in q.atoms()):
                out.append((('<=0', q), guards))
    cache[f] = out
    return out


def norm_path(p, roots):
    """replace the root variable by its $index, array indices by [], drop decl ids"""
    import re
    for r, i in roots.items():
        if p.startswith(r) or ('(' + r) in p or ('*' + r) in p or ('&' + r) in p:
            p = p.replace(r, '$%d' % i)
    p = re.sub(r'\[[^\]]*\]', '[]', p)
    p = re.sub(r'#0x[0-9a-f]+', '', p)
    return simplify(p)


def simplify(p):
    prev = None
    while prev != p:
        prev = p
        p = p.replace('(*(&', '((').replace('(&(*', '((')
        # ((X)) -> (X) ; (X)->  -> X->  when X is a plain token
        import re
        p = re.sub(r'\(\((\$?[\w\[\]>.\-]+)\)\)', r'\1', p)
    return p


# ---------------------------------------------------------------------------------------
# per-iteration delta of a counter

UNK = None


def _add(a, b):
    return None if a is None or b is None else a + b


def expr_delta(n, var):
    """net change of `var` when evaluating expression n exactly once; None if unknown"""
    total = 0
    if n is None or not n.get('kind'):
        return 0
    st = [(n, False)]
    while st:
        x, cond = st.pop()
        k = x.get('kind')
        if k in ('UnaryExprOrTypeTraitExpr',):
            continue
        if is_incdec(x) and exprs.path_of(kids(x)[0]) == var:
            if cond:
                return None
            total += 1 if x['opcode'] == '++' else -1
            continue
        if x.get('kind') == 'CompoundAssignOperator' and exprs.path_of(kids(x)[0]) == var:
            c = fe.int_value(kids(x)[1])
            if cond or c is None or x.get('opcode') not in ('+=', '-='):
                return None
            total += c if x['opcode'] == '+=' else -c
            continue
        if x.get('kind') == 'BinaryOperator' and x.get('opcode') == '=' and exprs.path_of(kids(x)[0]) == var:
            d = exprs.to_poly(kids(x)[1]) - Poly.atom(var)
            if cond or d.const_value() is None:
                return None
            total += d.const_value()
            continue
        if k == 'UnaryOperator' and x.get('opcode') == '&' and exprs.path_of(kids(x)[0]) == var:
            return None          # address escapes
        if k == 'BinaryOperator' and x.get('opcode') in ('&&', '||'):
            a, b = kids(x)
            st.append((a, cond))
            st.append((b, True))
            continue
        if k == 'ConditionalOperator':
            c = kids(x)
            st.append((c[0], cond))
            st.append((c[1], True))
            st.append((c[2], True))
            continue
        for c in kids(x):
            st.append((c, cond))
    return total


OPAQUE_CALLS = set()    # helpers used as exit conditions whose returns are not understood (filled by exit_tests, read by run())
EXIT_STORES = set()     # ids of `flag = literal` statements that falsify a conjunct of the loop condition (set per loop by certificate())


def exit_flag_stores(f, loop):
    """`while (A && !stopped) { ... else stopped = 1; }`: a store of a literal to an integer local that makes a top-level conjunct of the loop
    condition false ends the loop at the next test, provided every store to that local inside the loop is such a store (it is never reset)
    and its address is not taken.  Returns the ids of those store statements."""
    init, cond, inc, body = flow.loop_parts(loop)
    if cond is None:
        return set()
    want = {}

    def conj(c, positive=True):
        c = strip(c)
        while c.get('kind') == 'ParenExpr':
            c = strip(kids(c)[0])
        if c.get('kind') == 'BinaryOperator' and c.get('opcode') == '&&' and positive:
            conj(kids(c)[0]); conj(kids(c)[1])
        elif c.get('kind') == 'BinaryOperator' and c.get('opcode') == '||' and not positive:
            conj(kids(c)[0], False); conj(kids(c)[1], False)
        elif c.get('kind') == 'UnaryOperator' and c.get('opcode') == '!':
            conj(kids(c)[0], not positive)
        elif c.get('kind') == 'DeclRefExpr' and not fe.is_float_type(c) and c['referencedDecl'].get('kind') == 'VarDecl':
            want[c['referencedDecl']['id']] = 'zero' if positive else 'nonzero'     # value of the flag that ends the loop
        elif c.get('kind') == 'BinaryOperator' and c.get('opcode') in ('==', '!=') and fe.int_value(kids(c)[1]) == 0 and fe.ref_id(kids(c)[0]) \
                and not fe.is_float_type(strip(kids(c)[0])):
            ends_when_nonzero = (c['opcode'] == '==') == positive
            want[fe.ref_id(kids(c)[0])] = 'nonzero' if ends_when_nonzero else 'zero'
    conj(cond)
    out = set()
    for did, ends in want.items():
        stores, ok = [], True
        for n in walk(loop):
            if n.get('kind') == 'UnaryOperator' and n.get('opcode') in ('&', '++', '--') and fe.ref_id(kids(n)[0]) == did:
                ok = False
            if n.get('kind') in ('BinaryOperator', 'CompoundAssignOperator') and n.get('opcode', '').endswith('=') and \
                    n.get('opcode') not in ('==', '!=', '<=', '>=') and fe.ref_id(kids(n)[0]) == did:
                v = fe.int_value(kids(n)[1]) if n.get('opcode') == '=' else None
                if v is None or (v != 0) != (ends == 'nonzero'):
                    ok = False
                stores.append(n)
        if ok and stores:
            out |= {id(n) for n in stores}
    return out


def stmt_paths(n, var):
    """set of (delta|None, kind) with kind in norm/cont/exit for paths through statement n"""
    if n is None or not n.get('kind'):
        return {(0, 'norm')}
    if id(n) in EXIT_STORES or id(strip(n)) in EXIT_STORES:
        return {(0, 'exit')}
    k = n['kind']
    if k == 'CompoundStmt':
        paths = {(0, 'norm')}
        for s in kids(n):
            new = set()
            sp = None
            for (d, kd) in paths:
                if kd != 'norm':
                    new.add((d, kd))
                else:
                    if sp is None:
                        sp = stmt_paths(s, var)
                    for (d2, k2) in sp:
                        new.add((_add(d, d2), k2))
            paths = new
        return paths
    if k == 'IfStmt':
        c, t, e = flow.if_parts(n)
        dc = expr_delta(c, var)
        out = set()
        for (d, kd) in stmt_paths(t, var) | (stmt_paths(e, var) if e is not None else {(0, 'norm')}):
            out.add((_add(dc, d), kd))
        return out
    if k == 'BreakStmt' or k == 'ReturnStmt':
        return {(0, 'exit')}
    if k == 'ContinueStmt':
        return {(0, 'cont')}
    if flow.is_noreturn_call(n):
        return {(0, 'exit')}
    if k in flow.LOOPS:
        touched = var in flow.assigned_paths(n) or any(
            x.get('kind') == 'UnaryOperator' and x.get('opcode') == '&' and exprs.path_of(kids(x)[0]) == var for x in walk(n))
        # an inner loop may also return out of the function; that only removes paths
        return {(None if touched else 0, 'norm')}
    if k == 'SwitchStmt':
        touched = var in flow.assigned_paths(n)
        kinds = {'norm'}
        for x in walk(n):
            if x.get('kind') == 'ContinueStmt':
                kinds.add('cont')
            if x.get('kind') == 'ReturnStmt' or flow.is_noreturn_call(x):
                kinds.add('exit')
        return {(None if touched else 0, kd) for kd in kinds}
    if k == 'DeclStmt':
        d = 0
        for v in kids(n):
            for c in kids(v):
                d = _add(d, expr_delta(c, var))
        return {(d, 'norm')}
    return {(expr_delta(n, var), 'norm')}


def iteration_deltas(loop, var):
    init, cond, inc, body = flow.loop_parts(loop)
    dc = expr_delta(cond, var) if cond is not None else 0
    di = expr_delta(inc, var) if inc is not None else 0
    out = set()
    for (d, kd) in stmt_paths(body, var):
        if kd == 'exit':
            continue
        out.add(_add(_add(d, di), dc))
    return out


# ---------------------------------------------------------------------------------------

def unwrap_bool_ternary(c):
    """`c ? 1 : 0` -> (c, True); `c ? 0 : 1` -> (c, False); else None"""
    c = strip(c)
    while c.get('kind') == 'ParenExpr':
        c = strip(kids(c)[0])
    if c.get('kind') == 'ConditionalOperator':
        a, b, d = kids(c)
        vb, vd = fe.int_value(b), fe.int_value(d)
        if vb is not None and vd is not None and vb != 0 and vd == 0:
            return a, True
        if vb == 0 and vd is not None and vd != 0:
            return a, False
    return None


def exit_tests(prog, summ, f, loop, pm):
    """canonical integer tests ('<=0', Poly) each of which, when true at the point it is evaluated in
    an iteration, makes the loop exit; only tests evaluated on every iteration are returned."""
    tests = []
    init, cond, inc, body = flow.loop_parts(loop)
    depth = [0]

    def flag_def(c):
        """the single in-loop definition of an integer flag local, or None"""
        c = strip(c)
        while c.get('kind') == 'ParenExpr':
            c = strip(kids(c)[0])
        if not (c.get('kind') == 'DeclRefExpr' and not fe.is_float_type(c) and c['referencedDecl'].get('kind') == 'VarDecl'):
            return None
        did = c['referencedDecl'].get('id')
        defs = []
        for n in walk(loop):
            if n.get('kind') == 'VarDecl' and n.get('id') == did and kids(n):
                defs.append(kids(n)[-1])
            if n.get('kind') in ('BinaryOperator', 'CompoundAssignOperator') and n.get('opcode', '').endswith('=') and n.get('opcode') not in ('==', '!=', '<=', '>=') \
                    and fe.ref_id(kids(n)[0]) == did:
                defs.append(kids(n)[1] if n.get('opcode') == '=' else None)
        outside = any(n.get('kind') in ('BinaryOperator', 'CompoundAssignOperator') and n.get('opcode', '').endswith('=') and
                      n.get('opcode') not in ('==', '!=', '<=', '>=') and fe.ref_id(kids(n)[0]) == did and not any(m is n for m in walk(loop))
                      for n in walk(f.body))
        if len(defs) == 1 and defs[0] is not None and not outside:
            return defs[0]
        return None

    def from_cond(c, positive):
        # exit happens when (c == positive) ... we need atoms A such that A => exit.
        # exit <=> not C.  If C = c1 && c2: (not c1) => exit.  If C = c1 || c2: need both; skipped.
        out = []
        c = strip(c)
        while c.get('kind') == 'ParenExpr':
            c = strip(kids(c)[0])
        ub = unwrap_bool_ternary(c)
        if ub is not None:
            return from_cond(ub[0], positive if ub[1] else not positive)
        if c.get('kind') == 'BinaryOperator' and c.get('opcode') == '&&' and positive:
            a, b = kids(c)
            return from_cond(a, True) + from_cond(b, True)
        if c.get('kind') == 'BinaryOperator' and c.get('opcode') == '||' and not positive:
            a, b = kids(c)
            return from_cond(a, False) + from_cond(b, False)
        if c.get('kind') == 'UnaryOperator' and c.get('opcode') == '!':
            return from_cond(kids(c)[0], not positive)
        if c.get('kind') == 'DeclRefExpr' and not fe.is_float_type(c) and c['referencedDecl'].get('kind') == 'VarDecl':
            # an integer flag that holds the compound exit condition:  int finished = (conv < eps || iter >= cap);  if (!finished) continue;
            did = c['referencedDecl'].get('id')
            defs = []
            for n in walk(loop):
                if n.get('kind') == 'VarDecl' and n.get('id') == did and kids(n):
                    defs.append(kids(n)[-1])
                if n.get('kind') in ('BinaryOperator', 'CompoundAssignOperator') and n.get('opcode', '').endswith('=') and n.get('opcode') not in ('==', '!=', '<=', '>=') \
                        and fe.ref_id(kids(n)[0]) == did:
                    defs.append(kids(n)[1] if n.get('opcode') == '=' else None)
            outside = any(n.get('kind') in ('BinaryOperator', 'CompoundAssignOperator') and n.get('opcode', '').endswith('=') and
                          n.get('opcode') not in ('==', '!=', '<=', '>=') and fe.ref_id(kids(n)[0]) == did and not any(m is n for m in walk(loop))
                          for n in walk(f.body))
            if len(defs) == 1 and defs[0] is not None and not outside and depth[0] < 3:
                depth[0] += 1
                try:
                    d0 = strip(defs[0])
                    if d0.get('kind') == 'CallExpr':
                        # flag = helper(...): the helper's "returns non-zero when" summary gives the exit tests
                        return call_tests(d0, None, positive)
                    return from_cond(defs[0], positive)
                finally:
                    depth[0] -= 1
        for cj in exprs.conjuncts(c, not positive):
            if cj[0] == '<=0':
                out.append(cj)
            elif cj[0] in ('==0', '!=0'):
                out.extend(call_tests(c, cj, positive))
        return out

    def call_tests(c, cj, positive):
        # c is `f(args) == 0` (continue while f returns 0): exit when f(args) != 0
        out = []
        c = strip(c)
        call = None
        if c.get('kind') == 'BinaryOperator' and c.get('opcode') in ('==', '!='):
            a, b = kids(c)
            if strip(a).get('kind') == 'CallExpr' and fe.int_value(b) == 0:
                call = strip(a)
                exit_when_nonzero = (c['opcode'] == '==') == positive
            elif strip(b).get('kind') == 'CallExpr' and fe.int_value(a) == 0:
                call = strip(b)
                exit_when_nonzero = (c['opcode'] == '==') == positive
        elif c.get('kind') == 'CallExpr':
            call = c
            exit_when_nonzero = not positive
        if call is None or not exit_when_nonzero:
            return out
        g = prog.resolve(f, callee_name(call)) if callee_name(call) else None
        if g is None or g.body is None:
            return out
        args = call_args(call)

        def to_args(q):
            m = {}
            for a in q.atoms():
                if a.startswith('$') and a[1:].isdigit() and int(a[1:]) < len(args):
                    m[a] = exprs.to_poly(args[int(a[1:])])
            return q.subst(m)
        for (relk, p) in summ.returns_nonzero_when(g):
            out.append((relk, to_args(p)))
        nz = nonzero_returns(summ, g)
        if nz is None:
            OPAQUE_CALLS.add(g.name)
        else:
            for (at, guards) in nz:
                if at is None:
                    continue
                gs = [(x[0], to_args(x[1])) if x[0] in ('<=0', '!=0', '==0') and isinstance(x[1], Poly) else x for x in guards]
                cand = (at[0], to_args(at[1]))
                if not gs:
                    if cand not in out:
                        out.append(cand)
                else:
                    out.append((cand[0], cand[1], gs))
        return out

    if cond is not None:
        tests += [(t_, []) for t_ in from_cond(cond, True)]
    # if-statements whose branch always leaves the loop; `guards` are the conditions under which the
    # statement is evaluated in an iteration (they must become permanently true, see certificate())
    def guards_of(s):
        child = s
        guards = []
        for anc in flow.ancestors(pm, s):
            if anc is loop:
                return guards
            k = anc.get('kind')
            if k == 'CompoundStmt':
                # an earlier sibling that may `continue` could skip s
                for sib in kids(anc):
                    if sib is child:
                        break
                    spm = flow.parent_map(sib)
                    if any(x.get('kind') == 'ContinueStmt' and
                           not any(a.get('kind') in flow.LOOPS for a in flow.ancestors(spm, x)) and
                           sib.get('kind') not in flow.LOOPS for x in walk(sib)):
                        return None
            elif k == 'IfStmt':
                c, t, e = flow.if_parts(anc)
                other = e if child is t else t
                if other is not None and flow.exits(other) and 'continue' not in flow.exits(other):
                    pass        # the other branch leaves the loop: s is evaluated whenever the loop goes on
                else:
                    guards += exprs.conjuncts(c, child is t)
            else:
                return None
            child = anc
        return None
    inner_of = {}
    for s in walk(body):
        if s.get('kind') != 'IfStmt':
            continue
        ancs = flow.ancestors(pm, s)
        if loop not in ancs:
            continue
        if any(a.get('kind') in flow.LOOPS for a in ancs[:ancs.index(loop)]):
            continue
        c, t, e = flow.if_parts(s)
        et, ee = flow.exits(t), (flow.exits(e) if e is not None else set())
        leaves_t = et and 'continue' not in et
        leaves_e = ee and 'continue' not in ee
        if not (leaves_t or leaves_e):
            continue
        g = guards_of(s)
        if g is None:
            continue
        if leaves_t:
            # (A || B) => exit: each disjunct alone implies exit
            tests += [(t_, g) for t_ in from_cond_disj(c, True, flag_def)]
        if leaves_e:
            tests += [(t_, g) for t_ in from_cond_disj(c, False, flag_def)]
    # early-continue shape:  if (!finished) { ...; continue; }  <rest of the body that always leaves>  -- the loop exits when the condition is false
    top_body = strip(body)
    if top_body.get('kind') == 'CompoundStmt':
        ks_ = [strip(x) for x in kids(top_body)]
        for i_, s in enumerate(ks_):
            if s.get('kind') != 'IfStmt':
                continue
            c, t, e = flow.if_parts(s)
            if e is not None or flow.exits(t) != {'continue'}:
                continue
            rest = {'kind': 'CompoundStmt', 'inner': ks_[i_ + 1:]}
            er = flow.exits(rest)
            if er and 'continue' not in er and not any(x.get('kind') == 'ContinueStmt' for y in ks_[:i_] for x in walk(y)
                                                       if not any(a.get('kind') in flow.LOOPS for a in [y])):
                tests += [(t_, []) for t_ in from_cond_disj(c, False, flag_def)]
    # atoms that come from a helper summary carry the helper's own guards
    tests = [((t_[0], t_[1]), list(g_) + list(t_[2])) if len(t_) == 3 else (t_, g_) for (t_, g_) in tests]
    return tests


def from_cond_disj(c, positive, resolver=None, _d=0):
    """atoms A (canonical '<=0') such that A => (c == positive)"""
    c = strip(c)
    while c.get('kind') == 'ParenExpr':
        c = strip(kids(c)[0])
    ub = unwrap_bool_ternary(c)
    if ub is not None:
        return from_cond_disj(ub[0], positive if ub[1] else not positive, resolver, _d)
    if resolver is not None and _d < 3:
        r_ = resolver(c)
        if r_ is not None:
            return from_cond_disj(r_, positive, resolver, _d + 1)
    if c.get('kind') == 'BinaryOperator' and c.get('opcode') == '||' and positive:
        a, b = kids(c)
        return from_cond_disj(a, True, resolver, _d) + from_cond_disj(b, True, resolver, _d)
    if c.get('kind') == 'BinaryOperator' and c.get('opcode') == '&&' and not positive:
        a, b = kids(c)
        return from_cond_disj(a, False, resolver, _d) + from_cond_disj(b, False, resolver, _d)
    if c.get('kind') == 'UnaryOperator' and c.get('opcode') == '!':
        return from_cond_disj(kids(c)[0], not positive, resolver, _d)
    if c.get('kind') == 'BinaryOperator' and c.get('opcode') in ('&&', '||'):
        return []
    return [cj for cj in exprs.conjuncts(c, positive) if cj[0] == '<=0']


def bound_stable(prog, summ, f, loop, atoms, var):
    """the atoms of the bound (other than the counter) are not modified inside the loop"""
    assigned = flow.assigned_paths(loop)
    for a in atoms:
        if a == var:
            continue
        if a.startswith('?'):
            return False, 'bound contains an unmodelled term'
        if a in assigned:
            return False, 'bound term %s is assigned in the loop' % a.split('#')[0]
        root = a.split('->')[0].split('.')[0].split('[')[0].strip('(*&)')
        if root in assigned and root != a:
            return False, 'base of bound term %s is reassigned in the loop' % a.split('#')[0]
        if '->' in a or '(*' in a:
            rid = root.split('#')[-1]
            for n in walk(loop):
                if n.get('kind') == 'CallExpr':
                    cn = callee_name(n)
                    g = prog.resolve(f, cn) if cn else None
                    if g is None or g.body is None:
                        continue        # libc: cannot know our structs
                    args = call_args(n)
                    for shape in summ.shape_mod(g):
                        j = int(shape[1:].split('-')[0].split('.')[0].split('[')[0].split(')')[0])
                        if j >= len(args):
                            continue
                        r, _ = lvalue_base(args[j])
                        if not (r and r.get('id') == rid):
                            continue
                        ap = exprs.path_of(args[j])
                        if ap is None:
                            return False, 'bound term %s may be modified by %s called in the loop' % (a.split('#')[0], cn)
                        written = simplify(norm_path(shape.replace('$%d' % j, '@', 1).replace('@', ap), {}))
                        if written == norm_path(a, {}):
                            return False, 'bound term %s may be modified by %s called in the loop' % (a.split('#')[0], cn)
    return True, ''


def opaque_exit(prog, summ, f, loop):
    """an exit condition of the loop is an integer flag whose value comes from a call (or from several definitions), or a direct call of a
    function with a body: the engine has no summary for it, so a missing certificate means "not understood", not "does not terminate"."""
    init, cond, inc, body = flow.loop_parts(loop)
    conds = [cond] if cond is not None else []
    for s in walk(body):
        if s.get('kind') == 'IfStmt':
            c, t, e = flow.if_parts(s)
            if (flow.exits(t) and 'continue' not in flow.exits(t)) or (e is not None and flow.exits(e) and 'continue' not in flow.exits(e)) \
                    or flow.exits(t) == {'continue'}:
                conds.append(c)

    def atoms(c):
        c = strip(c)
        while c.get('kind') == 'ParenExpr':
            c = strip(kids(c)[0])
        ub = unwrap_bool_ternary(c)
        if ub is not None:
            return atoms(ub[0])
        if c.get('kind') == 'BinaryOperator' and c.get('opcode') in ('&&', '||'):
            return atoms(kids(c)[0]) + atoms(kids(c)[1])
        if c.get('kind') == 'UnaryOperator' and c.get('opcode') == '!':
            return atoms(kids(c)[0])
        if c.get('kind') == 'BinaryOperator' and c.get('opcode') in ('==', '!=') and fe.int_value(kids(c)[1]) == 0:
            return atoms(kids(c)[0])
        return [c]
    for c in conds:
        for a in atoms(c):
            if a.get('kind') == 'CallExpr' and not fe.is_float_type(a):
                g = prog.resolve(f, callee_name(a)) if callee_name(a) else None
                if g is not None and g.body is not None and nonzero_returns(summ, g) is None:
                    return 'the exit condition calls %s(), whose return values are not understood' % g.name
            if a.get('kind') == 'DeclRefExpr' and not fe.is_float_type(a) and a['referencedDecl'].get('kind') == 'VarDecl':
                did = a['referencedDecl']['id']
                for n in walk(loop):
                    rhs = None
                    if n.get('kind') == 'VarDecl' and n.get('id') == did and kids(n):
                        rhs = kids(n)[-1]
                    if n.get('kind') == 'BinaryOperator' and n.get('opcode') == '=' and fe.ref_id(kids(n)[0]) == did:
                        rhs = kids(n)[1]
                    if rhs is not None:
                        for x in walk(rhs):
                            if x.get('kind') == 'CallExpr' and not fe.is_float_type(x) and callee_name(x):
                                g = prog.resolve(f, callee_name(x))
                                if g is not None and g.body is not None and nonzero_returns(summ, g) is None:
                                    return 'the exit flag `%s` is the result of %s(), whose return values are not understood' % (
                                        a['referencedDecl'].get('name'), g.name)
    return None


def certificate(prog, summ, f, loop, pm):
    """(kind, detail) or (None, reason)"""
    tests = exit_tests(prog, summ, f, loop, pm)
    reasons = []
    EXIT_STORES.clear()
    EXIT_STORES.update(exit_flag_stores(f, loop))
    for ((_, p), guards) in tests:
        # exit when p <= 0.  Need a variable with constant coefficient whose per-iteration change makes p decrease.
        for v in sorted(p.atoms()):
            cv = p.coeff(v)
            if cv is None or cv.const_value() in (None, 0):
                continue
            k = cv.const_value()
            if not all(eventually_true(g, v, -k) for g in guards):
                reasons.append('the exit test on %s is not evaluated on every iteration' % v.split('#')[0])
                continue
            deltas = iteration_deltas(loop, v)
            if not deltas:
                # no path completes an iteration: the body always leaves
                return 'L0.single-pass', 'every path through the body leaves the loop'
            if None in deltas:
                st = symbolic_step(f, loop, v)
                if st is not None and k < 0:
                    ok, why = bound_stable(prog, summ, f, loop, (p.atoms() | {st}), v)
                    if ok:
                        return 'L1.counted-by-variable', '%s advances by the loop-invariant unsigned %s (assumed >= 1) against exit test %s <= 0' % (
                            v.split('#')[0], st.split('#')[0], p)
                    reasons.append(why)
                    continue
                reasons.append('%s changes by a non-constant amount on some path' % v.split('#')[0])
                continue
            if all(d * k < 0 for d in deltas):
                ok, why = bound_stable(prog, summ, f, loop, p.atoms(), v)
                if not ok:
                    reasons.append(why)
                    continue
                # unsigned counters compared `>= 0` never exit; canonical p = -v (+c) with k<0 and all
                # other terms constant: exit when v >= c.  k>0: exit when v <= c: c must be reachable: fine
                # for signed; for unsigned only if c >= 0 in the test v <= c... `v >= 0` negated is v <= -1
                rest = p - Poly.atom(v) * k
                if k > 0 and rest.is_const() and rest.const_value() > 0 and 'unsigned' in var_type(f, v):
                    reasons.append('unsigned counter %s can never go below zero' % v.split('#')[0])
                    continue
                return 'L1.counted', '%s changes by %s per iteration against exit test %s <= 0' % (
                    v.split('#')[0], sorted(deltas), p)
            else:
                if any(d == 0 for d in deltas):
                    reasons.append('%s is not advanced on every path through the body' % v.split('#')[0])
                else:
                    reasons.append('%s moves away from its bound' % v.split('#')[0])
    if not tests:
        reasons.append('no exit edge is guarded by an integer comparison')
    return None, '; '.join(sorted(set(reasons))[:4])


def symbolic_step(f, loop, v):
    """for(...; ...; v += s) with s a single unsigned variable, v not otherwise touched: returns s"""
    if loop.get('kind') != 'ForStmt':
        return None
    init, cond, inc, body = flow.loop_parts(loop)
    i = strip(inc) if inc is not None else {}
    if not (i.get('kind') == 'CompoundAssignOperator' and i.get('opcode') == '+=' and exprs.path_of(kids(i)[0]) == v):
        return None
    sp = exprs.to_poly(kids(i)[1])
    if len(sp.t) != 1 or list(sp.t.values()) != [1] or len(list(sp.t)[0]) != 1:
        return None
    st = list(sp.t)[0][0]
    if st.startswith('?') or 'unsigned' not in fe.qual(strip(kids(i)[1], casts=False)):
        return None
    if v in flow.assigned_paths(body) or (cond is not None and v in flow.assigned_paths(cond)):
        return None
    return st


def eventually_true(g, v, direction):
    """canonical conjunct g over the counter v only, permanently true once v has moved far enough in
    `direction` (+1 increasing, -1 decreasing)"""
    if g[0] not in ('<=0', '!=0') or not isinstance(g[1], Poly):
        return False
    q = g[1]
    if q.atoms() != {v}:
        return False
    c = q.coeff(v)
    if c is None or c.const_value() in (None, 0):
        return False
    if g[0] == '!=0':
        return True
    return (c.const_value() < 0) == (direction > 0)


def var_type(f, path):
    vid = path.split('#')[-1].split('-')[0].split('.')[0].split('[')[0].rstrip(')')
    n = f.unit.by_id.get(vid)
    return fe.qual(n) if n else ''


def recursion_certificate(prog, f):
    """self-recursive call passes a container allocated with a strictly smaller first dimension"""
    pm = flow.parent_map(f.body)
    res = []
    for cn, node in f.calls:
        if prog.resolve(f, cn) is not f:
            continue
        ok = False
        why = 'no decreasing measure found'
        for i, a in enumerate(call_args(node)):
            root, _ = lvalue_base(a)
            if not root or i >= len(f.params):
                continue
            par = '%s#%s' % (f.params[i]['name'], f.params[i]['id'])
            # find allocation NewX(&root, r, ...) in f with r = par->field - c
            for cn2, n2 in f.calls:
                if cn2 and cn2.startswith('New') and call_args(n2):
                    r0, _ = lvalue_base(call_args(n2)[0])
                    if r0 and r0.get('id') == root.get('id') and len(call_args(n2)) >= 2:
                        r = exprs.to_poly(call_args(n2)[1])
                        for atom in r.atoms():
                            if atom.startswith(par + '->'):
                                d = r - Poly.atom(atom)
                                if d.const_value() is not None and d.const_value() <= -1:
                                    # base case: the recursive call is reached only when atom > some constant
                                    for (relk, p) in [c for c in flow.path_conditions(pm, node) if c[0] in ('<=0', '!=0', '==0')]:
                                        pass
                                    pcs = flow.path_conditions(pm, node)
                                    lower = any(c[0] == '<=0' and c[1].coeff(atom) is not None and
                                                (c[1].coeff(atom).const_value() or 0) < 0 for c in pcs)
                                    ne = sum(1 for c in pcs if c[0] == '!=0' and atom in c[1].atoms())
                                    if lower or ne >= 1:
                                        ok = True
                                        why = 'measure %s decreases by %d per call, base case guards %s' % (
                                            atom.split('#')[0], -d.const_value(), atom.split('#')[0])
        res.append((node, ok, why))
    return res


def run(chk, prog, roots=ROOTS):
    R = chk.rule('L.terminates', 'every loop reachable from the fitting/validation roots has a certificate: a counter '
                 'that every path through the body moves by a constant towards a loop-invariant bound tested on an exit '
                 'edge (for-loops, caps, consuming loops, callee "returns non-zero when a > b" summaries)')
    RR = chk.rule('L.recursion', 'every self-recursive call passes a strictly smaller non-negative measure and is '
                  'guarded by a base case')
    summ = Summaries(prog)
    missing = [r for r in roots if r not in prog.funcs]
    if missing:
        chk.broke('C18 roots missing from the analysed units: %s' % missing)
    reach = prog.reach([r for r in roots if r in prog.funcs])
    chk.extra['reachable_functions'] = len(reach)
    nloops = 0
    kinds = {}
    for g, path in sorted(reach.items(), key=lambda kv: kv[0].name):
        flow.check_supported(g.body, g.name)
        pm = flow.parent_map(g.body)
        for loop in [n for n in walk(g.body) if n.get('kind') in flow.LOOPS]:
            nloops += 1
            kind, detail = certificate(prog, summ, g, loop, pm)
            desc = '%s %s %s' % (g.unit.where(loop), g.name, loop['kind'])
            if kind:
                kinds[kind] = kinds.get(kind, 0) + 1
                chk.instance(R, desc + ': ' + kind + ' ' + detail)
                continue
            key = (g.name, loop['kind'])
            if key in ASSUMED:
                kinds['assumed'] = kinds.get('assumed', 0) + 1
                chk.instance(R, desc + ': ASSUMED ' + ASSUMED[key], 'undecided')
                chk.assumptions.append('%s %s: %s' % (g.name, loop['kind'], ASSUMED[key]))
                continue
            init, cond, inc, body = flow.loop_parts(loop)
            ctext = g.unit.text(cond)[:80] if cond is not None else '(none)'
            opq = opaque_exit(prog, summ, g, loop)
            if opq:
                chk.instance(R, desc + ': no certificate and ' + opq + ' (not understood)', 'undecided')
                chk.broke('%s %s: loop `%s(%s)` has no termination certificate and %s, for which the engine has no summary' % (
                    g.unit.where(loop), g.name, loop['kind'], ctext, opq))
                continue
            chk.instance(R, desc + ': no certificate', 'refuted')
            chk.violation(Finding('L.terminates', rel(g.file), g.name,
                                  '%s(%s)' % (loop['kind'], exprs.text_key(cond) if cond is not None else ''),
                                  g.unit.where(loop),
                                  'loop `%s(%s)` in %s has no termination certificate: %s' % (
                                      {'ForStmt': 'for', 'WhileStmt': 'while', 'DoStmt': 'do-while'}[loop['kind']], ctext, g.name, detail),
                                  path=[p.name for p in path]))
        for (node, ok, why) in recursion_certificate(prog, g):
            if ok:
                chk.instance(RR, '%s recursive call: %s' % (g.name, why))
            else:
                chk.instance(RR, '%s recursive call: %s' % (g.name, why), 'refuted')
                chk.violation(Finding('L.recursion', rel(g.file), g.name, 'self-call', g.unit.where(node),
                                      'recursive call in %s: %s' % (g.name, why), path=[p.name for p in path]))
    # mutual recursion among reachable functions is not modelled
    chk.extra['loops_analysed'] = nloops
    chk.extra['certificates'] = kinds
    return nloops
