"""E13: pairing typestate for the Nelder-Mead simplex table (C19, minimiser clauses).

The simplex is a matrix whose row r is (point_r, value_r).  Tracked abstractly, without executing anything:
  * what each scratch vector passed to the objective currently holds: ('row', r) copied from row r's coordinates,
    or ('vec', v) copied from trial vector v in the loop that computed v;
  * for each double local: ('f', src) = the objective evaluated at src;
  * whether rows of the table may hold a value that is not the objective at their coordinates (stale).

  NM.pairing   every value stored in the value column of row r is the objective at row r's coordinates; every
               replace_xnp1(x, v, r) passes r == objective(v); the table is never sorted or read for the result while stale
  NM.report    the function returns x[b][value column] and copies x[b][0..n) into `best` for the same row b = 0, right after an
               ascending whole-row sort on the value column: the value reported is the objective at the point returned
  NM.monotone  between two sorts only the worst row (row-1) is replaced or rows >= 1 are shrunk and re-evaluated: row 0 (the best
               vertex) keeps its coordinates, so the best value never increases from the initial simplex on (deterministic objective)
  NM.sort      MatrixSort swaps whole rows (all columns) when the earlier row has the larger key: ascending, pairing preserved

Convergence on convex quadratics is a numerical statement and is not decided."""
from . import frontend as fe
from .frontend import kids, strip, walk, callee_name, call_args
from . import exprs, flow
from .sym import Poly
from .report import Finding

FUNC = 'NelderMeadSimplex'


class Unsupported(Exception):
    pass


def rel(p):
    return p[len(fe.REPO) + 1:] if p.startswith(fe.REPO + '/') else p


class State:
    def __init__(self):
        self.tmp = {}        # vector name -> ('row', repr) | ('vec', name)
        self.val = {}        # double local -> ('f', src)
        self.stale = 'all'   # 'all' | 'none' | 'tail' (rows >= 1 changed coordinates)
        self.sorted = False
        self.row0_written = False   # since the last sort

    def copy(self):
        s = State()
        s.tmp, s.val, s.stale, s.sorted, s.row0_written = dict(self.tmp), dict(self.val), self.stale, self.sorted, self.row0_written
        return s

    def join(self, o):
        s = State()
        s.tmp = {k: v for k, v in self.tmp.items() if o.tmp.get(k) == v}
        s.val = {k: v for k, v in self.val.items() if o.val.get(k) == v}
        order = {'none': 0, 'tail': 1, 'all': 2}
        s.stale = self.stale if order[self.stale] >= order[o.stale] else o.stale
        s.sorted = self.sorted and o.sorted
        s.row0_written = self.row0_written or o.row0_written
        return s


class Simplex:
    def __init__(self, chk, prog):
        self.chk, self.prog = chk, prog
        self.f = prog.funcs.get(FUNC)
        self.n = {'NM.pairing': 0, 'NM.report': 0, 'NM.monotone': 0}

    def where(self, n):
        return self.f.unit.where(n)

    def ok(self, rule, node, msg):
        self.chk.instance(rule, '%s %s' % (self.where(node), msg))

    def bad(self, rule, construct, node, msg):
        self.chk.instance(rule, '%s %s' % (self.where(node), msg), 'refuted')
        self.chk.violation(Finding(rule, rel(self.f.file), self.f.name, construct, self.where(node), '%s: %s' % (self.f.name, msg)))

    # ---- recognition helpers ----------------------------------------------------------------------------------
    def name(self, n):
        n = strip(n)
        return n['referencedDecl'].get('name') if n.get('kind') == 'DeclRefExpr' else None

    def vec_cell(self, n):
        """V->data[idx] -> (V, idx poly)"""
        n = strip(n)
        if n.get('kind') == 'ArraySubscriptExpr':
            b = strip(kids(n)[0])
            if b.get('kind') == 'MemberExpr' and b.get('name') == 'data' and fe.qual(strip(kids(b)[0])).startswith('dvector'):
                return self.name(kids(b)[0]), exprs.to_poly(kids(n)[1], byname=True)
        return None

    def mat_cell(self, n):
        """x->data[r][c] -> (x, r poly, c poly)"""
        n = strip(n)
        if n.get('kind') == 'ArraySubscriptExpr':
            b = strip(kids(n)[0])
            if b.get('kind') == 'ArraySubscriptExpr':
                bb = strip(kids(b)[0])
                if bb.get('kind') == 'MemberExpr' and bb.get('name') == 'data' and fe.qual(strip(kids(bb)[0])).startswith('matrix'):
                    return self.name(kids(bb)[0]), exprs.to_poly(kids(b)[1], byname=True), exprs.to_poly(kids(n)[1], byname=True)
        return None

    def is_func_call(self, n):
        n = strip(n)
        if n.get('kind') != 'CallExpr':
            return None
        c = strip(kids(n)[0])
        if c.get('kind') == 'DeclRefExpr' and c['referencedDecl'].get('kind') == 'ParmVarDecl':
            a = call_args(n)
            if len(a) == 1:
                return self.name(a[0])
        return None

    def valcol(self, p):
        return p == Poly.atom('%s->col' % self.X) - 1 or p == self.N

    def loop_range(self, loop):
        ind = flow.induction(loop)
        if ind is None or ind['step'].const_value() != 1 or ind['op'] != '<':
            raise Unsupported('loop at %s' % self.where(loop))
        init, cond, inc, body = flow.for_parts(loop)
        c = strip(cond)
        l, r = kids(c)
        bn = r if exprs.path_of(l) == ind['var'] else l
        return ind['var'].split('#')[0], ind['init'], exprs.to_poly(bn, byname=True), body

    def stmts(self, n):
        n = n if n.get('kind') else {}
        return kids(n) if n.get('kind') == 'CompoundStmt' else [n]

    # ---- abstract execution ---------------------------------------------------------------------------------------
    def run(self):
        chk = self.chk
        for r, t in (('NM.pairing', 'every value stored in the simplex table is the objective at the coordinates of the same row'),
                     ('NM.report', 'the value returned and the point copied to `best` come from the same row, the first one after an ascending sort'),
                     ('NM.monotone', 'between sorts only the worst row is replaced or rows >= 1 are shrunk: the best vertex is never overwritten'),
                     ('NM.sort', 'MatrixSort swaps whole rows in ascending key order')):
            chk.rule(r, t)
        f = self.f
        if f is None:
            chk.broke('%s not found' % FUNC)
            return
        try:
            self.prepare()
            st = State()
            st = self.block(kids(f.body), st)
        except Unsupported as e:
            chk.broke('simplex typestate: %s' % e)
            return
        self.check_sort()
        self.check_callees()

    def prepare(self):
        f = self.f
        # the table: the matrix local created by NewMatrix(&x, n+1, n+1); n: size of the start vector
        self.X = None
        for n in walk(f.body):
            if n.get('kind') == 'CallExpr' and callee_name(n) == 'NewMatrix':
                a = call_args(n)
                s = strip(a[0])
                if s.get('kind') == 'UnaryOperator' and s.get('opcode') == '&':
                    self.X = self.name(kids(s)[0])
                    self.rows = exprs.to_poly(a[1], byname=True)
                    self.cols = exprs.to_poly(a[2], byname=True)
        if self.X is None or self.rows != self.cols:
            raise Unsupported('simplex table allocation NewMatrix(&x, n+1, n+1) not recognised')
        self.N = self.cols - 1
        self.vecs = {}
        for n in walk(f.body):
            if n.get('kind') == 'CallExpr' and callee_name(n) == 'NewDVector':
                a = call_args(n)
                s = strip(a[0])
                if s.get('kind') == 'UnaryOperator' and s.get('opcode') == '&':
                    self.vecs[self.name(kids(s)[0])] = exprs.to_poly(a[1], byname=True)

    def coord_bound(self, b):
        """is b the number of coordinates n (x->col-1, x0->size, v->size of a vector allocated with n entries)?"""
        if b == self.N or b == Poly.atom('%s->col' % self.X) - 1:
            return True
        for v, sz in self.vecs.items():
            if b == Poly.atom('%s->size' % v) and sz == self.N:
                return True
        return False

    def row_bound(self, b):
        return b == Poly.atom('%s->row' % self.X) or b == self.rows

    def block(self, stmts, st):
        for s in stmts:
            st = self.stmt(s, st)
            if st is None:
                return None
        return st

    def touches(self, n):
        for x in walk(n):
            if x.get('kind') == 'DeclRefExpr' and x['referencedDecl'].get('name') == self.X:
                return True
        return False

    def stmt(self, s, st):
        s0 = strip(s)
        k = s0.get('kind')
        if k in ('DeclStmt', 'NullStmt', None):
            return st
        if k == 'CompoundStmt':
            return self.block(kids(s0), st)
        if k == 'ForStmt':
            return self.loop(s0, st)
        if k == 'IfStmt':
            ks = kids(s0)
            a = self.stmt(ks[1], st.copy())
            b = self.stmt(ks[2], st.copy()) if len(ks) > 2 else st.copy()
            if a is None:
                return b
            if b is None:
                return a
            return a.join(b)
        if k == 'WhileStmt':
            cond, body = kids(s0)[0], kids(s0)[-1]
            # fixpoint in at most 3 rounds (the lattice is tiny)
            head = st.copy()
            for _ in range(4):
                self.quiet = True
                out = self.block(self.stmts(body), head.copy())
                self.quiet = False
                nh = head.join(out) if out is not None else head
                if (nh.tmp, nh.val, nh.stale, nh.sorted, nh.row0_written) == (head.tmp, head.val, head.stale, head.sorted, head.row0_written):
                    break
                head = nh
            out = self.block(self.stmts(body), head.copy())
            self.loop_exit = head
            return head.join(out) if out is not None else head
        if k == 'BreakStmt':
            return st          # break out of the while: state flows to the exit (joined by the caller's join of head/out)
        if k == 'ReturnStmt':
            self.ret(s0, st)
            return None
        if k == 'CallExpr':
            return self.call(s0, st)
        if k in ('BinaryOperator', 'CompoundAssignOperator'):
            return self.assign(s0, st)
        if k == 'UnaryOperator':
            return st
        raise Unsupported('statement %s at %s' % (k, self.where(s0)))

    quiet = False

    def oblige(self, rule, good, construct, node, okmsg, badmsg):
        if self.quiet:
            return
        self.n[rule] = self.n.get(rule, 0) + 1
        if good:
            self.ok(rule, node, okmsg)
        else:
            self.bad(rule, construct, node, badmsg)

    def assign(self, n, st):
        l, r = kids(n)[0], kids(n)[1]
        mc = self.mat_cell(l)
        if mc and mc[0] == self.X:
            _, rp, cp = mc
            if self.valcol(cp):
                v = self.is_func_call(r)
                if v is not None:
                    src = st.tmp.get(v)
                    self.oblige('NM.pairing', src == ('row', repr(rp)), 'store:%s' % rp, n,
                                'value of row %s := objective(%s) with %s holding the coordinates of row %s' % (rp, v, v, rp),
                                'the value column of row %s receives objective(%s) but %s holds %s: the stored value is not the objective at that row' %
                                (rp, v, v, self.describe(src)))
                    return st
                lit = strip(r)
                if lit.get('kind') == 'DeclRefExpr' or lit.get('kind', '').endswith('Literal') or 'MISSING' in (self.f.unit.text(r) or ''):
                    st.stale = 'all'
                    return st
                raise Unsupported('store to the value column at %s' % self.where(n))
            raise Unsupported('direct store to simplex coordinates outside a recognised loop at %s' % self.where(n))
        nm = self.name(l)
        if nm is not None and fe.is_float_type(strip(l)):
            v = self.is_func_call(r)
            if v is not None:
                st.val[nm] = ('f', st.tmp.get(v))
                return st
            mc = self.mat_cell(r)
            if mc and mc[0] == self.X:
                st.val[nm] = ('cell', repr(mc[1]), repr(mc[2]), st.stale, st.sorted)
                self.result_cell = (nm, mc, n, st.copy())
                return st
            st.val.pop(nm, None)
            return st
        if nm is not None:
            return st           # integer bookkeeping (iter_)
        if self.touches(n):
            raise Unsupported('assignment involving the simplex table at %s' % self.where(n))
        return st

    @staticmethod
    def describe(src):
        if src is None:
            return 'no known point'
        if src[0] == 'row':
            return 'the coordinates of row %s' % src[1]
        if src[0] == 'vec':
            return 'the trial point %s' % src[1]
        if src[0] == 'f':
            return 'objective(%s)' % Simplex.describe(src[1])
        return repr(src)

    def loop(self, n, st):
        var, lo, bound, body = self.loop_range(n)
        ss = [strip(x) for x in self.stmts(body)]
        # (a) copy the coordinates of a row:   V->data[j] = x->data[R][j]
        if len(ss) == 1 and ss[0].get('kind') == 'BinaryOperator' and ss[0].get('opcode') == '=':
            vc, mc = self.vec_cell(kids(ss[0])[0]), self.mat_cell(kids(ss[0])[1])
            if vc and mc and mc[0] == self.X and vc[1] == Poly.atom(var) and mc[2] == Poly.atom(var) and var not in mc[1].atoms():
                full = lo == Poly.const(0) and self.coord_bound(bound)
                if vc[0] in {p_.get('name') for p_ in self.f.params}:
                    self.result_copy = (vc[0], mc, n, st.copy(), lo, bound)     # output parameter: the point returned
                    return st
                st.tmp[vc[0]] = ('row', repr(mc[1])) if full else None
                return st
            # (a') result copy   best->data[i] = x->data[b][i]
            if vc and mc and mc[0] == self.X and vc[1] == Poly.atom(var) and mc[2] == Poly.atom(var):
                pass
        # (b) trial point:   A->data[i] = expr;  V->data[i] = A->data[i];
        if len(ss) == 2 and all(x.get('kind') == 'BinaryOperator' and x.get('opcode') == '=' for x in ss):
            a1, a2 = self.vec_cell(kids(ss[0])[0]), self.vec_cell(kids(ss[1])[0])
            src2 = self.vec_cell(kids(ss[1])[1])
            if a1 and a2 and src2 and src2[0] == a1[0] and all(p == Poly.atom(var) for p in (a1[1], a2[1], src2[1])):
                full = lo == Poly.const(0) and self.coord_bound(bound)
                st.tmp[a2[0]] = ('vec', a1[0]) if full else None
                # anything previously evaluated at a1 is no longer at a1
                st.val = {k: v for k, v in st.val.items() if v != ('f', ('vec', a1[0]))}
                st.tmp = {k: (None if v == ('vec', a1[0]) and k != a2[0] else v) for k, v in st.tmp.items()}
                return st
        # (c) evaluate every row:  for i in rows { copy row i -> V ; x[i][valcol] = func(V) }
        if self.row_bound(bound) and (lo == Poly.const(0) or lo == Poly.const(1)):
            inner = st.copy()
            out = self.block(ss, inner)
            stores = [x for x in walk(body) if x.get('kind') == 'BinaryOperator' and x.get('opcode') == '=' and self.mat_cell(kids(x)[0]) and
                      self.mat_cell(kids(x)[0])[0] == self.X]
            evals = [x for x in stores if self.valcol(self.mat_cell(kids(x)[0])[2]) and self.is_func_call(kids(x)[1]) is not None and
                     self.mat_cell(kids(x)[0])[1] == Poly.atom(var)]
            if evals and len(stores) == len(evals):
                st.tmp = out.tmp if out else {}
                st.val = out.val if out else {}
                if lo == Poly.const(0) or st.stale == 'tail':
                    st.stale = 'none'       # starting at row 1 is enough when only rows >= 1 moved
                return st
        # (d) building the initial simplex: stores into x of rows i (coordinates and a sentinel value)
        targets = [self.mat_cell(kids(x)[0]) for x in walk(body) if x.get('kind') == 'BinaryOperator' and x.get('opcode') == '=' and self.mat_cell(kids(x)[0])]
        if targets and all(t[0] == self.X for t in targets):
            if any(self.is_func_call(kids(x)[1]) is not None for x in walk(body) if x.get('kind') == 'BinaryOperator' and x.get('opcode') == '='):
                raise Unsupported('objective stored in an unrecognised loop at %s' % self.where(n))
            st.stale = 'all'
            st.sorted = False
            st.row0_written = True
            return st
        # (e) copy of the result:  best->data[i] = x->data[b][i]
        if len(ss) == 1 and ss[0].get('kind') == 'BinaryOperator' and ss[0].get('opcode') == '=':
            vc, mc = self.vec_cell(kids(ss[0])[0]), self.mat_cell(kids(ss[0])[1])
            if vc and mc and mc[0] == self.X:
                self.result_copy = (vc[0], mc, n, st.copy(), lo, bound)
                return st
        written = set()
        for x in walk(body):
            if x.get('kind') in ('BinaryOperator', 'CompoundAssignOperator') and (x.get('opcode') or '').endswith('=') and x.get('opcode') not in ('==', '!=', '<=', '>='):
                vc = self.vec_cell(kids(x)[0])
                if vc:
                    written.add(vc[0])
                elif self.mat_cell(kids(x)[0]) and self.mat_cell(kids(x)[0])[0] == self.X:
                    raise Unsupported('loop storing into the simplex table at %s' % self.where(n))
        for v in written:
            self.invalidate(st, v)
        return st

    def invalidate(self, st, v):
        st.tmp[v] = None
        st.tmp = {k: (None if t == ('vec', v) else t) for k, t in st.tmp.items()}
        st.val = {k: t for k, t in st.val.items() if t != ('f', ('vec', v))}

    def call(self, n, st):
        cn = callee_name(n)
        a = call_args(n)
        if cn == 'MatrixSort' and a and self.name(a[0]) == self.X:
            keyp = exprs.to_poly(a[1], byname=True)
            self.oblige('NM.pairing', st.stale == 'none' and self.valcol(keyp), 'sort', n,
                        'sorted on the value column with every row holding the objective at its coordinates',
                        'the table is sorted %s: the order (and hence "best" and "worst") is decided by values that are not the objective at '
                        'their rows' % ('while rows hold stale values (%s rows not re-evaluated)' % st.stale if st.stale != 'none'
                                        else 'on column %s, not the value column' % keyp))
            st.sorted = True
            st.row0_written = False
            st.tmp = {k: v for k, v in st.tmp.items() if not (v and v[0] == 'row')}
            return st
        if cn == 'replace_xnp1' and len(a) == 3 and self.name(a[0]) == self.X:
            v, r = self.name(a[1]), self.name(a[2])
            got = st.val.get(r)
            self.oblige('NM.pairing', got == ('f', ('vec', v)), 'replace:%s' % v, n,
                        'worst row := (%s, %s) with %s == objective(%s)' % (v, r, r, v),
                        'the worst row receives the point %s together with %s, which is %s: the table row no longer pairs a point with its '
                        'own objective value' % (v, r, self.describe(got)))
            self.oblige('NM.monotone', st.sorted, 'replace-sorted:%s' % v, n,
                        'replaces row x->row-1, the worst after the preceding sort; row 0 untouched',
                        'the row replaced is x->row-1 but the table has not been sorted since it was last modified: the row replaced need not be the worst')
            st.sorted = False
            return st
        if cn == 'shrink' and a and self.name(a[0]) == self.X:
            self.oblige('NM.monotone', st.sorted, 'shrink', n, 'shrinks rows >= 1 towards row 0, the best after the preceding sort',
                        'shrink moves rows towards row 0 but the table is not sorted: row 0 need not be the best vertex')
            st.stale = 'tail'
            st.sorted = False
            st.tmp = {k: v for k, v in st.tmp.items() if not (v and v[0] == 'row')}
            return st
        if cn == 'gen_centroids':
            return st
        if cn in ('DVectorResize', 'NewDVector', 'NewMatrix', 'initMatrix', 'DelDVector', 'DelMatrix', 'printf', 'puts', 'PrintMatrix', 'PrintDVector'):
            if cn == 'DelMatrix' or cn == 'NewMatrix':
                return st
            return st
        if self.touches(n):
            raise Unsupported('call %s on the simplex table at %s' % (cn, self.where(n)))
        return st

    def ret(self, n, st):
        rv = self.name(kids(n)[0]) if kids(n) else None
        rc = getattr(self, 'result_cell', None)
        cp = getattr(self, 'result_copy', None)
        if rv is None or rc is None or rc[0] != rv or cp is None:
            raise Unsupported('result statements (best copy / res = x[0][n] / return res) not recognised')
        _, (xn, rrow, rcol), rnode, rst = rc
        bname, (xn2, brow, bcol), bnode, bst, lo, bound = cp
        zero = Poly.const(0)
        good = (rrow == brow == zero and self.valcol(rcol) and lo == zero and self.coord_bound(bound) and
                rst.stale == 'none' and bst.stale == 'none' and rst.sorted and bst.sorted)
        why = []
        if rrow != brow:
            why.append('the value comes from row %s but the point from row %s' % (rrow, brow))
        if rrow != zero or brow != zero:
            why.append('row %s is not the first (best) row of the ascending sort' % (rrow if rrow != zero else brow))
        if not self.valcol(rcol):
            why.append('column %s is not the value column' % rcol)
        if not (lo == zero and self.coord_bound(bound)):
            why.append('the copy covers coordinates [%s, %s), not all n of them' % (lo, bound))
        if rst.stale != 'none' or bst.stale != 'none' or not (rst.sorted and bst.sorted):
            why.append('the table is not sorted / re-evaluated at that point')
        self.quiet = False
        self.oblige('NM.report', good, 'report', rnode,
                    'returns x[0][value column] and copies x[0][0..n) to %s right after an ascending sort of a fully evaluated table' % bname,
                    'the reported value is not the objective at the returned point: ' + '; '.join(why))

    # ---- callees ------------------------------------------------------------------------------------------------------
    def check_sort(self):
        g = self.prog.funcs.get('MatrixSort')
        if g is None or g.body is None:
            self.chk.broke('MatrixSort not found')
            return
        m, key = g.params[0]['name'], g.params[1]['name']
        loops = [n for n in walk(g.body) if n.get('kind') == 'ForStmt']
        ifs = [n for n in walk(g.body) if n.get('kind') == 'IfStmt']
        good = False
        msg = 'shape not recognised'
        if len(loops) == 3 and len(ifs) == 1:
            try:
                rng = [self._rng(l) for l in loops]
            except Exception:
                rng = None
            if rng:
                (v1, lo1, b1), (v2, lo2, b2), (v3, lo3, b3) = rng
                c = strip(kids(ifs[0])[0])
                if c.get('kind') == 'BinaryOperator' and c.get('opcode') in ('>', '<'):
                    l, r = kids(c)
                    from .exprs import path_of
                    lt, rt = path_of(l, byname=True), path_of(r, byname=True)
                    asc = (lt == '%s->data[%s][%s]' % (m, v1, key) and rt == '%s->data[%s][%s]' % (m, v2, key) and c['opcode'] == '>') or \
                          (lt == '%s->data[%s][%s]' % (m, v2, key) and rt == '%s->data[%s][%s]' % (m, v1, key) and c['opcode'] == '<')
                    whole = lo3 == Poly.const(0) and b3 == Poly.atom('%s->col' % m)
                    later = lo2 == Poly.atom(v1) + 1
                    good = asc and whole and later
                    msg = 'ascending=%s whole-row swap=%s inner loop starts after the outer row=%s' % (asc, whole, later)
        if good:
            self.chk.instance('NM.sort', '%s MatrixSort: swaps all m->col cells of rows i<j when key[i] > key[j]' % g.where)
        else:
            self.chk.instance('NM.sort', '%s MatrixSort: %s' % (g.where, msg), 'refuted')
            self.chk.violation(Finding('NM.sort', rel(g.file), g.name, 'sort-shape', g.where,
                                       'MatrixSort: %s; the simplex relies on an ascending sort that moves whole rows (point and value together)' % msg))

    def _rng(self, loop):
        ind = flow.induction(loop)
        init, cond, inc, body = flow.for_parts(loop)
        c = strip(cond)
        l, r = kids(c)
        bn = r if exprs.path_of(l) == ind['var'] else l
        if ind['step'].const_value() != 1 or ind['op'] != '<':
            raise Unsupported('sort loop')
        init_s = strip(init)
        a = exprs.to_poly(kids(init_s)[1], byname=True)
        return ind['var'].split('#')[0], a, exprs.to_poly(bn, byname=True)

    def check_callees(self):
        """replace_xnp1 writes only row row-1 (all coordinates from the vector, the value from the scalar); shrink leaves row 0 alone"""
        g = self.prog.funcs.get('replace_xnp1')
        h = self.prog.funcs.get('shrink')
        if g is None or h is None:
            self.chk.broke('replace_xnp1 / shrink not found')
            return
        xm, vv, rr = (p['name'] for p in g.params[:3])
        last = Poly.atom('%s->row' % xm) - 1
        stores = [n for n in walk(g.body) if n.get('kind') == 'BinaryOperator' and n.get('opcode') == '=' and self.mat_cell(kids(n)[0])]
        good = len(stores) == 2
        coords = vals = 0
        for n in stores:
            _, rp, cp = self.mat_cell(kids(n)[0])
            if rp != last:
                good = False
            src = self.vec_cell(kids(n)[1])
            if src and src[0] == vv and src[1] == cp:
                coords += 1
            elif self.name(kids(n)[1]) == rr and cp == Poly.atom('%s->col' % xm) - 1:
                vals += 1
        loops = [n for n in walk(g.body) if n.get('kind') == 'ForStmt']
        full = False
        if len(loops) == 1:
            v, lo, b = self._rng(loops[0])
            full = lo == Poly.const(0) and b == Poly.atom('%s->size' % vv)
        if good and coords == 1 and vals == 1 and full:
            self.chk.instance('NM.monotone', '%s replace_xnp1 writes row row-1 only: every coordinate from the vector, the value column from the scalar' % g.where)
        else:
            self.chk.instance('NM.monotone', '%s replace_xnp1 shape' % g.where, 'refuted')
            self.chk.violation(Finding('NM.monotone', rel(g.file), g.name, 'replace-shape', g.where,
                                       'replace_xnp1 no longer writes exactly (all coordinates of the vector, the value) into the last row: the row that is '
                                       'replaced is not the worst one, or the point and its value are split'))
        xm = h.params[0]['name']
        stores = [n for n in walk(h.body) if n.get('kind') == 'BinaryOperator' and n.get('opcode') == '=' and self.mat_cell(kids(n)[0])]
        loops = [n for n in walk(h.body) if n.get('kind') == 'ForStmt']
        good = False
        how = ''
        if len(loops) == 2 and len(stores) == 1:
            v, lo, b = self._rng(loops[0])
            _, rp, cp = self.mat_cell(kids(stores[0])[0])
            if rp == Poly.atom(v) and (lo - 1).const_value() is not None and (lo - 1).const_value() >= 0:
                good, how = True, 'writes rows >= 1 only'
            elif rp == Poly.atom(v):
                # row 0 may be written if it is a fixed point of the map:  rhs with the row variable := 0 is x[0][j] again
                from .spline import Spline, Rat, Unsupported as U2
                sp = Spline(self.chk, self.prog)
                sp.inline, sp.arrays = set(), {}
                try:
                    r0 = sp.rat(kids(stores[0])[1], {v: Poly.const(0)}, None, expand=False)
                    good = r0.same(Rat(Poly.atom('%s[0][%s]' % (xm, cp))))
                    how = 'maps row 0 to itself'
                except U2:
                    good = False
        if good:
            self.chk.instance('NM.monotone', '%s shrink %s: row 0 keeps its coordinates' % (h.where, how))
        else:
            self.chk.instance('NM.monotone', '%s shrink shape' % h.where, 'refuted')
            self.chk.violation(Finding('NM.monotone', rel(h.file), h.name, 'shrink-shape', h.where,
                                       'shrink may now write row 0: the best vertex is not preserved by a shrink step'))


def run(chk, prog):
    s = Simplex(chk, prog)
    s.run()
    return s
