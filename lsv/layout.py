"""E5 layout: index-role typing for the q*A (responses x latent variables) column layout.

Every extent-valued expression gets a role from {q, A, qA}; every index expression gets idx(role).
The property's own anchor fixes the layout of the q*A-column matrices: LV-major, column = q*lv + j.
Rules:
  compose   a subscript  c*major + minor  of a qA dimension needs role(c)=q, major: idx(A), minor: idx(q)
  decompose col / d  or  col % d  of an idx(qA) value needs role(d)=q ( / gives idx(A), % gives idx(q) )
  subscript a dimension of role R in {q, A, qA} is subscripted only by idx(R)
  append    columns appended to a qA matrix inside a loop nest: outer loop idx(A), inner loop idx(q)
Roles come from struct-field identities, parameter positions of the public functions (table below,
Appendix A of DESIGN.md) and local dataflow; unknown roles make an instance undecided, never refuted.
"""
import os

from . import frontend as fe
from .frontend import kids, strip, walk, callee_name, call_args
from . import exprs, flow
from .program import is_assign, lvalue_base
from .report import Finding

Q, A, QA = 'q', 'A', 'qA'

# (struct typedef, field) -> {dim: role}
FIELD_ROLES = {
    ('PLSMODEL', 'yloadings'): {'row': Q, 'col': A},
    ('PLSMODEL', 'b'): {'size': A},
    ('PLSMODEL', 'recalculated_y'): {'col': QA},
    ('PLSMODEL', 'recalc_residuals'): {'col': QA},
    ('PLSMODEL', 'predicted_y'): {'col': QA},
    ('PLSMODEL', 'pred_residuals'): {'col': QA},
    ('PLSMODEL', 'xscores'): {'col': A},
    ('PLSMODEL', 'yscores'): {'col': A},
    ('PLSMODEL', 'xloadings'): {'col': A},
    ('PLSMODEL', 'xweights'): {'col': A},
    ('PLSMODEL', 'ycolaverage'): {'size': Q},
    ('PLSMODEL', 'ycolscaling'): {'size': Q},
    ('MODELINPUT', 'my'): {'col': Q},
    ('MODELINPUT', 'nlv'): {'value': A},
}
# function -> {param index: {dim: role}}   (scalar parameters use dim 'value')
PARAM_ROLES = {
    'PLS': {1: {'col': Q}, 2: {'value': A}},
    'PLSYPredictor': {2: {'value': A}},
    'PLSRegressionStatistics': {0: {'col': Q}, 1: {'col': QA}},
    'PLSDiscriminantAnalysisStatistics': {0: {'col': Q}, 1: {'col': QA}},
}
FUNCTIONS = {
    'pls.c': ['PLS', 'PLSYPredictorAllLV', 'PLSYPredictor', 'PLSRegressionStatistics', 'PLSDiscriminantAnalysisStatistics'],
    'modelvalidation.c': ['BootstrapRandomGroupsCV', 'LeaveOneOut', 'KFoldCV'],
}
ALLOC = {'NewMatrix': (0, {'row': 1, 'col': 2}), 'ResizeMatrix': (0, {'row': 1, 'col': 2}),
         'NewDVector': (0, {'size': 1}), 'DVectorResize': (0, {'size': 1})}


def rel(p):
    return os.path.relpath(p, fe.REPO)


def join(a, b):
    if a is None:
        return b
    if b is None or a == b:
        return a
    if {a, b} == {Q, QA}:
        return QA          # a q-column matrix is the A = 1 case of the LV-major layout
    return 'conflict'


def mul(a, b):
    if a is None:
        return b
    if b is None:
        return a
    return QA if {a, b} == {Q, A} else 'conflict'


def div(a, b):
    if a == QA and b == Q:
        return A
    if a == QA and b == A:
        return Q
    if b is None:
        return a
    return None


class FuncRoles:
    def __init__(self, prog, f):
        self.prog, self.f = prog, f
        self.pidx = {p['id']: i for i, p in enumerate(f.params)}
        self.pm = flow.parent_map(f.body)
        self.defs = {}         # var id -> [rhs expr]
        self.allocs = {}       # var id -> [(dimmap, call)]
        for n in walk(f.body):
            if is_assign(n) and n.get('opcode') == '=':
                l = strip(kids(n)[0])
                if l.get('kind') == 'DeclRefExpr':
                    self.defs.setdefault(l['referencedDecl']['id'], []).append(kids(n)[1])
            if n.get('kind') == 'VarDecl' and kids(n):
                self.defs.setdefault(n['id'], []).append(kids(n)[-1])
            if n.get('kind') == 'CallExpr':
                cn = callee_name(n)
                if cn in ALLOC:
                    ai, dm = ALLOC[cn]
                    a = call_args(n)
                    if len(a) > ai:
                        root, _ = lvalue_base(a[ai])
                        if root is not None and strip(a[ai]).get('kind') in ('DeclRefExpr', 'UnaryOperator'):
                            t = strip(a[ai])
                            if t.get('kind') == 'UnaryOperator':
                                t = strip(kids(t)[0])
                            if t.get('kind') == 'DeclRefExpr':
                                self.allocs.setdefault(root['id'], []).append(({d: a[i] for d, i in dm.items() if i < len(a)}, n))
                elif cn:
                    # callee post-roles: g resizes its parameter k with role-evaluable extents
                    g = prog.resolve(f, cn)
                    if g is not None and g.body is not None and g is not f:
                        post = callee_post_roles(prog, g)
                        a = call_args(n)
                        for k, dims in post.items():
                            if k < len(a):
                                t = strip(a[k])
                                if t.get('kind') == 'UnaryOperator' and t.get('opcode') == '&':
                                    t = strip(kids(t)[0])
                                if t.get('kind') == 'DeclRefExpr':
                                    self.allocs.setdefault(t['referencedDecl']['id'], []).append(({d: ('role', r) for d, r in dims.items()}, n))
        self._busy = set()

    # ---- extent roles -------------------------------------------------------------
    def ext(self, e):
        """role of an integer extent expression (or None)"""
        e = strip(e)
        k = e.get('kind')
        if isinstance(e, tuple):
            return e[1]
        if k == 'IntegerLiteral':
            return None
        if k == 'CallExpr' and callee_name(e) in ('floor', 'ceil') and call_args(e):
            return self.ext(call_args(e)[0])
        if k == 'BinaryOperator':
            a, b = kids(e)
            if e['opcode'] == '*':
                return mul(self.ext(a), self.ext(b))
            if e['opcode'] == '/':
                return div(self.ext(a), self.ext(b))
            return None
        if k == 'MemberExpr' and e.get('name') in ('row', 'col', 'size', 'order'):
            return self.dim(kids(e)[0], e['name'])
        if k == 'MemberExpr':
            st = struct_of(kids(e)[0])
            r = FIELD_ROLES.get((st, e.get('name')), {}).get('value')
            return r
        if k == 'DeclRefExpr':
            d = e['referencedDecl']
            if d.get('kind') == 'ParmVarDecl':
                r = PARAM_ROLES.get(self.f.name, {}).get(self.pidx.get(d['id']), {}).get('value')
                if r:
                    return r
            return self.var_role(d['id'], lambda x: self.ext(x))
        return None

    def var_role(self, vid, fn):
        if vid in self._busy:
            return None
        self._busy.add(vid)
        try:
            r = None
            for rhs in self.defs.get(vid, []):
                r = join(r, fn(rhs))
            return None if r == 'conflict' else r
        finally:
            self._busy.discard(vid)

    def dim(self, c, d):
        """role of dimension d of container expression c"""
        c = strip(c)
        k = c.get('kind')
        if k == 'MemberExpr':
            st = struct_of(kids(c)[0])
            r = FIELD_ROLES.get((st, c.get('name')), {}).get(d)
            if r:
                return r
            return None
        if k == 'UnaryOperator' and c.get('opcode') == '*':
            return self.dim(kids(c)[0], d)
        if k == 'DeclRefExpr':
            dec = c['referencedDecl']
            vid = dec['id']
            if dec.get('kind') == 'ParmVarDecl':
                r = PARAM_ROLES.get(self.f.name, {}).get(self.pidx.get(vid), {}).get(d)
                if r:
                    return r
            r = None
            if vid not in self._busy:
                self._busy.add(vid)
                try:
                    for (dm, call) in self.allocs.get(vid, []):
                        if d in dm:
                            x = dm[d]
                            r = join(r, x[1] if isinstance(x, tuple) else self.ext(x))
                    for rhs in self.defs.get(vid, []):
                        rs = strip(rhs)
                        if rs.get('kind') in ('MemberExpr', 'DeclRefExpr'):
                            r = join(r, self.dim(rs, d))
                finally:
                    self._busy.discard(vid)
            return None if r == 'conflict' else r
        return None

    # ---- index roles --------------------------------------------------------------
    def loop_var_role(self, vid, at):
        """role R such that the variable ranges over [0, extent of role R) at node `at`"""
        for lp in flow.enclosing_loops(self.pm, at):
            ind = flow.induction(lp)
            if ind and ind['var'].endswith('#' + vid):
                init, cond, inc, body = flow.loop_parts(lp)
                c = strip(cond)
                l, r = kids(c)
                bound = r if exprs.path_of(l) == ind['var'] else l
                return self.ext(bound), ind
        return None, None

    def idx(self, e, at):
        """('idx', R) | ('err', message) | None for an index expression"""
        e = strip(e)
        k = e.get('kind')
        if k == 'CallExpr' and callee_name(e) in ('floor', 'ceil') and call_args(e):
            return self.idx(call_args(e)[0], at)
        if k == 'DeclRefExpr':
            vid = e['referencedDecl']['id']
            r, ind = self.loop_var_role(vid, at)
            if r:
                return ('idx', r)
            # a local holding an index: role of its definitions (evaluated where they are written)
            if vid in self._busy:
                return None
            self._busy.add(vid)
            try:
                out = None
                for rhs in self.defs.get(vid, []):
                    x = self.idx(rhs, rhs)
                    if x is None:
                        continue
                    if x[0] == 'err':
                        return x
                    if out is not None and out != x:
                        return None
                    out = x
                return out
            finally:
                self._busy.discard(vid)
        if k == 'BinaryOperator' and e.get('opcode') in ('/', '%'):
            a, b = kids(e)
            ia = self.idx(a, at)
            rb = self.ext(b)
            if ia and ia[0] == 'idx' and ia[1] == QA:
                if rb == Q:
                    return ('idx', A if e['opcode'] == '/' else Q)
                return None      # a divisor of role A is reported by the LY.decompose rule at the operator
            return None
        if k == 'BinaryOperator' and e.get('opcode') == '+':
            p = exprs.to_poly(e)
            return self.compose(e, at)
        return None

    def compose(self, e, at):
        """c*major + minor"""
        terms = []
        def flat(x):
            x = strip(x)
            if x.get('kind') == 'BinaryOperator' and x.get('opcode') == '+':
                for c in kids(x):
                    flat(c)
            else:
                terms.append(x)
        flat(e)
        if len(terms) != 2:
            return None
        prod = [t for t in terms if t.get('kind') == 'BinaryOperator' and t.get('opcode') == '*']
        rest = [t for t in terms if t not in prod]
        if len(prod) != 1 or len(rest) != 1:
            return None
        a, b = kids(prod[0])
        cands = [(a, b), (b, a)]
        minor = self.idx(rest[0], at)
        for (c, major) in cands:
            rc = self.ext(c)
            im = self.idx(major, at)
            if rc and im and im[0] == 'idx' and minor and minor[0] == 'idx':
                if rc == Q and im[1] == A and minor[1] == Q:
                    return ('idx', QA)
                return ('err', 'column computed as (%s)*(%s)+(%s) has multiplier role %s, major index over %s, minor index over %s; '
                        'the LV-major layout needs multiplier q, major over A, minor over q'
                        % (self.f.unit.text(c), self.f.unit.text(major), self.f.unit.text(rest[0]), rc, im[1], minor[1]))
        return None


def struct_of(e):
    t = fe.qual(strip(e, casts=False)) or ''
    t = (strip(e, casts=False).get('type') or {}).get('qualType', t)
    return t.replace('*', '').replace('const', '').replace('struct', '').strip()


_post_cache = {}


def callee_post_roles(prog, g):
    """{param index: {dim: role}} for parameters g (re)allocates with role-evaluable extents"""
    if g in _post_cache:
        return _post_cache[g]
    _post_cache[g] = {}
    fr = FuncRoles(prog, g) if g.name in ('PLSYPredictor', 'PLSYPredictorAllLV') else None
    out = {}
    if fr is not None:
        for vid, lst in fr.allocs.items():
            if vid in fr.pidx:
                for (dm, call) in lst:
                    for d, x in dm.items():
                        r = x[1] if isinstance(x, tuple) else fr.ext(x)
                        if r:
                            out.setdefault(fr.pidx[vid], {})[d] = r
    _post_cache[g] = out
    return out


def run(chk, prog, functions=None, rules=('subscript', 'compose', 'decompose', 'append')):
    R_sub = chk.rule('LY.subscript', 'a matrix dimension of role R in {q, A, q*A} is subscripted only by an index of role '
                     'idx(R); compose c*major+minor needs (q, idx(A), idx(q)); decomposing an idx(q*A) value needs divisor q')
    R_dec = chk.rule('LY.decompose', 'an index over the q*A columns is split with / or % only by a divisor of role q '
                     '( / gives the latent variable, % the response)')
    R_app = chk.rule('LY.append', 'columns appended to a q*A matrix inside a loop nest: the outer loop ranges over latent '
                     'variables, the inner over responses (LV-major producer)')
    functions = functions or FUNCTIONS
    ncomp = ndec = 0
    for unit, names in functions.items():
        for name in names:
            f = prog.funcs.get(name)
            if f is None:
                chk.broke('layout: function %s not found' % name)
                continue
            fr = FuncRoles(prog, f)
            seen = set()
            for n in walk(f.body):
                if n.get('kind') == 'ArraySubscriptExpr':
                    base, index = kids(n)
                    b = strip(base)
                    dimrole = None
                    what = None
                    # X->data[i][j]: outer subscript (this node) indexes columns when base is X->data[i]
                    if b.get('kind') == 'ArraySubscriptExpr':
                        bb = strip(kids(b)[0])
                        if bb.get('kind') == 'MemberExpr' and bb.get('name') == 'data':
                            dimrole = fr.dim(kids(bb)[0], 'col')
                            what = f.unit.text(kids(bb)[0]) + ' column'
                    elif b.get('kind') == 'MemberExpr' and b.get('name') == 'data':
                        cont = kids(b)[0]
                        ct = struct_of(cont)
                        if ct == 'matrix':
                            dimrole = fr.dim(cont, 'row')
                            what = f.unit.text(cont) + ' row'
                        else:
                            dimrole = fr.dim(cont, 'size')
                            what = f.unit.text(cont) + ' element'
                    ir = fr.idx(index, n)
                    key = f.unit.text(n)
                    is_comp = strip(index).get('kind') == 'BinaryOperator' and strip(index).get('opcode') == '+'
                    has_dec = False
                    if ir and ir[0] == 'err':
                        chk.instance(R_sub, '%s %s: %s' % (f.unit.where(n), name, key), 'refuted')
                        chk.violation(Finding('LY.subscript', rel(f.file), name, exprs.text_key(index), f.unit.where(n),
                                              'in `%s`: %s' % (key, ir[1])))
                        ncomp += is_comp
                        ndec += has_dec
                        continue
                    if dimrole in (Q, A, QA) and ir and ir[0] == 'idx':
                        ncomp += is_comp
                        ndec += has_dec
                        ok = (ir[1] == dimrole) or (dimrole == QA and ir[1] == Q and False)
                        if ok:
                            chk.instance(R_sub, '%s %s: %s  [%s dimension, index over %s]' % (f.unit.where(n), name, key, dimrole, ir[1]))
                        else:
                            chk.instance(R_sub, '%s %s: %s' % (f.unit.where(n), name, key), 'refuted')
                            chk.violation(Finding('LY.subscript', rel(f.file), name, exprs.text_key(n), f.unit.where(n),
                                                  '`%s`: the %s dimension has role %s but the subscript ranges over %s'
                                                  % (key, what, dimrole, ir[1])))
                    elif dimrole in (Q, A, QA) or (ir and ir[0] == 'idx'):
                        chk.instance(R_sub, '%s %s: %s (dimension %s, index %s)' % (f.unit.where(n), name, key, dimrole, ir), 'undecided')
                if n.get('kind') == 'BinaryOperator' and n.get('opcode') in ('/', '%'):
                    a_, b_ = kids(n)
                    ia = fr.idx(a_, n)
                    if ia and ia[0] == 'idx' and ia[1] == QA:
                        ndec += 1
                        rb = fr.ext(b_)
                        desc = '%s %s: %s decomposes a q*A column index with divisor role %s' % (f.unit.where(n), name, f.unit.text(n), rb)
                        if rb == Q:
                            chk.instance(R_dec, desc)
                        elif rb == A:
                            chk.instance(R_dec, desc, 'refuted')
                            chk.violation(Finding('LY.decompose', rel(f.file), name, exprs.text_key(n), f.unit.where(n),
                                                  '`%s`: column index of an LV-major q*A matrix is decomposed with a divisor that counts '
                                                  'latent variables (%s); under column = q*lv + j the divisor must be the number of responses'
                                                  % (f.unit.text(n), f.unit.text(b_))))
                        else:
                            chk.instance(R_dec, desc, 'undecided')
                if n.get('kind') == 'CallExpr' and callee_name(n) == 'MatrixAppendCol':
                    a = call_args(n)
                    if fr.dim(a[0], 'col') == QA:
                        loops = flow.enclosing_loops(fr.pm, n)
                        roles = []
                        for lp in loops:
                            ind = flow.induction(lp)
                            if ind:
                                init, cond, inc, body = flow.loop_parts(lp)
                                c = strip(cond)
                                l, r = kids(c)
                                bound = r if exprs.path_of(l) == ind['var'] else l
                                roles.append(fr.ext(bound))
                        roles = [r for r in roles if r]
                        desc = '%s %s appends to %s inside loops over %s (innermost first)' % (f.unit.where(n), name, f.unit.text(a[0]), roles)
                        if roles == [Q, A]:
                            chk.instance(R_app, desc)
                        elif len(roles) >= 2:
                            chk.instance(R_app, desc, 'refuted')
                            chk.violation(Finding('LY.append', rel(f.file), name, 'append:' + exprs.text_key(a[0]), f.unit.where(n),
                                                  'columns are appended to the q*A matrix %s with loops over %s (innermost first); '
                                                  'LV-major needs responses innermost, latent variables outermost' % (f.unit.text(a[0]), roles)))
                        else:
                            chk.instance(R_app, desc, 'undecided')
    chk.extra['composing_sites'] = ncomp
    chk.extra['decomposing_sites'] = ndec
    return ncomp, ndec
