"""Self-test: apply single-edit mutants (and behaviour-preserving edits) to scratch copies of the
*current* /repo/src, re-run the property's rules on the copy, and require mutants to be reported
(with the expected rule) and tolerated edits to stay silent.  Nothing is compiled into an
executable or run; the copy is only parsed.  Used by the thorough tier and by hand:
    python3 -m lsv.selftest C06 [name-substring]
"""
import json
import os
import shutil
import subprocess
import sys
import tempfile
from concurrent.futures import ThreadPoolExecutor

VERIF = os.path.dirname(os.path.dirname(os.path.abspath(__file__)))
REPO = os.environ.get('LSV_REPO', '/repo')


def load_specs(pid):
    p = os.path.join(VERIF, 'selftest', pid + '.json')
    if not os.path.exists(p):
        return []
    return json.load(open(p))


def apply_edit(root, spec):
    """returns None if applied, else the reason it could not be applied"""
    if spec.get('patch'):
        # a recorded seeded change (unified diff relative to the repository root), see /verif/seeded/
        pf = os.path.join(VERIF, spec['patch'])
        if not os.path.exists(pf):
            return 'patch file %s missing' % spec['patch']
        r = subprocess.run('patch -p1 -s -f -d %s < %s' % (root, pf), shell=True, stdout=subprocess.PIPE, stderr=subprocess.STDOUT)
        if r.returncode != 0:
            return 'patch no longer applies: ' + r.stdout.decode()[:160]
        return None
    for ed in spec.get('edits', [spec]):
        path = os.path.join(root, ed['file'])
        if not os.path.exists(path):
            return 'file %s missing' % ed['file']
        s = open(path).read()
        n = s.count(ed['find'])
        if n == 0:
            return 'anchor text not found in %s' % ed['file']
        if n > 1 and not ed.get('all') and 'nth' not in ed:
            return 'anchor text occurs %d times in %s' % (n, ed['file'])
        if 'nth' in ed:
            idx = -1
            for _ in range(ed['nth'] + 1):
                idx = s.find(ed['find'], idx + 1)
                if idx < 0:
                    return 'anchor occurrence %d not found' % ed['nth']
            s = s[:idx] + ed['replace'] + s[idx + len(ed['find']):]
        else:
            s = s.replace(ed['find'], ed['replace'])
        open(path, 'w').write(s)
    return None


def run_one(pid, spec, tier='quick'):
    base = tempfile.mkdtemp(prefix='lsv-mut-')
    try:
        shutil.copytree(os.path.join(REPO, 'src'), os.path.join(base, 'src'),
                        ignore=shutil.ignore_patterns('tests', '*.o', '*.so'))
        why = apply_edit(base, spec)
        if why:
            return {'name': spec['name'], 'status': 'skipped', 'reason': why}
        # the mutant must still be valid C
        for ed in ([] if spec.get('patch') else spec.get('edits', [spec])):
            if ed['file'].endswith('.c'):
                r = subprocess.run(['clang', '-fsyntax-only', '-w', '-I' + os.path.join(base, 'src'),
                                    '-I' + os.path.join(REPO, '_build'), '-DVERSION_MAJOR=0',
                                    '-include', os.devnull, os.path.join(base, ed['file'])],
                                   stdout=subprocess.PIPE, stderr=subprocess.PIPE)
                if r.returncode != 0 and b'scientificconfig.h' not in r.stderr:
                    return {'name': spec['name'], 'status': 'skipped', 'reason': 'mutant does not compile: ' + r.stderr.decode()[:200]}
        env = dict(os.environ, LSV_REPO=base, LSV_EVID=os.path.join(base, 'evidence'), LSV_SELFTEST='1')
        r = subprocess.run([os.path.join(VERIF, 'check'), pid, '--tier', tier], env=env, cwd=VERIF,
                           stdout=subprocess.PIPE, stderr=subprocess.PIPE)
        out = r.stdout.decode()
        ev = {}
        try:
            ev = json.load(open(os.path.join(base, 'evidence', pid + '.json')))
        except Exception:
            pass
        new = ev.get('coverage', {}).get('new_findings', [])
        rules = sorted({f['rule'] for f in new})
        res = {'name': spec['name'], 'exit': r.returncode, 'rules': rules,
               'findings': [f['where'] + ' ' + f['message'][:160] for f in new][:4]}
        want = spec.get('expect', 'violation')
        if want == 'violation':
            ok = r.returncode == 1 and (not spec.get('rule') or any(x.startswith(spec['rule']) for x in rules))
            if ok and spec.get('mentions'):
                ok = any(spec['mentions'] in (f['message'] + ' ' + f['function'] + ' ' + str(f.get('witness'))) for f in new)
        elif want == 'no-violation':
            # a behaviour-preserving refactoring: the check may hold or say ANALYSIS-BROKEN (exit 2), it must never report a violation
            ok = r.returncode in (0, 2) and 'VIOLATION' not in out
            res['outcome'] = {0: 'hold', 2: 'analysis-broken'}.get(r.returncode, 'exit %s' % r.returncode)
        else:
            ok = r.returncode == 0
        res['status'] = 'ok' if ok else 'FAILED'
        res['expect'] = want
        if not ok:
            res['output'] = out[-600:] + r.stderr.decode()[-300:]
        return res
    finally:
        shutil.rmtree(base, ignore_errors=True)


def run(pid, only=None, tier='quick'):
    specs = [s for s in load_specs(pid) if not only or only in s['name']]
    with ThreadPoolExecutor(max_workers=8) as ex:
        return list(ex.map(lambda s: run_one(pid, s, tier), specs))


if __name__ == '__main__':
    res = run(sys.argv[1], sys.argv[2] if len(sys.argv) > 2 else None)
    bad = 0
    for r in res:
        print('%-8s %-60s %s %s' % (r['status'], r['name'], r.get('rules', ''), r.get('reason', '')))
        if r['status'] == 'FAILED':
            bad += 1
            print('   ', r.get('findings'), r.get('output', '')[-400:])
    sys.exit(1 if bad else 0)
