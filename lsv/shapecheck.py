"""Checker around the shape engine: shape transformers of the container API, callee contracts, strict-mode
post-invariants, contract-mode preconditions (lsv/contracts.json), reporting."""
import json
import os
import re

from . import frontend as fe
from .frontend import kids, strip, walk, callee_name, call_args
from . import exprs, flow
from .program import is_assign, is_incdec
from .shape import Engine, Shape, St, CONTAINER, ctype_of, PTR_ARRAY_FIELD
from .sym import Poly, prove_nonneg, find_witness
from .report import Finding

VERIF = os.path.dirname(os.path.dirname(os.path.abspath(__file__)))
VEC = ('DVector', 'UIVector', 'IVector')
# constructors that deliberately return a skeleton whose blocks are NULL until created one by one; the destructor is
# separately required to tolerate that state (strict.py scenario 'skeleton')
SKELETON_CONSTRUCTORS = {'NewTensor': 'blocks are created afterwards with NewTensorMatrix'}


def rel(p):
    return os.path.relpath(p, fe.REPO)


def fmt_req(e):
    if e[0] == 'arg':
        return 'arg%d' % (e[1] + 1)
    if e[0] == 'const':
        return str(e[1])
    return '%s(%s, %s)' % (e[0], fmt_req(e[1]), fmt_req(e[2])) if e[0] == 'min' else '%s*%s' % (fmt_req(e[1]), fmt_req(e[2]))


def parse_pre(s):
    """'$2->size >= $0->row'  /  '$0->row == $0->col'  ->  list of Poly (>= 0)"""
    m = re.match(r'(.*?)\s(>=|==|<=|>|<)\s(.*)', s)
    if not m:
        raise ValueError('bad precondition ' + s)
    a, op, b = parse_lin(m.group(1)), m.group(2), parse_lin(m.group(3))
    if op == '>=':
        return [a - b]
    if op == '<=':
        return [b - a]
    if op == '>':
        return [a - b - 1]
    if op == '<':
        return [b - a - 1]
    return [a - b, b - a]


def parse_lin(s):
    s = s.strip()
    toks = re.findall(r'ext\(\$\d+\)|\$\d+(?:->\w+)*|[A-Za-z_]\w*(?:->\w+)+|\d+|->|[-+*]', s)
    toks = [t for t in toks if t != '->']
    p = Poly.const(0)
    sign = 1
    cur = None
    pend_mul = False
    for t in toks:
        if t in '+-':
            if cur is not None:
                p = p + cur * sign
                cur = None
            sign = 1 if t == '+' else -1
        elif t == '*':
            pend_mul = True
        else:
            v = Poly.const(int(t)) if t.isdigit() else Poly.atom(t)
            if pend_mul and cur is not None:
                cur = cur * v
                pend_mul = False
            else:
                cur = v
    if cur is not None:
        p = p + cur * sign
    return p


# Fortran LAPACK routines: name -> list of requirements.  ('ext', i, expr) : buffer argument i holds >= expr elements;
# ('ge', expr_a, expr_b): a >= b.  Expressions are tuples over argument positions: ('arg', i) value of *arg_i,
# ('mul', x, y), ('min', x, y), ('const', c).  (documented argument sizes of dgetrf/dgetri/dgesdd(jobz=S)/dgeev)
def _A(i):
    return ('arg', i)


LAPACK = {
    'dgetrf_': [('ext', 2, ('mul', _A(3), _A(1))), ('ge', _A(3), _A(0)), ('ext', 4, ('min', _A(0), _A(1)))],
    'dgetri_': [('ext', 1, ('mul', _A(2), _A(0))), ('ge', _A(2), _A(0)), ('ext', 3, _A(0)), ('ge', _A(5), _A(0)), ('ext', 4, _A(5))],
    'dgesdd_': [('ext', 3, ('mul', _A(4), _A(2))), ('ge', _A(4), _A(1)), ('ext', 5, ('min', _A(1), _A(2))),
                ('ext', 6, ('mul', _A(7), ('min', _A(1), _A(2)))), ('ge', _A(7), _A(1)),
                ('ext', 8, ('mul', _A(9), _A(2))), ('ge', _A(9), ('min', _A(1), _A(2))),
                ('ext', 12, ('mul', ('const', 8), ('min', _A(1), _A(2))))],
    'dgeev_': [('ext', 3, ('mul', _A(4), _A(2))), ('ge', _A(4), _A(2)), ('ext', 5, _A(2)), ('ext', 6, _A(2)),
               ('ext', 9, ('mul', _A(10), _A(2))), ('ge', _A(10), _A(2))],
}


class Checker:
    def __init__(self, prog, dom=3):
        self.prog = prog
        self.dom = dom
        cpath = os.path.join(VERIF, 'lsv', 'contracts.json')
        self.contracts = json.load(open(cpath)) if os.path.exists(cpath) else {}
        from .loopterm import Summaries
        self.summ = Summaries(prog)
        self.engines = {}

    # ---- container argument helper ------------------------------------------------------
    def carg(self, eng, a, st):
        p = eng.container_arg(a, st)
        ct = ctype_of(a)
        if ct is None:
            # T** formal receiving &X
            s = strip(a)
            if s.get('kind') == 'UnaryOperator' and s.get('opcode') == '&':
                ct = ctype_of(kids(s)[0])
        return p, ct

    def slot_must_be_valid(self, eng, node, arg, st, who):
        """Del*(&T->m[k]): the slot must hold an object"""
        x = strip(arg)
        if x.get('kind') == 'UnaryOperator' and x.get('opcode') == '&':
            x = strip(kids(x)[0])
        if x.get('kind') == 'ArraySubscriptExpr':
            b = strip(kids(x)[0])
            if b.get('kind') == 'MemberExpr' and b.get('name') in ('m', 'd'):
                cont = kids(b)[0]
                ct = ctype_of(cont) if b.get('isArrow') else eng._lv_ctype(cont)
                p = eng.cpath(cont, st) if b.get('isArrow') else eng.cpath_lv(cont, st)
                if ct in ('tensor', 'dvectorlist') and p:
                    idx = eng.ev(kids(x)[1], st)
                    sh = eng.shape(st, p, ct)
                    if (p, repr(idx)) in st.iter_slots:
                        return
                    facts = st.facts + eng.pre
                    for lo, hi in sh.slots:
                        if prove_nonneg(idx - lo, facts, equalities=st.eqs) and prove_nonneg(hi - idx - 1, facts, equalities=st.eqs):
                            return
                    if not st.lossy:
                        w = find_witness(sh.ext - idx - 1, facts + [idx], dom=eng.dom, opaque=lambda a_: a_.startswith('?'))
                        if isinstance(w, dict) and not sh.slots:
                            eng.flag(node, 'unassigned-slot', '%s is applied to slot %s of %s, which may hold no object (NULL / never created)'
                                     % (who, idx, p), st, w)

    def mark_slot(self, eng, arg, st):
        """&T->m[k] / &L->d[k] handed to New*/init*: slot k of the pointer array now holds a valid object"""
        x = strip(arg)
        if x.get('kind') == 'UnaryOperator' and x.get('opcode') == '&':
            x = strip(kids(x)[0])
        if x.get('kind') == 'ArraySubscriptExpr':
            b = strip(kids(x)[0])
            if b.get('kind') == 'MemberExpr' and b.get('name') in ('m', 'd'):
                cont = kids(b)[0]
                ct = ctype_of(cont) if b.get('isArrow') else eng._lv_ctype(cont)
                p = eng.cpath(cont, st) if b.get('isArrow') else eng.cpath_lv(cont, st)
                if ct in ('tensor', 'dvectorlist') and p:
                    idx = eng.ev(kids(x)[1], st)
                    sh = eng.shape(st, p, ct)
                    sh.slots = sh.slots + [(idx, idx + 1)]
                    st.iter_slots[(p, repr(idx))] = True

    def set_matrix(self, eng, st, p, r, c):
        sh = Shape('matrix')
        sh.f = {'row': r, 'col': c}
        sh.ext = r
        sh.rows = [(Poly.const(0), r, c)]
        st.shapes[p] = sh

    def set_vec(self, eng, st, p, ct, n):
        sh = Shape(ct)
        sh.f = {'size': n}
        sh.ext = n
        if ct == 'strvector':
            sh.slots = [(Poly.const(0), n)]
        st.shapes[p] = sh

    # ---- calls --------------------------------------------------------------------------
    def apply_call(self, eng, node, cn, a, st):
        if cn is None:
            return
        ev = lambda x: eng.ev(x, st)
        m = re.match(r'^(init|New|Del)(Matrix|DVector|UIVector|IVector|StrVector|Tensor|DVectorList)$', cn)
        if m and a:
            p, ct = self.carg(eng, a[0], st)
            if p is None:
                return
            kind, what = m.group(1), m.group(2)
            ct = {'Matrix': 'matrix', 'DVector': 'dvector', 'UIVector': 'uivector', 'IVector': 'ivector',
                  'StrVector': 'strvector', 'Tensor': 'tensor', 'DVectorList': 'dvectorlist'}[what]
            if kind == 'Del':
                self.slot_must_be_valid(eng, node, a[0], st, cn)
            else:
                self.mark_slot(eng, a[0], st)
            if kind == 'Del':
                sh = eng.shape(st, p, ct)
                if sh.freed is True:
                    eng.flag(node, 'double-free', '%s is deleted twice' % p, st)
                # deleting dereferences every slot below the count
                if ct in ('tensor', 'dvectorlist') and not sh.fresh:
                    self.need_slots(eng, node, p, sh, st, 'Del%s' % what)
                sh.freed = True
                return
            if what == 'Matrix':
                r, c = (ev(a[1]), ev(a[2])) if kind == 'New' else (Poly.const(0), Poly.const(0))
                self.set_matrix(eng, st, p, r, c)
                if kind == 'init':
                    st.shapes[p].rows = []
            elif what == 'DVectorList':
                n = ev(a[1]) if kind == 'New' else Poly.const(0)
                sh = Shape(ct)
                sh.f = {'size': n}
                sh.ext = n
                sh.slots = [(Poly.const(0), n)]      # NewDVectorList fills its slots with empty vectors
                st.shapes[p] = sh
            elif what == 'Tensor':
                n = ev(a[1]) if kind == 'New' else Poly.const(0)
                sh = Shape(ct)
                sh.f = {'order': n}
                sh.ext = n
                sh.slots = []           # NewTensor is a skeleton constructor: every block is NULL until NewTensorMatrix
                sh.nullslots = True
                st.shapes[p] = sh
            else:
                n = ev(a[1]) if kind == 'New' else Poly.const(0)
                self.set_vec(eng, st, p, ct, n)
            return
        if cn == 'ResizeMatrix' and len(a) == 3:
            p, ct = self.carg(eng, a[0], st)
            if p:
                self.set_matrix(eng, st, p, ev(a[1]), ev(a[2]))
            return
        m = re.match(r'^(DVector|UIVector|IVector|StrVector)(Resize|Append|AppendInt|AppendDouble|RemoveAt|Copy|Set)$', cn)
        if m and a:
            ct = {'DVector': 'dvector', 'UIVector': 'uivector', 'IVector': 'ivector', 'StrVector': 'strvector'}[m.group(1)]
            op = m.group(2)
            p, _ = self.carg(eng, a[0], st)
            if p is None:
                return
            sh = eng.shape(st, p, ct)
            if op == 'Resize':
                self.set_vec(eng, st, p, ct, ev(a[1]))
            elif op.startswith('Append'):
                n = sh.f['size'] + 1
                sh.f['size'] = n
                sh.ext = n
                if ct == 'strvector':
                    sh.slots = [(Poly.const(0), n)]
            elif op == 'RemoveAt':
                old = sh.f['size']
                tag = (fe.begin(node) or {}).get('offset')
                new = Poly.atom('?size-after-remove@%s' % tag)
                sh.f['size'] = new
                st.add_fact(old - new)
                st.add_fact(new - old + 1)
            elif op == 'Copy' and len(a) >= 2:
                dp, _ = self.carg(eng, a[1], st)
                if dp:
                    self.set_vec(eng, st, dp, ct, sh.f['size'])
            return
        if cn == 'MatrixCopy' and len(a) == 2:
            sp, _ = self.carg(eng, a[0], st)
            dp, _ = self.carg(eng, a[1], st)
            if sp and dp:
                s = eng.shape(st, sp, 'matrix')
                self.set_matrix(eng, st, dp, s.f['row'], s.f['col'])
            return
        if cn in ('MatrixAppendRow', 'MatrixAppendUIRow', 'MatrixAppendCol', 'MatrixAppendUICol') and len(a) == 2:
            p, _ = self.carg(eng, a[0], st)
            vp, vct = self.carg(eng, a[1], st)
            if p and vp and vct:
                sh = eng.shape(st, p, 'matrix')
                vs = eng.shape(st, vp, vct).f['size']
                tag = (fe.begin(node) or {}).get('offset')
                grow, keep = ('row', 'col') if 'Row' in cn else ('col', 'row')
                mx = Poly.atom('?max(%s,%s)@%s' % (sh.f[keep], vs, tag))
                st.add_fact(mx - sh.f[keep])
                st.add_fact(mx - vs)
                r = sh.f['row'] + 1 if grow == 'row' else mx
                c = sh.f['col'] + 1 if grow == 'col' else mx
                self.set_matrix(eng, st, p, r, c)
            return
        if cn in ('MatrixDeleteRowAt', 'MatrixDeleteColAt') and a:
            p, _ = self.carg(eng, a[0], st)
            if p:
                sh = eng.shape(st, p, 'matrix')
                if 'Row' in cn:
                    self.set_matrix(eng, st, p, sh.f['row'] - 1, sh.f['col'])
                else:
                    self.set_matrix(eng, st, p, sh.f['row'], sh.f['col'] - 1)
            return
        if cn == 'NewTensorMatrix' and len(a) == 4:
            p, _ = self.carg(eng, a[0], st)
            if p:
                sh = eng.shape(st, p, 'tensor')
                k = ev(a[1])
                sh.slots = sh.slots + [(k, k + 1)]
                st.iter_slots[(p, repr(k))] = True
                self.set_matrix(eng, st, '%s->m[%s]' % (p, k), ev(a[2]), ev(a[3]))
            return
        if cn in ('AddTensorMatrix', 'TensorAppendMatrix') and len(a) >= 2:
            p, _ = self.carg(eng, a[0], st)
            if p:
                sh = eng.shape(st, p, 'tensor')
                k = sh.f['order']
                if cn == 'AddTensorMatrix':
                    r, c = ev(a[1]), ev(a[2])
                else:
                    mp, _ = self.carg(eng, a[1], st)
                    ms = eng.shape(st, mp, 'matrix') if mp else None
                    r, c = (ms.f['row'], ms.f['col']) if ms else (Poly.atom('?r'), Poly.atom('?c'))
                sh.slots = sh.slots + [(k, k + 1)]
                sh.f['order'] = k + 1
                sh.ext = k + 1
                self.set_matrix(eng, st, '%s->m[%s]' % (p, k), r, c)
            return
        if cn == 'DVectorListAppend' and len(a) == 2:
            p, _ = self.carg(eng, a[0], st)
            if p:
                sh = eng.shape(st, p, 'dvectorlist')
                k = sh.f['size']
                vp, vct = self.carg(eng, a[1], st)
                sh.slots = sh.slots + [(k, k + 1)]
                sh.f['size'] = k + 1
                sh.ext = k + 1
                if vp and vct:
                    self.set_vec(eng, st, '%s->d[%s]' % (p, k), 'dvector', eng.shape(st, vp, vct).f['size'])
            return
        if cn in LAPACK:
            self.lapack_call(eng, node, cn, a, st)
            return
        # ---- contracts of internal kernels
        g = self.prog.resolve(eng.f, cn)
        if g is None or g.body is None:
            return
        ctr = self.contracts.get(cn)
        if ctr:
            sub = {}
            for i, arg in enumerate(a):
                ct = ctype_of(arg)
                if ct is None:
                    s = strip(arg)
                    if s.get('kind') == 'UnaryOperator' and s.get('opcode') == '&':
                        ct = ctype_of(kids(s)[0])
                if ct:
                    p, _ = self.carg(eng, arg, st)
                    if p:
                        sh = eng.shape(st, p, ct)
                        for fld in CONTAINER[ct]:
                            sub['$%d->%s' % (i, fld)] = sh.f[fld]
                elif '*' in fe.qual(strip(arg, casts=False)):
                    s_ = strip(arg)
                    if s_.get('kind') == 'DeclRefExpr' and eng.vname(s_['referencedDecl']) in st.raw:
                        sub['ext($%d)' % i] = st.raw[eng.vname(s_['referencedDecl'])]
                elif not fe.is_float_type(strip(arg, casts=False)):
                    sub['$%d' % i] = eng.ev(arg, st)
            for ps in ctr.get('checked', []):
                for poly in parse_pre(ps):
                    if all(x in sub for x in poly.atoms()):
                        st.add_fact(poly.subst(sub))      # the callee aborts cleanly otherwise
            for ps in ctr.get('pre', []):
                for poly in parse_pre(ps):
                    if any(x not in sub for x in poly.atoms()):
                        continue
                    inst = poly.subst(sub)
                    eng.oblige(node, 'contract:%s:%s' % (cn, ps), Poly.const(0), inst + 1, st,
                               text='%s requires %s' % (cn, ps))
        # ---- effect of a callee without transformer: its own derived post-shape, else havoc what it may write
        mod = set()
        for shp in self.summ.shape_mod(g):
            mm = re.match(r'^\(?\*?\$(\d+)\)?->(\w+)$', shp)
            if mm and int(mm.group(1)) < len(a):
                mod.add(int(mm.group(1)))
        if not mod:
            return
        summ = self.auto_summary(g)
        sub = None
        for j in sorted(mod):
            p, ct = self.carg(eng, a[j], st)
            if not (p and ct):
                continue
            post = (summ or {}).get(j)
            tag = 'call%s' % (fe.begin(node) or {}).get('offset')
            if post is None:
                eng.havoc_shape(st, p, ct, tag)
                continue
            if sub is None:
                sub = {}
                for i, arg in enumerate(a):
                    cti = ctype_of(arg)
                    if cti is None:
                        s_ = strip(arg)
                        if s_.get('kind') == 'UnaryOperator' and s_.get('opcode') == '&':
                            cti = ctype_of(kids(s_)[0])
                    if cti:
                        pi, _ = self.carg(eng, arg, st)
                        if pi:
                            shi = eng.shape(st, pi, cti)
                            for fld in CONTAINER[cti]:
                                sub['$%d->%s' % (i, fld)] = shi.f[fld]
                                sub['(*$%d)->%s' % (i, fld)] = shi.f[fld]
                    elif not fe.is_float_type(strip(arg, casts=False)) and '*' not in fe.qual(strip(arg, casts=False)):
                        sub['$%d' % i] = eng.ev(arg, st)
            vals = {}
            okk = True
            for fld, poly in post.items():
                if any(x not in sub for x in poly.atoms()):
                    okk = False
                    break
                vals[fld] = poly.subst(sub)
            if not okk:
                eng.havoc_shape(st, p, ct, tag)
                continue
            if ct == 'matrix':
                self.set_matrix(eng, st, p, vals['row'], vals['col'])
            elif ct in ('dvector', 'uivector', 'ivector', 'strvector'):
                self.set_vec(eng, st, p, ct, vals['size'])
            else:
                eng.havoc_shape(st, p, ct, tag)

    def call_sub(self, eng, a, st):
        """positional atoms of a callee ($i, $i->field) -> caller values at this call"""
        sub = {}
        for i, arg in enumerate(a):
            cti = ctype_of(arg)
            if cti is None:
                s_ = strip(arg)
                if s_.get('kind') == 'UnaryOperator' and s_.get('opcode') == '&':
                    cti = ctype_of(kids(s_)[0])
            if cti:
                pi, _ = self.carg(eng, arg, st)
                if pi:
                    shi = eng.shape(st, pi, cti)
                    for fld in CONTAINER[cti]:
                        sub['$%d->%s' % (i, fld)] = shi.f[fld]
                        sub['(*$%d)->%s' % (i, fld)] = shi.f[fld]
            elif not fe.is_float_type(strip(arg, casts=False)) and '*' not in fe.qual(strip(arg, casts=False)):
                sub['$%d' % i] = eng.ev(arg, st)
        return sub

    def may_write(self, g, j, depth=0):
        """may g store into the cells of its j-th (container) parameter?  syntactic, transitive, conservative"""
        if not hasattr(self, '_mw'):
            self._mw = {}
        k = (g.name, j)
        if k in self._mw:
            return self._mw[k]
        self._mw[k] = True          # cycles: assume it writes
        if g.body is None or j >= len(g.params) or depth > 6:
            return True
        pid = g.params[j].get('id')

        def mentions(n):
            return any(x.get('kind') == 'DeclRefExpr' and (x.get('referencedDecl') or {}).get('id') == pid for x in fe.walk(n))
        res = False
        for n in fe.walk(g.body):
            kd = n.get('kind')
            if kd in ('BinaryOperator', 'CompoundAssignOperator') and (n.get('opcode') or '=').endswith('=') and n.get('opcode') not in ('==', '!=', '<=', '>='):
                l = strip(kids(n)[0])
                if l.get('kind') == 'ArraySubscriptExpr' and mentions(kids(l)[0]):
                    res = True
                elif l.get('kind') != 'ArraySubscriptExpr' and '*' in fe.qual(l) and mentions(kids(n)[1]):
                    res = True          # a pointer into the container escapes into a variable
            elif kd == 'UnaryOperator' and n.get('opcode') in ('++', '--'):
                l = strip(kids(n)[0])
                if l.get('kind') == 'ArraySubscriptExpr' and mentions(kids(l)[0]):
                    res = True
            elif kd == 'VarDecl' and '*' in ((n.get('type') or {}).get('qualType', '')) and kids(n) and mentions(kids(n)[0]):
                res = True
            elif kd == 'CallExpr':
                cn2 = callee_name(n)
                g2 = self.prog.resolve(g, cn2) if cn2 else None
                for i2, arg in enumerate(call_args(n)):
                    if not mentions(arg):
                        continue
                    q = fe.qual(strip(arg, casts=False))
                    if '*' not in q:
                        continue            # a cell value is passed, not storage
                    if g2 is None or g2.body is None:
                        if cn2 in ('printf', 'fprintf', 'xfree', 'free', 'strlen', 'strcmp'):
                            continue
                        res = True
                    else:
                        s_ = strip(arg)
                        if s_.get('kind') == 'DeclRefExpr' and (s_.get('referencedDecl') or {}).get('id') == pid:
                            if self.may_write(g2, i2, depth + 1):
                                res = True
                        else:
                            res = True
            if res:
                break
        self._mw[k] = res
        return res

    def write_summary(self, g):
        """per exit state of g: (facts, cell stores on parameters) in g's positional atoms; None when not derivable"""
        if not hasattr(self, '_ws'):
            self._ws = {}
            self._ws_active = set()
        if g.name in self._ws:
            return self._ws[g.name]
        if g.name in self._ws_active:
            return None
        self._ws_active.add(g.name)
        out = None
        try:
            eng = self.engines.get(g.name) or Engine(self, g, pre=sum((parse_pre(x) for x in self.contracts.get(g.name, {}).get('pre', [])), []), dom=self.dom).run()
            out = []
            for st in eng.exit_states:
                if st.lossy or st.overflow:
                    out = None
                    break
                cells = []
                for (p, r, c) in st.iter_cells:
                    m_ = re.match(r'^\$(\d+)$', p)
                    if not m_:
                        continue
                    cells.append((int(m_.group(1)), r, c))
                out.append((list(st.facts), dict(st.eqs) if isinstance(st.eqs, dict) else st.eqs, cells))
        except fe.AnalysisBroken:
            out = None
        self._ws_active.discard(g.name)
        self._ws[g.name] = out
        return out

    def cell_effects(self, eng, node, cn, a, st):
        """effect of a call on the written-cell bookkeeping of storage allocated in the caller"""
        if not st.fresh or cn is None:
            return
        touched = []
        for j, arg in enumerate(a):
            pj, ctj = self.carg(eng, arg, st)
            if pj and any(v_['p'] == pj for v_ in st.fresh.values()):
                touched.append((j, pj))
        if not touched:
            return
        g = self.prog.resolve(eng.f, cn)
        if g is None or g.body is None:
            for j, pj in touched:
                for v_ in st.fresh.values():
                    if v_['p'] == pj:
                        v_['unknown'] = True
            return
        writers = [(j, pj) for j, pj in touched if self.may_write(g, j)]
        if not writers:
            return
        ws = self.write_summary(g)
        sub = self.call_sub(eng, a, st)
        facts = st.facts + eng.pre
        must = None
        exact = ws is not None
        if ws is not None:
            for fs, eqs, cells in ws:
                # is this exit impossible at the call?  (one of its facts is provably false here)
                dead = False
                for f_ in fs:
                    if any(x not in sub for x in f_.atoms()):
                        continue
                    if prove_nonneg(Poly.const(-1) - f_.subst(sub), facts, equalities=st.eqs):
                        dead = True
                        break
                if dead:
                    continue
                cur = set()
                for (j, r, c) in cells:
                    ats = set()
                    for q in ([r] if r is not None else []) + (list(c) if isinstance(c, tuple) else [c]):
                        ats |= q.atoms()
                    if any(x not in sub for x in ats):
                        exact = False
                        continue
                    r2 = r.subst(sub) if r is not None else None
                    c2 = tuple(q.subst(sub) for q in c) if isinstance(c, tuple) else c.subst(sub)
                    cur.add((j, repr(r2), repr(c2), r2 is None))
                    self._cell_objs = getattr(self, '_cell_objs', {})
                    self._cell_objs[(j, repr(r2), repr(c2), r2 is None)] = (r2, c2)
                if must is not None and must != cur:
                    exact = False
                must = cur if must is None else (must & cur)
        wj = dict(writers)
        for key in sorted(must or (), key=repr):
            j = key[0]
            if j not in wj:
                continue
            r2, c2 = self._cell_objs[key]
            eng.note_cell(st, wj[j], r2, c2)
        if not exact:
            for j, pj in writers:
                for v_ in st.fresh.values():
                    if v_['p'] == pj:
                        v_['unknown'] = True

    def auto_summary(self, g):
        """{param index: {field: Poly over g's positional atoms}} when every exit of g agrees and is exact"""
        if not hasattr(self, '_auto'):
            self._auto = {}
            self._auto_active = set()
        if g.name in self._auto:
            return self._auto[g.name]
        if g.name in self._auto_active:
            return None
        self._auto_active.add(g.name)
        out = None
        try:
            eng = self.engines.get(g.name) or Engine(self, g, pre=sum((parse_pre(x) for x in self.contracts.get(g.name, {}).get('pre', [])), []), dom=self.dom).run()
            out = {}
            for j, prm in enumerate(g.params):
                t = (prm.get('type') or {}).get('qualType', '')
                base = t.replace('*', '').replace('const', '').strip()
                if base not in CONTAINER:
                    continue
                path = '$%d' % j if t.count('*') == 1 else '(*$%d)' % j
                res = None
                for st in eng.exit_states:
                    sh = st.shapes.get(path)
                    cur = {f: (sh.f[f].subst(st.eqs) if sh else Poly.atom('%s->%s' % (path, f))) for f in CONTAINER[base]}
                    if st.lossy or st.overflow or any(x.startswith('?') or '@' in x for v in cur.values() for x in v.atoms()):
                        res = False
                        break
                    if res is None:
                        res = cur
                    elif any(repr(res[f]) != repr(cur[f]) for f in cur):
                        # equal by the facts of this exit state?
                        fs = st.facts + eng.pre
                        if all(prove_nonneg(res[f] - cur[f], fs, equalities=st.eqs) and prove_nonneg(cur[f] - res[f], fs, equalities=st.eqs)
                               for f in cur):
                            continue
                        res = False
                        break
                if res:
                    out[j] = res
        except fe.AnalysisBroken:
            out = None
        self._auto_active.discard(g.name)
        self._auto[g.name] = out
        return out

    def lapack_call(self, eng, node, cn, a, st):
        def val(i):
            x = strip(a[i])
            if x.get('kind') == 'UnaryOperator' and x.get('opcode') == '&':
                return eng.ev(kids(x)[0], st)
            return None

        def ext(i):
            x = strip(a[i])
            if x.get('kind') == 'DeclRefExpr':
                return st.raw.get(eng.vname(x['referencedDecl']))
            return None

        def alts(e):
            """expression -> list of alternative Polys whose minimum is the value (min splits into alternatives)"""
            if e[0] == 'arg':
                v = val(e[1])
                return None if v is None else [v]
            if e[0] == 'const':
                return [Poly.const(e[1])]
            if e[0] == 'mul':
                xa, ya = alts(e[1]), alts(e[2])
                return None if xa is None or ya is None else [x * y for x in xa for y in ya]
            if e[0] == 'min':
                xa, ya = alts(e[1]), alts(e[2])
                return None if xa is None or ya is None else xa + ya
        for req in LAPACK[cn]:
            if req[0] == 'ext':
                have = ext(req[1])
                need = alts(req[2])
                what = 'argument %d of %s must hold at least %s elements' % (req[1] + 1, cn, fmt_req(req[2]))
            else:
                h = alts(req[1])
                have = h[0] if h and len(h) == 1 else None
                need = alts(req[2])
                what = '%s requires %s >= %s' % (cn, fmt_req(req[1]), fmt_req(req[2]))
            if have is None or need is None:
                continue
            self.min_obligation(eng, node, 'lapack:%s:%s' % (cn, what), have, need, st, what)

    def min_obligation(self, eng, node, kind, have, need_alts, st, text):
        """have >= min(need_alts): PROVED if have >= some alternative is provable; REFUTED if a witness makes have smaller
        than every alternative"""
        facts = st.facts + eng.pre
        key = (id(node), kind)
        from .shape import Obligation, RANK
        status, wit, detail = 'UNDECIDED', None, 'cannot prove %s >= min%s' % (have, [repr(x) for x in need_alts])
        if any(prove_nonneg(have - n_, facts, equalities=st.eqs) for n_ in need_alts):
            status, detail = 'PROVED', ''
        elif not st.lossy:
            extra = [n_ - have - 1 for n_ in need_alts[1:]]
            w = find_witness(need_alts[0] - have - 1, facts + extra, dom=eng.dom,
                             opaque=lambda x: x.startswith('?') or x.startswith('sizeof'))
            if isinstance(w, dict):
                status, wit, detail = 'REFUTED', w, '%s is smaller than required: %s' % (have, text)
        ob = eng.obligs.get(key)
        if ob is None:
            ob = Obligation(eng.f.name, node, kind, have, need_alts[0], eng.f.unit.where(node), text)
            ob.status, ob.witness, ob.detail = status, wit, detail
            eng.obligs[key] = ob
        elif RANK[status] > RANK[ob.status]:
            ob.status, ob.witness, ob.detail = status, wit, detail

    def need_slots(self, eng, node, p, sh, st, who):
        first = CONTAINER[sh.ctype][0]
        n = sh.f[first]
        facts = st.facts + eng.pre
        cover = Poly.const(0)
        segs = sorted(sh.slots, key=lambda s: repr(s[0]))
        progress = True
        while progress:
            progress = False
            for lo, hi in segs:
                if repr(hi) != repr(cover) and prove_nonneg(cover - lo, facts, equalities=st.eqs) and prove_nonneg(hi - cover, facts, equalities=st.eqs):
                    cover = hi
                    progress = True
        if prove_nonneg(cover - n, facts, equalities=st.eqs):
            return
        w = find_witness(n - cover - 1, facts, dom=eng.dom, opaque=lambda a_: a_.startswith('?'))
        if isinstance(w, dict):
            eng.flag(node, 'unassigned-slot', '%s dereferences slots [%s, %s) of %s that were never assigned' % (who, cover, n, p), st, w)

    def apply_return(self, eng, call, lp, lct, st):
        cn = callee_name(call)
        a = call_args(call)
        for x in a:
            eng.visit(x, st)
        if lp is None:
            return
        if cn in ('getMatrixRow', 'getMatrixColumn') and a:
            p, _ = self.carg(eng, a[0], st)
            if p:
                sh = eng.shape(st, p, 'matrix')
                self.set_vec(eng, st, lp, 'dvector', sh.f['col'] if cn == 'getMatrixRow' else sh.f['row'])
                st.alias.pop(lp, None)
            return
        if re.match(r'^(DVector|UIVector|IVector|StrVector)Extend$', cn or '') and len(a) == 2:
            ct = lct
            p1, _ = self.carg(eng, a[0], st)
            p2, _ = self.carg(eng, a[1], st)
            if p1 and p2:
                self.set_vec(eng, st, lp, ct, eng.shape(st, p1, ct).f['size'] + eng.shape(st, p2, ct).f['size'])
                st.alias.pop(lp, None)
            return
        self.apply_call(eng, call, cn, a, st)
        eng.havoc_shape(st, lp, lct, 'ret%s' % (fe.begin(call) or {}).get('offset'))
        st.alias.pop(lp, None)

    SHAPE_CHANGERS = re.compile(r'^(Resize|New|init|Del)|(Resize|Append|AppendInt|AppendDouble|RemoveAt|Copy|DeleteRowAt|DeleteColAt|AddTensorMatrix|TensorAppendMatrix|ListAppend)$|Append(Row|Col|UIRow|UICol)$')

    def loop_container_mods(self, eng, loop, st):
        """containers whose shape fields may change inside the loop: [(path, ctype, 'all'|fields)]"""
        out = []
        for n in walk(loop):
            if n.get('kind') == 'CallExpr':
                cn = callee_name(n)
                a = call_args(n)
                if not cn or not a:
                    continue
                if self.SHAPE_CHANGERS.search(cn):
                    idxs = [0]
                    if cn.endswith('Copy') and len(a) > 1:
                        idxs = [1]
                    for i in idxs:
                        p, ct = self.carg(eng, a[i], st)
                        if p and ct:
                            out.append((p, ct, 'all'))
                else:
                    g = self.prog.resolve(eng.f, cn)
                    if g is not None and g.body is not None:
                        for shp in self.summ.shape_mod(g):
                            mm = re.match(r'^\(?\*?\$(\d+)\)?->(\w+)$', shp)
                            if mm and int(mm.group(1)) < len(a):
                                p, ct = self.carg(eng, a[int(mm.group(1))], st)
                                if p and ct and mm.group(2) in CONTAINER[ct]:
                                    out.append((p, ct, 'all'))
            if is_assign(n) or is_incdec(n):
                t = strip(kids(n)[0])
                if t.get('kind') == 'MemberExpr':
                    base = kids(t)[0]
                    ct = ctype_of(base) if t.get('isArrow') else eng._lv_ctype(base)
                    if ct and t.get('name') in CONTAINER[ct]:
                        p = eng.cpath(base, st) if t.get('isArrow') else eng.cpath_lv(base, st)
                        if p:
                            out.append((p, ct, (t['name'],)))
                    elif ct and t.get('name') == PTR_ARRAY_FIELD.get(ct, 'data'):
                        p = eng.cpath(base, st) if t.get('isArrow') else eng.cpath_lv(base, st)
                        if p:
                            out.append((p, ct, 'all'))
        seen, res = set(), []
        for x in out:
            k = (x[0], x[2] if x[2] == 'all' else tuple(x[2]))
            if k not in seen:
                seen.add(k)
                res.append(x)
        return res

    # ---- analysis entry points ----------------------------------------------------------
    def analyse(self, f, pre_strings=None, entry=None, register=True):
        pre = []
        for s in (pre_strings or []):
            pre += parse_pre(s)
        eng = Engine(self, f, pre=pre, dom=self.dom)
        flow.check_supported(f.body, f.name)
        eng.entry_tweak = entry
        eng.run()
        if register:
            self.engines[f.name] = eng
        return eng

    def post_invariant(self, eng):
        """strict mode: at every exit each container parameter satisfies Inv again"""
        f = eng.f
        res = []
        for st in eng.exit_states:
            if st.overflow or st.lossy:
                continue
            for i, p in enumerate(f.params):
                t = (p.get('type') or {}).get('qualType', '')
                base = t.replace('*', '').replace('const', '').strip()
                if base not in CONTAINER:
                    continue
                path = '$%d' % i if t.count('*') == 1 else '(*$%d)' % i
                sh = st.shapes.get(path)
                if sh is None or sh.freed is True:
                    continue
                first = CONTAINER[base][0]
                facts = st.facts + eng.pre
                n = sh.f[first]
                if any(a.startswith('?uninit') for a in n.atoms()):
                    res.append((p, 'field %s of %s is never initialised' % (first, path), {}))
                    continue
                if not prove_nonneg(sh.ext - n, facts, equalities=st.eqs):
                    w = find_witness(n - sh.ext - 1, facts, dom=eng.dom, opaque=lambda a: a.startswith('?'))
                    if isinstance(w, dict):
                        res.append((p, 'at exit %s->%s = %s exceeds the allocated extent %s' % (path, first, n, sh.ext), w))
                        continue
                if base == 'matrix':
                    cover = Poly.const(0)
                    progress = True
                    bad = None
                    while progress:
                        progress = False
                        for lo, hi, ext in sh.rows:
                            if repr(hi) != repr(cover) and prove_nonneg(cover - lo, facts, equalities=st.eqs) and prove_nonneg(hi - cover, facts, equalities=st.eqs):
                                if not prove_nonneg(ext - sh.f['col'], facts, equalities=st.eqs):
                                    w = find_witness(sh.f['col'] - ext - 1, facts + [hi - lo - 1], dom=eng.dom, opaque=lambda a: a.startswith('?'))
                                    if isinstance(w, dict):
                                        bad = ('at exit rows [%s,%s) of %s hold %s cells but col = %s' % (lo, hi, path, ext, sh.f['col']), w)
                                cover = hi
                                progress = True
                                break
                    if bad:
                        res.append((p, bad[0], bad[1]))
                    elif not prove_nonneg(cover - n, facts, equalities=st.eqs):
                        w = find_witness(n - cover - 1, facts, dom=eng.dom, opaque=lambda a: a.startswith('?'))
                        if isinstance(w, dict):
                            res.append((p, 'at exit rows [%s,%s) of %s are not allocated' % (cover, n, path), w))
                elif base in ('tensor', 'dvectorlist'):
                    cover = Poly.const(0)
                    progress = True
                    while progress:
                        progress = False
                        for lo, hi in sh.slots:
                            if repr(hi) != repr(cover) and prove_nonneg(cover - lo, facts, equalities=st.eqs) and prove_nonneg(hi - cover, facts, equalities=st.eqs):
                                cover = hi
                                progress = True
                                break
                    if not prove_nonneg(cover - n, facts, equalities=st.eqs):
                        if sh.nullslots and f.name in SKELETON_CONSTRUCTORS:
                            continue
                        w = find_witness(n - cover - 1, facts, dom=eng.dom, opaque=lambda a: a.startswith('?'))
                        if isinstance(w, dict):
                            res.append((p, 'at exit slots [%s,%s) of %s %s' % (cover, n, path,
                                        'are NULL (no object)' if sh.nullslots else 'are never assigned (dangling pointers)'), w))
        # de-duplicate
        seen, out = set(), []
        for p, msg, w in res:
            if msg not in seen:
                seen.add(msg)
                out.append((p, msg, w))
        return out
