"""Front end: clang JSON AST of /repo's current working tree.

Nothing is cached between runs; dumps go to a scratch directory that is removed at exit.
The loader re-attaches file/line information that clang elides, prunes everything that
is not spelled under <repo>/src and indexes declarations.
"""
import atexit
import json
import os
import re
import shutil
import subprocess
import sys
import tempfile
from concurrent.futures import ThreadPoolExecutor

REPO = os.environ.get('LSV_REPO', '/repo')
SRC = os.path.join(REPO, 'src')
CLANG = os.environ.get('LSV_CLANG', 'clang')

_scratch = None


class AnalysisBroken(Exception):
    """An anchor vanished / the front end failed / an unknown idiom: exit 2, never a VIOLATION."""


def scratch_dir():
    global _scratch
    if _scratch is None:
        base = os.environ.get('LSV_TMP') or tempfile.gettempdir()
        _scratch = tempfile.mkdtemp(prefix='lsv-', dir=base)
        atexit.register(lambda: shutil.rmtree(_scratch, ignore_errors=True))
    return _scratch


def cmake_list(name):
    """Read a set(<name> a b c) list out of src/CMakeLists.txt."""
    txt = open(os.path.join(SRC, 'CMakeLists.txt')).read()
    m = re.search(r'set\(\s*' + re.escape(name) + r'\s+([^)]*)\)', txt)
    if not m:
        raise AnalysisBroken('src/CMakeLists.txt has no list ' + name)
    return m.group(1).split()


def library_units():
    return cmake_list('Scientific_C_SRCS')


def installed_headers():
    return cmake_list('Scientific_C_H')


def config_dir():
    """scientificconfig.h is the only generated header: substitute it into the scratch dir."""
    d = os.path.join(scratch_dir(), 'cfg')
    if not os.path.isdir(d):
        os.makedirs(d)
        src = os.path.join(SRC, 'scientificconfig.h.in')
        txt = open(src).read() if os.path.exists(src) else ''
        txt = re.sub(r'@[A-Z_]+@', '0', txt)
        open(os.path.join(d, 'scientificconfig.h'), 'w').write(txt)
    return d


def cflags():
    return ['-I' + SRC, '-I' + config_dir(), '-std=gnu11', '-UNDEBUG', '-w']


def _dump(path, out):
    cmd = [CLANG, '-fsyntax-only', '-Xclang', '-ast-dump=json'] + cflags() + [path]
    with open(out, 'wb') as fo:
        r = subprocess.run(cmd, stdout=fo, stderr=subprocess.PIPE)
    if r.returncode != 0:
        raise AnalysisBroken('clang failed on %s: %s' % (path, r.stderr.decode()[-400:]))
    return out


# --------------------------------------------------------------------------------------
# location repair

def _fix_locations(tu):
    """clang omits 'file' (and 'line') when equal to the last location printed *anywhere*.
    Walk the whole tree in print order and make every bare location explicit."""
    last = {'file': None, 'line': None}

    def fixloc(loc):
        # a bare location has 'offset'; a macro location has spellingLoc/expansionLoc
        if 'offset' in loc:
            if 'file' in loc:
                last['file'] = loc['file']
            else:
                loc['file'] = last['file']
            if 'line' in loc:
                last['line'] = loc['line']
            else:
                loc['line'] = last['line']
        else:
            for k in ('spellingLoc', 'expansionLoc'):
                if k in loc:
                    fixloc(loc[k])

    stack = [tu]
    # iterative DFS honouring dict order (== print order)
    def walk(n):
        if isinstance(n, dict):
            for k, v in n.items():
                if k == 'loc':
                    if v:
                        fixloc(v)
                elif k == 'range':
                    if 'begin' in v:
                        fixloc(v['begin'])
                    if 'end' in v:
                        fixloc(v['end'])
                elif isinstance(v, (dict, list)):
                    walk(v)
        else:
            for v in n:
                if isinstance(v, (dict, list)):
                    walk(v)
    sys.setrecursionlimit(100000)
    walk(tu)


def bare(loc):
    """The position a node occupies in the file being compiled (expansion location)."""
    if loc is None:
        return None
    if 'offset' in loc:
        return loc
    return loc.get('expansionLoc') or loc.get('spellingLoc')


def spelling(loc):
    if loc is None:
        return None
    if 'offset' in loc:
        return loc
    return loc.get('spellingLoc') or loc.get('expansionLoc')


def begin(n):
    r = n.get('range')
    if not r:
        return bare(n.get('loc'))
    return bare(r.get('begin'))


def node_file(n):
    b = bare(n.get('loc')) if n.get('loc') else None
    if not b or 'file' not in b:
        b = begin(n)
    return b.get('file') if b else None


def node_line(n):
    b = begin(n)
    return b.get('line') if b else None


# --------------------------------------------------------------------------------------

class Unit:
    def __init__(self, name, path, tu):
        self.name = name
        self.path = path
        self.decls = []           # top-level decls spelled under repo/src
        self.funcs = {}           # name -> FunctionDecl with body
        self.protos = {}          # name -> first FunctionDecl (any)
        self.records = {}         # id -> RecordDecl
        self.typedefs = {}        # name -> TypedefDecl
        self.vars = {}            # name -> VarDecl (file scope)
        self.enums = {}           # enumerator name -> value index
        self.by_id = {}
        self._src = {}
        srcprefix = os.path.realpath(SRC) + os.sep
        for d in tu.get('inner', []):
            f = node_file(d)
            if not f:
                continue
            rf = os.path.realpath(f) if os.path.isabs(f) else os.path.realpath(os.path.join(SRC, f))
            if not rf.startswith(srcprefix) and rf != os.path.realpath(path):
                continue
            d['_file'] = rf
            self.decls.append(d)
            k = d.get('kind')
            if k == 'FunctionDecl':
                self.protos.setdefault(d['name'], d)
                if any(c.get('kind') == 'CompoundStmt' for c in d.get('inner', [])):
                    self.funcs[d['name']] = d
            elif k == 'RecordDecl':
                self.records[d['id']] = d
            elif k == 'TypedefDecl':
                self.typedefs[d['name']] = d
            elif k == 'VarDecl':
                self.vars[d['name']] = d
            elif k == 'EnumDecl':
                for i, e in enumerate(x for x in d.get('inner', []) if x.get('kind') == 'EnumConstantDecl'):
                    self.enums[e['name']] = i
        self.reindex()

    def reindex(self):
        self.by_id = {}
        self.funcs, self.protos, self.records, self.typedefs, self.vars = {}, {}, {}, {}, {}
        for d in self.decls:
            k = d.get('kind')
            if k == 'FunctionDecl':
                self.protos.setdefault(d['name'], d)
                if any(c.get('kind') == 'CompoundStmt' for c in d.get('inner', [])):
                    self.funcs[d['name']] = d
            elif k == 'RecordDecl':
                self.records[d['id']] = d
            elif k == 'TypedefDecl':
                self.typedefs[d['name']] = d
            elif k == 'VarDecl':
                self.vars[d['name']] = d
        self._index(self.decls)

    def _index(self, nodes):
        st = list(nodes)
        while st:
            n = st.pop()
            i = n.get('id')
            if i:
                self.by_id[i] = n
            for c in n.get('inner', ()):
                if isinstance(c, dict):
                    st.append(c)

    def source(self, path=None):
        path = path or self.path
        if path not in self._src:
            self._src[path] = open(path, 'rb').read()
        return self._src[path]

    def text(self, n):
        """Source text of a node (expansion range) in the file it is written in."""
        r = n.get('range')
        if not r:
            return n.get('name', '?')
        b, e = bare(r['begin']), bare(r['end'])
        f = b.get('file') or self.path
        if not os.path.isabs(f):
            f = os.path.join(SRC, f)
        try:
            s = self.source(f)
        except OSError:
            return n.get('name', '?')
        return re.sub(r'\s+', ' ', s[b['offset']: e['offset'] + e.get('tokLen', 1)].decode('utf8', 'replace'))

    def where(self, n):
        b = begin(n)
        f = b.get('file') or self.path
        return '%s:%s' % (os.path.relpath(f if os.path.isabs(f) else os.path.join(SRC, f), REPO), b.get('line'))

    def macro_at(self, n):
        """Name of the macro whose expansion starts at this node's first token (or None)."""
        r = n.get('range')
        if not r:
            return None
        b = r['begin']
        if 'expansionLoc' not in b:
            return None
        e = b['expansionLoc']
        f = e.get('file') or self.path
        if not os.path.isabs(f):
            f = os.path.join(SRC, f)
        try:
            s = self.source(f)
        except OSError:
            return None
        m = re.match(rb'[A-Za-z_][A-Za-z_0-9]*', s[e['offset']:e['offset'] + 64])
        return m.group(0).decode() if m else None


# units that only hold literal data tables (26 s to dump, no control flow of interest); they are
# still covered by the LLVM-IR scans (definedness, call graph) and can be requested by name
DATA_ONLY_UNITS = ('datasets.c',)

KEEP = ('id', 'kind', 'name', 'opcode', 'value', 'type', 'referencedDecl', 'referencedMemberDecl', 'isArrow',
        'castKind', 'range', 'loc', 'hasElse', 'isPostfix', 'tls', 'storageClass', 'inner', 'decl', 'init',
        'completeDefinition', 'tagUsed', 'argType', 'isUsed', 'previousDecl', 'hasInit', 'cond', 'variadic')


def _slim(n):
    """Drop what no engine reads; keeps pickles small and memory low."""
    if isinstance(n, list):
        return [_slim(x) for x in n if isinstance(x, dict)]
    out = {}
    for k in KEEP:
        if k in n:
            v = n[k]
            if k == 'inner':
                out[k] = [_slim(x) for x in v if isinstance(x, dict)]
            elif k == 'type':
                out[k] = {a: b for a, b in v.items() if a in ('qualType', 'desugaredQualType')}
            elif k in ('decl',):
                out[k] = {a: b for a, b in v.items() if a in ('id', 'kind', 'name')}
            elif k == 'referencedDecl':
                out[k] = {a: (b if a != 'type' else {'qualType': b.get('qualType'), 'desugaredQualType': b.get('desugaredQualType')})
                          for a, b in v.items() if a in ('id', 'kind', 'name', 'type')}
            else:
                out[k] = v
    return out


def _load_one(job):
    nm, p, _ = job
    cmd = [CLANG, '-fsyntax-only', '-Xclang', '-ast-dump=json'] + cflags() + [p]
    pr = subprocess.Popen(cmd, stdout=subprocess.PIPE, stderr=subprocess.PIPE)
    try:
        tu = json.load(pr.stdout)
    except ValueError as e:
        pr.wait()
        return nm, None, 'clang failed on %s: %s' % (p, pr.stderr.read().decode()[-400:])
    err = pr.stderr.read()
    if pr.wait() != 0:
        return nm, None, 'clang failed on %s: %s' % (p, err.decode()[-400:])
    _fix_locations(tu)
    u = Unit(nm, p, tu)
    u.decls = [_slim(d) | {'_file': d['_file']} for d in u.decls]
    u.reindex()
    return nm, u, None


def load_units(names=None, extra_files=None):
    """Dump and load the given library units (default: all). Returns {name: Unit}.
    One worker process per unit (clang -> pipe -> json -> location repair -> prune to repo decls)."""
    import multiprocessing as mp
    names = list(names) if names is not None else [u for u in library_units() if u not in DATA_ONLY_UNITS]
    cflags()            # create the config dir before forking
    jobs = []
    for nm in names:
        p = os.path.join(SRC, nm)
        if not os.path.exists(p):
            raise AnalysisBroken('unit %s listed but missing' % nm)
        jobs.append((nm, p, None))
    for nm, p in (extra_files or {}).items():
        jobs.append((nm, p, None))
    units = {}
    if len(jobs) <= 4 or os.environ.get('LSV_SEQ'):
        res = [_load_one(j) for j in jobs]
    else:
        with mp.get_context('fork').Pool(min(16, len(jobs))) as pool:
            res = pool.map(_load_one, jobs, chunksize=1)
    for nm, u, err in res:
        if err:
            raise AnalysisBroken(err)
        units[nm] = u
    return units


# --------------------------------------------------------------------------------------
# small AST helpers shared by the engines

TRANSPARENT = ('ImplicitCastExpr', 'ParenExpr', 'CStyleCastExpr', 'ConstantExpr')


def kids(n):
    return [c for c in n.get('inner', ()) if isinstance(c, dict) and c.get('kind')]


def strip(n, casts=True):
    while n.get('kind') in TRANSPARENT and (casts or n['kind'] != 'CStyleCastExpr'):
        k = kids(n)
        if not k:
            break
        n = k[-1]
    return n


def walk(n):
    st = [n]
    while st:
        x = st.pop()
        yield x
        st.extend(reversed(kids(x)))


def body_of(f):
    for c in f.get('inner', ()):
        if c.get('kind') == 'CompoundStmt':
            return c
    return None


def params_of(f):
    return [c for c in f.get('inner', ()) if c.get('kind') == 'ParmVarDecl']


def ref_id(n):
    """id of the declaration a DeclRefExpr refers to."""
    n = strip(n)
    if n.get('kind') == 'DeclRefExpr':
        return n['referencedDecl']['id']
    return None


def ref_name(n):
    n = strip(n)
    if n.get('kind') == 'DeclRefExpr':
        return n['referencedDecl'].get('name')
    return None


def callee_name(call):
    """Resolved direct callee of a CallExpr (None for indirect calls)."""
    k = kids(call)
    if not k:
        return None
    c = strip(k[0])
    if c.get('kind') == 'DeclRefExpr' and c['referencedDecl'].get('kind') == 'FunctionDecl':
        return c['referencedDecl']['name']
    return None


def call_args(call):
    return kids(call)[1:]


def qual(n):
    t = n.get('type') or {}
    return t.get('desugaredQualType') or t.get('qualType') or ''


def is_float_type(n):
    q = qual(n)
    for cv in ('const ', 'volatile ', 'register '):
        q = q.replace(cv, '')
    return q.strip() in ('double', 'float', 'long double')


def int_value(n):
    n = strip(n)
    if n.get('kind') == 'IntegerLiteral':
        return int(n['value'])
    if n.get('kind') == 'UnaryOperator' and n.get('opcode') == '-':
        v = int_value(kids(n)[0])
        return -v if v is not None else None
    return None


# --------------------------------------------------------------------------------------
# inlining of small file-local helpers (robustness against "extract a static helper" refactorings)

def inline_static_helpers(units, exclude=()):
    """Replace calls of small `static` helper functions by their bodies, in the AST of the calling functions (the helper definitions stay).
    Two shapes only:  an expression helper  `static T h(params){ return expr; }`  used anywhere, and a statement helper  `static void h(params){ ... }`
    without `return`, called as a statement.  Conditions: defined in the same unit, not recursive, does not call another helper, never has its address
    taken, never assigns to / takes the address of a parameter; arguments are copied in place of the parameters (an argument that may have side effects
    blocks the inlining of that call).  Returns {unit: [(caller, helper, line)]} for the evidence."""
    import copy
    done = {}
    for uname, u in units.items():
        helpers = {}
        for name, fd in u.funcs.items():
            if fd.get('storageClass') != 'static' or name in exclude:
                continue
            body = body_of(fd)
            params = params_of(fd)
            if body is None or sum(1 for _ in walk(body)) > 600:
                continue
            pid = {p['id'] for p in params}
            bad = False
            for n in walk(body):
                k = n.get('kind')
                if k == 'CallExpr' and callee_name(n) == name:
                    bad = True
                if k in ('BinaryOperator', 'CompoundAssignOperator') and n.get('opcode', '').endswith('=') and n.get('opcode') not in ('==', '!=', '<=', '>='):
                    if ref_id(kids(n)[0]) in pid:
                        bad = True
                if k == 'UnaryOperator' and n.get('opcode') in ('++', '--', '&') and ref_id(kids(n)[0]) in pid:
                    bad = True
                if k in ('GotoStmt', 'LabelStmt', 'SwitchStmt'):
                    bad = True
            if bad:
                continue
            stmts = kids(body)
            # leading guards  `if (c) return;`  of a void helper: on inlining the rest of the body runs under !(c)
            guards = 0
            for st_ in stmts:
                s0_ = strip(st_)
                if s0_.get('kind') == 'IfStmt' and len(kids(s0_)) == 2:
                    th_ = strip(kids(s0_)[1])
                    if th_.get('kind') == 'CompoundStmt' and len(kids(th_)) == 1:
                        th_ = strip(kids(th_)[0])
                    if th_.get('kind') == 'ReturnStmt' and not kids(th_):
                        guards += 1
                        continue
                if s0_.get('kind') == 'DeclStmt' and guards == 0:
                    continue
                break
            rets = [n for n in walk(body) if n.get('kind') == 'ReturnStmt']
            if guards and len(rets) == guards and not any(strip(x).get('kind') == 'DeclStmt' for x in stmts[:0]):
                # rebuild the body:  { decls; if(!(c1)) { if(!(c2)) { rest } } }
                lead, rest_, conds = [], [], []
                seen_guard = False
                for st_ in stmts:
                    s0_ = strip(st_)
                    isg = False
                    if s0_.get('kind') == 'IfStmt' and len(kids(s0_)) == 2 and len(conds) < guards:
                        th_ = strip(kids(s0_)[1])
                        if th_.get('kind') == 'CompoundStmt' and len(kids(th_)) == 1:
                            th_ = strip(kids(th_)[0])
                        isg = th_.get('kind') == 'ReturnStmt' and not kids(th_)
                    if isg:
                        conds.append(kids(s0_)[0])
                        seen_guard = True
                    elif not seen_guard:
                        lead.append(st_)
                    else:
                        rest_.append(st_)
                inner_ = {'kind': 'CompoundStmt', 'range': body.get('range'), 'inner': rest_}
                for c_ in conds[::-1]:
                    neg = {'kind': 'UnaryOperator', 'opcode': '!', 'type': {'qualType': 'int'}, 'range': c_.get('range'),
                           'inner': [{'kind': 'ParenExpr', 'type': c_.get('type'), 'range': c_.get('range'), 'inner': [c_]}]}
                    inner_ = {'kind': 'CompoundStmt', 'range': body.get('range'),
                              'inner': [{'kind': 'IfStmt', 'range': body.get('range'), 'inner': [neg, inner_]}]}
                body = {'kind': 'CompoundStmt', 'range': body.get('range'), 'inner': lead + inner_['inner']}
                stmts = kids(body)
                rets = []
            def ret_expr(x):
                x = strip(x)
                if x.get('kind') == 'CompoundStmt' and len(kids(x)) == 1:
                    x = strip(kids(x)[0])
                return kids(x)[0] if x.get('kind') == 'ReturnStmt' and kids(x) else None
            two_way = None
            if len(stmts) in (1, 2) and strip(stmts[0]).get('kind') == 'IfStmt':
                ks_ = kids(strip(stmts[0]))
                a_ = ret_expr(ks_[1]) if len(ks_) >= 2 else None
                b_ = ret_expr(ks_[2]) if len(ks_) == 3 and len(stmts) == 1 else (ret_expr(stmts[1]) if len(ks_) == 2 and len(stmts) == 2 else None)
                if a_ is not None and b_ is not None:
                    # if (c) return a; else return b;   is the expression  c ? a : b
                    two_way = {'kind': 'ConditionalOperator', 'type': a_.get('type'), 'range': strip(stmts[0]).get('range'), 'inner': [ks_[0], a_, b_]}
            if two_way is not None:
                helpers[name] = ('expr', fd, params, two_way)
            elif len(stmts) == 1 and strip(stmts[0]).get('kind') == 'ReturnStmt' and kids(strip(stmts[0])):
                helpers[name] = ('expr', fd, params, kids(strip(stmts[0]))[0])
            elif not rets:
                helpers[name] = ('stmt', fd, params, body)
        if not helpers:
            continue
        # a helper that calls another helper, or whose address is taken, is left alone
        for name in list(helpers):
            if any(n.get('kind') == 'CallExpr' and callee_name(n) in helpers and callee_name(n) != name for n in walk(helpers[name][3])):
                helpers.pop(name)
        hid = {h[1]['id']: nm for nm, h in helpers.items()}
        for f in u.funcs.values():
            for n in walk(body_of(f) or {}):
                if n.get('kind') == 'CallExpr':
                    for a in call_args(n):
                        for m in walk(a):
                            if m.get('kind') == 'DeclRefExpr' and m['referencedDecl'].get('id') in hid:
                                helpers.pop(hid[m['referencedDecl']['id']], None)
        if not helpers:
            continue
        counter = [0]

        def pure(e):
            for m in walk(e):
                if m.get('kind') == 'CallExpr' and callee_name(m) not in ('getMatrixValue', 'getDVectorValue', 'getTensorValue', 'getUIVectorValue', 'fabs', 'sqrt', 'square'):
                    return False
                if m.get('kind') in ('BinaryOperator', 'CompoundAssignOperator') and m.get('opcode', '').endswith('=') and m.get('opcode') not in ('==', '!=', '<=', '>='):
                    return False
                if m.get('kind') == 'UnaryOperator' and m.get('opcode') in ('++', '--'):
                    return False
            return True

        def subst(node, amap, suffix, locals_):
            if node.get('kind') == 'DeclRefExpr' and node['referencedDecl'].get('id') in amap:
                a = copy.deepcopy(amap[node['referencedDecl']['id']])
                return {'kind': 'ParenExpr', 'type': a.get('type'), 'range': a.get('range'), 'inner': [a]}
            out = {k: v for k, v in node.items() if k != 'inner'}
            if node.get('kind') == 'VarDecl' and node.get('id') in locals_:
                out['id'] = node['id'] + suffix
            if node.get('kind') == 'DeclRefExpr' and node['referencedDecl'].get('id') in locals_:
                out['referencedDecl'] = dict(node['referencedDecl'], id=node['referencedDecl']['id'] + suffix)
            if 'inner' in node:
                out['inner'] = [subst(c, amap, suffix, locals_) if isinstance(c, dict) else c for c in node['inner']]
            return out

        def rewrite(fname, node):
            inner = node.get('inner')
            if not inner:
                return
            splice = []
            for i, c in enumerate(inner):
                if not isinstance(c, dict):
                    continue
                rewrite(fname, c)
                tgt = c
                # a statement-level call may be wrapped in implicit casts only for expression helpers
                if tgt.get('kind') == 'CallExpr' and callee_name(tgt) in helpers and callee_name(tgt) != fname:
                    kind, fd, params, payload = helpers[callee_name(tgt)]
                    args = call_args(tgt)
                    if len(args) != len(params) or not all(pure(a) for a in args):
                        continue
                    amap = {p['id']: a for p, a in zip(params, args)}
                    counter[0] += 1
                    suffix = '@inl%d' % counter[0]
                    locals_ = {m['id'] for m in walk(payload) if m.get('kind') == 'VarDecl'}
                    if kind == 'expr':
                        inner[i] = {'kind': 'ParenExpr', 'type': tgt.get('type'), 'range': tgt.get('range'), '_inlined': callee_name(tgt),
                                    'inner': [subst(payload, amap, suffix, locals_)]}
                    elif node.get('kind') in ('CompoundStmt', 'IfStmt', 'ForStmt', 'WhileStmt', 'DoStmt'):
                        if node.get('kind') != 'CompoundStmt' and i == 0:
                            continue        # the condition position of if/while
                        new = subst(payload, amap, suffix, locals_)
                        new['range'] = tgt.get('range')
                        new['_inlined'] = callee_name(tgt)
                        inner[i] = new
                        if node.get('kind') == 'CompoundStmt':
                            splice.append(i)        # the statements of the helper take the place of the call in the enclosing block
                    else:
                        continue
                    done.setdefault(uname, []).append((fname, callee_name(tgt), begin(tgt).get('line')))
            for i in splice[::-1]:
                inner[i:i + 1] = [x for x in inner[i].get('inner', []) if isinstance(x, dict)]
        for fname, f in u.funcs.items():
            b = body_of(f)
            if b is not None:
                rewrite(fname, b)
        u.reindex()
    return done
