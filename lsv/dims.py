"""E11 dims: dimensional homogeneity (units-of-measure inference) over interpolate.c and curve_area
(serves the unit-independence clause of C19).

Every floating expression gets a dimension X^a Y^b (a 2-vector), unknown ones are variables; +,-,comparison,
assignment and both arms of ApproxEq equate dimensions, *,/ add/subtract, sqrt halves.  The linear system over Q
is solved incrementally; the expression whose constraint is inconsistent with the earlier ones is reported."""
import os
from fractions import Fraction

from . import frontend as fe
from .frontend import kids, strip, walk, callee_name, call_args
from . import exprs, flow
from .guards import match_approx, literal_value, missing_value
from .report import Finding

FUNCS = {'interpolate.c': ['cubic_spline_interpolation', 'cubic_spline_predict', 'interpolate'], 'numeric.c': ['curve_area']}
X = (Fraction(1), Fraction(0))
Y = (Fraction(0), Fraction(1))
ONE = (Fraction(0), Fraction(0))
# seeds: (function, parameter index, column or 'e') -> dimension
SEEDS = {
    ('cubic_spline_interpolation', 0, 0): X, ('cubic_spline_interpolation', 0, 1): Y,
    ('cubic_spline_predict', 0, 'e'): X, ('cubic_spline_predict', 2, 'e'): Y,
    ('interpolate', 0, 0): X, ('interpolate', 0, 1): Y, ('interpolate', 2, 0): X, ('interpolate', 2, 1): Y,
    ('curve_area', 0, 0): X, ('curve_area', 0, 1): Y,
}
RETURN_SEEDS = {'curve_area': (Fraction(1), Fraction(1))}


def rel(p):
    return os.path.relpath(p, fe.REPO)


class Form:
    """sum_i c_i * v_i + k   with v_i unknown 2-vectors, k a constant 2-vector"""
    __slots__ = ('t', 'k')

    def __init__(self, t=None, k=ONE):
        self.t = {a: b for a, b in (t or {}).items() if b != 0}
        self.k = k

    @staticmethod
    def var(v):
        return Form({v: Fraction(1)})

    @staticmethod
    def const(k):
        return Form({}, k)

    def __add__(self, o):
        t = dict(self.t)
        for a, b in o.t.items():
            t[a] = t.get(a, 0) + b
        return Form(t, (self.k[0] + o.k[0], self.k[1] + o.k[1]))

    def scale(self, c):
        c = Fraction(c)
        return Form({a: b * c for a, b in self.t.items()}, (self.k[0] * c, self.k[1] * c))

    def __sub__(self, o):
        return self + o.scale(-1)


def dim_str(k):
    def p(n, e):
        if e == 0:
            return ''
        return n if e == 1 else '%s^%s' % (n, e)
    s = ' '.join(x for x in (p('X', k[0]), p('Y', k[1])) if x)
    return s or '1'


class Solver:
    def __init__(self):
        self.sub = {}     # var -> Form (solved in terms of the remaining vars)

    def reduce(self, f):
        changed = True
        while changed:
            changed = False
            for v in list(f.t):
                if v in self.sub:
                    c = f.t[v]
                    t = dict(f.t)
                    del t[v]
                    f = Form(t, f.k) + self.sub[v].scale(c)
                    changed = True
                    break
        return f

    def equate(self, a, b):
        """returns None if consistent, else the constant residue (a - b) that should have been zero"""
        d = self.reduce(a - b)
        if not d.t:
            if d.k != ONE:
                return d.k
            return None
        v = sorted(d.t, key=str)[0]
        c = d.t[v]
        rest = Form({x: y for x, y in d.t.items() if x != v}, d.k).scale(Fraction(-1) / c)
        self.sub[v] = rest
        for w in list(self.sub):
            if w != v and v in self.sub[w].t:
                self.sub[w] = self.reduce(self.sub[w])
        return None

    def value(self, f):
        f = self.reduce(f)
        return f.k if not f.t else None


LIT = 'lit'
ZERO = 'zero'


class Analysis:
    def __init__(self, chk, prog, rule):
        self.chk, self.prog, self.R = chk, prog, rule
        self.S = Solver()
        self.MISS = float(missing_value())
        self.f = None
        self.n_constraints = 0
        self.n_bad = 0

    # ---- variables -------------------------------------------------------------------
    def container_key(self, e):
        e = strip(e)
        if e.get('kind') == 'UnaryOperator' and e.get('opcode') in ('&', '*'):
            return self.container_key(kids(e)[0])
        if e.get('kind') == 'DeclRefExpr':
            d = e['referencedDecl']
            if d.get('kind') == 'ParmVarDecl':
                pids = [p['id'] for p in self.f.params]
                return ('p', self.f.name, pids.index(d['id'])) if d['id'] in pids else ('l', d['id'])
            return ('l', d['id'])
        return ('?', exprs.text_key(e))

    def cell_var(self, e):
        """Form for a container cell / array element / scalar variable, or None"""
        e = strip(e)
        k = e.get('kind')
        if k == 'DeclRefExpr':
            d = e['referencedDecl']
            if d.get('kind') == 'ParmVarDecl':
                pids = [p['id'] for p in self.f.params]
                return Form.var(('sp', self.f.name, pids.index(d['id'])))
            return Form.var(('s', d['id']))
        if k == 'UnaryOperator' and e.get('opcode') == '*':
            return self.cell_var(kids(e)[0])
        if k == 'ArraySubscriptExpr':
            b, i = kids(e)
            bs = strip(b)
            if bs.get('kind') == 'DeclRefExpr':
                al = self.pointer_alias(bs['referencedDecl']['id'])
                if al is not None and al[0] == 'row':
                    # `double *piece = S->data[i]; piece[k]` is cell (i, k) of S: one dimension per column, as for S->data[i][k]
                    col = fe.int_value(i)
                    return self.col_form(al[1], col if col is not None else '*')
                if al is not None and al[0] == 'vec':
                    return self.col_form(al[1], 'e')
                if '*' in bs.get('type', {}).get('qualType', '') and fe.int_value(i) is not None:
                    # a raw pointer of unknown origin subscripted with a constant may be a record with one meaning per position
                    return Form.var(('arr', bs['referencedDecl']['id'], fe.int_value(i)))
                return Form.var(('arr', bs['referencedDecl']['id']))
            if bs.get('kind') == 'ArraySubscriptExpr':
                bb = strip(kids(bs)[0])
                if bb.get('kind') == 'MemberExpr' and bb.get('name') == 'data':
                    col = fe.int_value(i)
                    ck = self.container_key(kids(bb)[0])
                    return self.col_form(ck, col if col is not None else '*')
                if bb.get('kind') == 'DeclRefExpr':
                    al = self.pointer_alias(bb['referencedDecl']['id'])
                    if al is not None and al[0] == 'rows':
                        col = fe.int_value(i)
                        return self.col_form(al[1], col if col is not None else '*')
            if bs.get('kind') == 'MemberExpr' and bs.get('name') == 'data':
                ck = self.container_key(kids(bs)[0])
                return self.col_form(ck, 'e')
        return None

    def sentinel_bound(self, e):
        """a local whose every definition is built from literals only and mentions the MISSING literal (`lo = MISSING - 1e-2`)"""
        e = strip(e)
        while e.get('kind') == 'ParenExpr':
            e = strip(kids(e)[0])
        if e.get('kind') != 'DeclRefExpr' or e['referencedDecl'].get('kind') != 'VarDecl':
            return False
        did = e['referencedDecl']['id']
        defs = []
        for n in walk(self.f.body):
            if n.get('kind') == 'VarDecl' and n.get('id') == did and kids(n):
                defs.append(kids(n)[-1])
            elif n.get('kind') in ('BinaryOperator', 'CompoundAssignOperator') and n.get('opcode', '').endswith('=') and \
                    n.get('opcode') not in ('==', '!=', '<=', '>=') and fe.ref_id(kids(n)[0]) == did:
                defs.append(kids(n)[1] if n.get('opcode') == '=' else None)
        if not defs or any(d is None for d in defs):
            return False
        for d in defs:
            if any(x.get('kind') in ('DeclRefExpr', 'CallExpr', 'MemberExpr', 'ArraySubscriptExpr') for x in walk(d)):
                return False
            if not any(x.get('kind') in ('IntegerLiteral', 'FloatingLiteral') and literal_value(x) == self.MISS for x in walk(d)):
                return False
        return True

    def pointer_alias(self, did):
        """a local pointer that caches storage of a container: ('row', key) for `M->data[i]`, ('rows', key) for `M->data` of a matrix,
        ('vec', key) for `v->data` of a vector; None when the local has any other definition or definitions that disagree"""
        cache = self.__dict__.setdefault('_alias', {})
        key = (self.f.name, did)
        if key in cache:
            return cache[key]
        found = set()
        for n in walk(self.f.body):
            rhs = None
            if n.get('kind') == 'VarDecl' and n.get('id') == did:
                qt = n.get('type', {}).get('qualType', '')
                if '*' not in qt or 'double' not in qt:
                    found.add(None)
                    break
                if kids(n):
                    rhs = kids(n)[-1]
            elif n.get('kind') == 'BinaryOperator' and n.get('opcode') == '=' and fe.ref_id(kids(n)[0]) == did:
                rhs = kids(n)[1]
            elif n.get('kind') in ('CompoundAssignOperator',) and fe.ref_id(kids(n)[0]) == did:
                found.add(None)
            elif n.get('kind') == 'UnaryOperator' and n.get('opcode') in ('++', '--') and fe.ref_id(kids(n)[0]) == did:
                found.add(None)
            if rhs is None:
                continue
            r = strip(rhs)
            while r.get('kind') in ('ParenExpr', 'CStyleCastExpr'):
                r = strip(kids(r)[-1])
            if r.get('kind') == 'ArraySubscriptExpr' and strip(kids(r)[0]).get('kind') == 'MemberExpr' and strip(kids(r)[0]).get('name') == 'data':
                found.add(('row', self.container_key(kids(strip(kids(r)[0]))[0])))
            elif r.get('kind') == 'ArraySubscriptExpr' and strip(kids(r)[0]).get('kind') == 'DeclRefExpr' and \
                    strip(kids(r)[0])['referencedDecl']['id'] != did and \
                    (self.pointer_alias(strip(kids(r)[0])['referencedDecl']['id']) or (None,))[0] == 'rows':
                found.add(('row', self.pointer_alias(strip(kids(r)[0])['referencedDecl']['id'])[1]))
            elif r.get('kind') == 'MemberExpr' and r.get('name') == 'data':
                qt = r.get('type', {}).get('qualType', '')
                found.add(('rows' if qt.count('*') >= 2 else 'vec', self.container_key(kids(r)[0])))
            else:
                found.add(None)
        res = list(found)[0] if len(found) == 1 else None
        cache[key] = res
        return res

    def col_form(self, ck, col):
        if ck[0] == 'p' and (ck[1], ck[2], col) in SEEDS:
            return Form.const(SEEDS[(ck[1], ck[2], col)])
        return Form.var(('c', ck, col))

    # ---- expressions -----------------------------------------------------------------
    def dim(self, e):
        """Form | LIT | ZERO | None (unknown / not a quantity)"""
        e = strip(e)
        k = e.get('kind')
        if k in ('IntegerLiteral', 'FloatingLiteral'):
            return ZERO if literal_value(e) == 0.0 else LIT
        if not fe.is_float_type(e) and k not in ('CallExpr',) and not (
                k == 'BinaryOperator' and e.get('opcode') in ('<', '>', '<=', '>=', '==', '!=', '&&', '||', '=', ',')) and not (
                k == 'UnaryOperator' and e.get('opcode') == '!'):
            return LIT          # integer-valued expressions are counts
        if k == 'UnaryOperator' and e.get('opcode') in ('-', '+'):
            return self.dim(kids(e)[0])
        if k == 'UnaryOperator' and e.get('opcode') == '!':
            self.dim(kids(e)[0])
            return None
        if k == 'BinaryOperator':
            op = e['opcode']
            a, b = kids(e)
            if op in ('*', '/'):
                da, db = self.dim(a), self.dim(b)
                fa = Form.const(ONE) if da in (LIT, ZERO) else da
                fb = Form.const(ONE) if db in (LIT, ZERO) else db
                if fa is None or fb is None:
                    return None
                return fa + fb if op == '*' else fa - fb
            if op in ('+', '-'):
                da, db = self.dim(a), self.dim(b)
                return self.same(e, da, db)
            if op in ('<', '>', '<=', '>=', '==', '!='):
                if self.sentinel_bound(a) or self.sentinel_bound(b):
                    return None          # comparison with a bound of the MISSING sentinel (hoisted ApproxEq): exempt like the idiom itself
                self.same(e, self.dim(a), self.dim(b))
                return None
            if op in ('&&', '||'):
                m = match_approx(e)
                if m and literal_value(m[1]) == self.MISS:
                    return None          # sentinel test: exempt by construction
                self.dim(a)
                self.dim(b)
                return None
            if op == '=':
                return self.assign(e, a, b)
            if op == ',':
                self.dim(a)
                return self.dim(b)
        if k == 'CompoundAssignOperator':
            a, b = kids(e)
            da, db = self.dim(a), self.dim(b)
            if e['opcode'] in ('+=', '-='):
                return self.same(e, da, db)
            if e['opcode'] in ('*=', '/='):
                if isinstance(db, Form):
                    self.constrain(e, db, Form.const(ONE), 'scaling a quantity in place needs a dimensionless factor')
                return da
        if k == 'CallExpr':
            return self.call(e)
        if k == 'ConditionalOperator':
            c, a, b = kids(e)
            self.dim(c)
            return self.same(e, self.dim(a), self.dim(b))
        cv = self.cell_var(e)
        if cv is not None:
            return cv
        return None

    def same(self, node, da, db):
        """equate two operand dimensions; literals are dimensionless here, zero is polymorphic"""
        if da is None or db is None:
            return da if isinstance(da, Form) else (db if isinstance(db, Form) else None)
        if da == ZERO:
            return db if isinstance(db, Form) else LIT
        if db == ZERO:
            return da if isinstance(da, Form) else LIT
        fa = Form.const(ONE) if da == LIT else da
        fb = Form.const(ONE) if db == LIT else db
        if da == LIT and db == LIT:
            return LIT
        self.constrain(node, fa, fb)
        return fa if isinstance(da, Form) else fb

    def assign(self, node, a, b):
        da = self.cell_var(a)
        # chained initialisers stay polymorphic: c[i] = l[i] = 0.f
        bs = strip(b)
        db = self.dim(b)
        if da is None:
            return db
        if db in (LIT, ZERO):
            return db           # a stored literal is a placeholder, not a quantity (chains stay polymorphic)
        if db is None:
            return da
        self.constrain(node, da, db)
        return da

    def call(self, e):
        cn = callee_name(e)
        a = call_args(e)
        if cn in ('sqrt',):
            d = self.dim(a[0])
            return d.scale(Fraction(1, 2)) if isinstance(d, Form) else d
        if cn in ('fabs', 'floor', 'ceil'):
            return self.dim(a[0])
        if cn == 'square':
            d = self.dim(a[0])
            return d.scale(2) if isinstance(d, Form) else d
        if cn == 'MatrixColumnMinMax' and len(a) == 4:
            col = fe.int_value(a[1])
            src = self.col_form(self.container_key(a[0]), col if col is not None else '*')
            for out in a[2:]:
                cv = self.cell_var(strip(out) if strip(out).get('kind') != 'UnaryOperator' else kids(strip(out))[0])
                if cv is not None:
                    self.constrain(e, cv, src)
            return None
        if cn == 'MatrixCopy' and len(a) == 2:
            s, d = self.container_key(a[0]), self.container_key(a[1])
            for col in (0, 1, 2, 3, 4, '*'):
                self.constrain(e, self.col_form(s, col), self.col_form(d, col))
            return None
        g = self.prog.resolve(self.f, cn) if cn else None
        if g is not None and any(g.name in v for v in FUNCS.values()):
            for i, arg in enumerate(a):
                if i >= len(g.params):
                    break
                pt = (g.params[i].get('type') or {}).get('qualType', '')
                if 'matrix' in pt or 'dvector' in pt:
                    ak = self.container_key(arg)
                    for col in (0, 1, 2, 3, 4, 'e', '*'):
                        fa = self.col_form(ak, col)
                        fb = Form.const(SEEDS[(g.name, i, col)]) if (g.name, i, col) in SEEDS else Form.var(('c', ('p', g.name, i), col))
                        self.constrain(e, fa, fb)
                elif pt in ('double', 'float'):
                    d = self.dim(arg)
                    if isinstance(d, Form):
                        self.constrain(e, d, Form.var(('sp', g.name, i)))
            return Form.var(('ret', g.name))
        for arg in a:
            self.dim(arg)
        return None

    def constrain(self, node, fa, fb, why=None):
        self.n_constraints += 1
        f = self.f
        res = self.S.equate(fa, fb)
        if res is None:
            va = self.S.value(fa)
            self.chk.instance(self.R, '%s %s: `%s` : %s' % (f.unit.where(node), f.name, f.unit.text(node)[:70], dim_str(va) if va else 'consistent'))
            return
        self.n_bad += 1
        va, vb = self.S.value(fa), self.S.value(fb)
        text = f.unit.text(node)[:110]
        msg = 'dimensional inconsistency in `%s`: %s against %s (residue %s)%s' % (
            text, dim_str(va) if va else '?', dim_str(vb) if vb else '?', dim_str(res),
            '; ' + why if why else '')
        self.chk.instance(self.R, '%s %s: %s' % (f.unit.where(node), f.name, text), 'refuted')
        self.chk.violation(Finding('DIM.homogeneous', rel(f.file), f.name, exprs.text_key(node)[:120], f.unit.where(node), msg,
                                   witness={'left': dim_str(va) if va else None, 'right': dim_str(vb) if vb else None}))

    # ---- statements ------------------------------------------------------------------
    def stmt(self, s):
        if s is None or not s.get('kind'):
            return
        k = s['kind']
        if k == 'CompoundStmt':
            for x in kids(s):
                self.stmt(x)
        elif k == 'IfStmt':
            c, t, e = flow.if_parts(s)
            self.cond(c)
            self.stmt(t)
            self.stmt(e)
        elif k in flow.LOOPS:
            init, cond, inc, body = flow.loop_parts(s)
            self.stmt(init)
            if cond is not None and fe.is_float_type(strip(cond)) is False:
                self.cond(cond)
            self.stmt(body)
            self.stmt(inc)
        elif k == 'DeclStmt':
            for v in kids(s):
                if v.get('kind') == 'VarDecl' and kids(v) and fe.qual(v) in ('double', 'float'):
                    d = self.dim(kids(v)[-1])
                    if isinstance(d, Form):
                        self.constrain(v, Form.var(('s', v['id'])), d)
        elif k == 'ReturnStmt':
            if kids(s):
                d = self.dim(kids(s)[0])
                if isinstance(d, Form):
                    tgt = Form.const(RETURN_SEEDS[self.f.name]) if self.f.name in RETURN_SEEDS else Form.var(('ret', self.f.name))
                    self.constrain(s, d, tgt)
        else:
            self.dim(s)

    def cond(self, c):
        c = strip(c)
        if c.get('kind') == 'BinaryOperator' and c.get('opcode') in ('&&', '||'):
            m = match_approx(c)
            if m:
                if literal_value(m[1]) == self.MISS:
                    return
                # ApproxEq(x, v, eps): all three share a dimension
                dx, dv, de = self.dim(m[0]), self.dim(m[1]), self.dim(m[2])
                r = self.same(c, dx, dv)
                if isinstance(r, Form) and de is not None and de != ZERO:
                    fe_ = Form.const(ONE) if de == LIT else de
                    self.n_constraints += 0
                    self.constrain(c, r, fe_, 'an absolute tolerance is compared with a dimensional quantity, so the test '
                                              'depends on the units of the data')
                return
            for x in kids(c):
                self.cond(x)
            return
        if c.get('kind') == 'UnaryOperator' and c.get('opcode') == '!':
            return self.cond(kids(c)[0])
        self.dim(c)


def run(chk, prog):
    R = chk.rule('DIM.homogeneous', 'every floating expression of the spline / area code is dimensionally homogeneous in the '
                 'units of x and y: operands of +, -, comparisons and assignments share a dimension, tolerances included')
    an = Analysis(chk, prog, R)
    nfun = 0
    for unit, names in FUNCS.items():
        for name in names:
            f = prog.funcs.get(name)
            if f is None:
                chk.broke('dims: %s not found' % name)
                continue
            nfun += 1
            an.f = f
            before = (an.n_constraints, an.n_bad)
            an.stmt(f.body)
            nc, nb = an.n_constraints - before[0], an.n_bad - before[1]
            chk.note('%s: %d dimension constraints, %d inconsistent' % (name, nc, nb))
    # report the inferred dimensions of the spline coefficient columns (evidence)
    inferred = {}
    f = prog.funcs.get('cubic_spline_predict')
    if f is not None:
        for col in range(5):
            v = an.S.value(Form.var(('c', ('p', 'cubic_spline_predict', 1), col)))
            inferred['S[:, %d]' % col] = dim_str(v) if v else 'undetermined'
    chk.extra['inferred_dimensions'] = inferred
    chk.extra['constraints'] = an.n_constraints
    return an
