"""E7 guards: guard dominance / control dependence rules (serves C10, C12, C15) and E6b option dispatch.

(a) zero-divisor guard: a division by a cell of a column-scaling vector is in the false arm of
    ApproxEq(same cell, 0, eps) whose true arm stores literal 0 to the same destination;
(b) missing guard: in the column statistics and figures of merit every element read that feeds a result is
    control-dependent on not-IsMissing(the governing element) and so is every counter increment;
(c) pivot guard (C12): see pivot_guard();
(E6b) MatrixPreprocess handles every documented option with a distinct scaling definition; TensorPreprocess
    delegates block by block."""
import os
import re

from . import frontend as fe
from .frontend import kids, strip, walk, callee_name, call_args
from . import exprs, flow
from .program import is_assign, is_incdec, lvalue_base
from .report import Finding


def rel(p):
    return os.path.relpath(p, fe.REPO)


def missing_value():
    txt = open(os.path.join(fe.SRC, 'numeric.h')).read()
    m = re.search(r'#define\s+MISSING\s+(\d+)', txt)
    if not m:
        raise fe.AnalysisBroken('numeric.h no longer defines MISSING as an integer literal')
    return int(m.group(1))


def cell_key(e):
    """canonical key of a container cell; getDVectorValue(v, j) == v->data[j]"""
    e = strip(e)
    if e.get('kind') == 'CallExpr' and callee_name(e) in ('getDVectorValue', 'getMatrixValue'):
        a = call_args(e)
        return exprs.text_key(a[0]) + '->data' + ''.join('[%s]' % exprs.text_key(x) for x in a[1:])
    return exprs.text_key(e)


def match_approx(c):
    """((v - E) < x) && (x < (v + E))  ->  (x, v, E) nodes; None otherwise"""
    c = strip(c)
    if not (c.get('kind') == 'BinaryOperator' and c.get('opcode') == '&&'):
        return None
    l, r = (strip(x) for x in kids(c))
    if not (l.get('kind') == 'BinaryOperator' and l.get('opcode') == '<' and r.get('kind') == 'BinaryOperator' and r.get('opcode') == '<'):
        return None
    lo, x1 = kids(l)
    x2, hi = kids(r)
    lo, hi = strip(lo), strip(hi)
    if not (lo.get('kind') == 'BinaryOperator' and lo.get('opcode') == '-' and hi.get('kind') == 'BinaryOperator' and hi.get('opcode') == '+'):
        return None
    v1, e1 = kids(lo)
    v2, e2 = kids(hi)
    if cell_key(x1) != cell_key(x2) or exprs.text_key(v1) != exprs.text_key(v2) or exprs.text_key(e1) != exprs.text_key(e2):
        return None
    return x1, v1, e1


def literal_value(n):
    n = strip(n)
    if n.get('kind') == 'UnaryOperator' and n.get('opcode') in ('+', '-') and kids(n):
        v = literal_value(kids(n)[0])
        return None if v is None else (v if n['opcode'] == '+' else -v)
    if n.get('kind') in ('IntegerLiteral', 'FloatingLiteral'):
        try:
            return float(n['value'])
        except ValueError:
            return None
    return None


def approx_guards(pm, node, stop=None, with_tol=False):
    """[(holds: bool, x node, v node)] ApproxEq facts on the path to `node` (enclosing ifs and earlier
    sibling early exits), innermost first"""
    out = []
    child = node
    for anc in flow.ancestors(pm, node):
        k = anc.get('kind')
        if k == 'IfStmt':
            c, t, e = flow.if_parts(anc)
            pol = None
            if child is t:
                pol = True
            elif child is e:
                pol = False
            if pol is not None:
                out += approx_facts(c, pol, with_tol)
        elif k == 'CompoundStmt':
            for s in kids(anc):
                if s is child:
                    break
                if s.get('kind') == 'IfStmt':
                    c, t, e = flow.if_parts(s)
                    if flow.exits(t) and not (e is not None and flow.exits(e)):
                        out += approx_facts(c, False, with_tol)
                    elif e is not None and flow.exits(e) and not flow.exits(t):
                        out += approx_facts(c, True, with_tol)
        if anc is stop:
            break
        child = anc
    return out


def approx_facts(c, positive, with_tol=False):
    c = strip(c)
    if c.get('kind') == 'UnaryOperator' and c.get('opcode') == '!':
        return approx_facts(kids(c)[0], not positive, with_tol)
    m = match_approx(c)
    if m:
        return [(positive, m[0], m[1], m[2])] if with_tol else [(positive, m[0], m[1])]
    if c.get('kind') == 'BinaryOperator' and c.get('opcode') in ('&&', '||'):
        a, b = kids(c)
        # (A || B) false => both false ; (A && B) true => both true
        if (c['opcode'] == '||' and not positive) or (c['opcode'] == '&&' and positive):
            return approx_facts(a, positive, with_tol) + approx_facts(b, positive, with_tol)
    return []


# ---------------------------------------------------------------------------------------
# (a) zero-divisor guard

SCALING_FIELDS = ('colscaling', 'xcolscaling', 'ycolscaling')
SCALING_PRODUCERS = ('MatrixColSDEV', 'MatrixColRMS', 'MatrixColVar')


def is_scaling_cell(prog, f, e, stored_only=False):
    """divisor is a cell of a column-scaling vector: MatrixPreprocess' scaling parameter, a *colscaling field of a
    model struct (possibly through a list ->d[k]), or a local filled by a column-spread routine"""
    e = strip(e)
    cont = None
    if e.get('kind') == 'DeclRefExpr' and fe.is_float_type(e) and e['referencedDecl'].get('kind') == 'VarDecl':
        # a local that only ever holds a scaling cell  (const double sf = model->colscaling->d[k]->data[j];)
        did = e['referencedDecl']['id']
        defs = []
        for n in walk(f.body or {}):
            if n.get('kind') == 'VarDecl' and n.get('id') == did and kids(n):
                defs.append(kids(n)[-1])
            if n.get('kind') in ('BinaryOperator', 'CompoundAssignOperator') and n.get('opcode', '').endswith('=') and n.get('opcode') not in ('==', '!=', '<=', '>=') \
                    and fe.ref_id(kids(n)[0]) == did:
                defs.append(kids(n)[1] if n.get('opcode') == '=' else None)
        return bool(defs) and all(d is not None and strip(d).get('kind') != 'DeclRefExpr' and is_scaling_cell(prog, f, d, stored_only) for d in defs)
    if e.get('kind') == 'ArraySubscriptExpr':
        b = strip(kids(e)[0])
        if b.get('kind') == 'MemberExpr' and b.get('name') == 'data':
            cont = strip(kids(b)[0])
    elif e.get('kind') == 'CallExpr' and callee_name(e) == 'getDVectorValue':
        cont = strip(call_args(e)[0])
    if cont is None:
        return False
    while cont.get('kind') == 'ArraySubscriptExpr':        # list element  ->d[k]
        cont = strip(kids(cont)[0])
        if cont.get('kind') == 'MemberExpr' and cont.get('name') == 'd':
            cont = strip(kids(cont)[0])
    if cont.get('kind') == 'MemberExpr' and cont.get('name') in SCALING_FIELDS:
        return True
    if cont.get('kind') == 'DeclRefExpr':
        d = cont['referencedDecl']
        if d.get('kind') == 'ParmVarDecl' and f.name == 'MatrixPreprocess':
            return [p['id'] for p in f.params].index(d['id']) == 3
        if stored_only:
            return False
        for cn, node in f.calls:
            if cn in SCALING_PRODUCERS and len(call_args(node)) > 1 and fe.ref_id(call_args(node)[1]) == d['id']:
                return True
    return False


def zero_divisor(chk, prog, files):
    R = chk.rule('G.zero-divisor', 'a floating division by a cell of a column-scaling vector lies in the false arm of '
                 'ApproxEq(that cell, 0, eps) and the true arm stores exactly 0 to the same destination')
    n = 0
    tolerances = []
    chk.extra_tolerances = tolerances
    for f in prog.all_funcs():
        if f.unit.name not in files:
            continue
        pm = None
        for node in walk(f.body):
            isdiv = (node.get('kind') == 'BinaryOperator' and node.get('opcode') == '/') or \
                    (node.get('kind') == 'CompoundAssignOperator' and node.get('opcode') == '/=')
            if not isdiv or not is_scaling_cell(prog, f, kids(node)[1]):
                continue
            n += 1
            pm = pm or flow.parent_map(f.body)
            div = kids(node)[1]
            dkey = cell_key(div)
            # destination of the result
            dest = None
            if node['kind'] == 'CompoundAssignOperator':
                dest = kids(node)[0]
            else:
                for anc in flow.ancestors(pm, node):
                    if is_assign(anc):
                        dest = kids(anc)[0]
                        break
                    if anc.get('kind') in ('CompoundStmt', 'IfStmt') or anc.get('kind') in flow.LOOPS:
                        break
            desc = '%s %s: %s' % (f.unit.where(node), f.name, f.unit.text(node)[:90])
            # find the enclosing if whose condition is ApproxEq(dkey, 0)
            guard_if = None
            child = node
            for anc in flow.ancestors(pm, node):
                if anc.get('kind') == 'IfStmt':
                    c, t, e = flow.if_parts(anc)
                    m = match_approx(c)
                    if m and cell_key(m[0]) == dkey and literal_value(m[1]) == 0.0 and child is e:
                        guard_if = anc
                        break
                child = anc
            if guard_if is not None:
                tolerances.append((f, node, literal_value(match_approx(flow.if_parts(guard_if)[0])[2]), guard_if))
            if guard_if is None:
                chk.instance(R, desc + ': no zero test on the divisor', 'refuted')
                chk.violation(Finding('G.zero-divisor', rel(f.file), f.name, 'div:' + dkey, f.unit.where(node),
                                      '`%s` divides by the scaling cell %s without being in the false arm of a test that this cell is '
                                      '(approximately) zero: a column without spread becomes NaN/Inf instead of 0' % (f.unit.text(node)[:80], dkey)))
                continue
            c, t, e = flow.if_parts(guard_if)
            zero_store = False
            for x in walk(t):
                if is_assign(x) and x.get('opcode') == '=' and literal_value(kids(x)[1]) == 0.0:
                    if dest is None or exprs.text_key(kids(x)[0]) == exprs.text_key(dest):
                        zero_store = True
            if not zero_store:
                chk.instance(R, desc + ': true arm does not zero the destination', 'refuted')
                chk.violation(Finding('G.zero-divisor', rel(f.file), f.name, 'zero:' + dkey, f.unit.where(guard_if),
                                      'the zero-scale arm guarding `%s` does not store 0 to %s' % (
                                          f.unit.text(node)[:60], f.unit.text(dest) if dest else 'the destination')))
            else:
                chk.instance(R, desc + ': guarded, zero arm stores 0')
    return n


# ---------------------------------------------------------------------------------------
# (b) missing guard

STAT_FUNCS = {'matrix.c': ['MatrixColAverage', 'MatrixColSDEV', 'MatrixColRMS', 'MatrixColVar', 'MatrixColumnMinMax'],
              'statistic.c': ['R2', 'MAE', 'MSE', 'BIAS']}


def missing_guard(chk, prog, funcs):
    R = chk.rule('G.missing', 'in the column statistics / figures of merit every element read of an input container that '
                 'feeds a result, and every counter increment, is control-dependent on "the governing element is not MISSING"')
    MISS = float(missing_value())
    nfun = 0
    for unit, names in funcs.items():
        for name in names:
            f = prog.funcs.get(name)
            if f is None:
                chk.broke('missing-guard: %s not found' % name)
                continue
            nfun += 1
            pm = flow.parent_map(f.body)
            pids = {p['id'] for p in f.params if '*' in (p.get('type') or {}).get('qualType', '')
                    and any(t in p['type']['qualType'] for t in ('matrix', 'dvector'))}
            # locals that copy an input cell (a = m->data[i][col]) are aliases of that cell
            alias = {}
            for n in walk(f.body):
                if is_assign(n) and n.get('opcode') == '=':
                    l = strip(kids(n)[0])
                    r = strip(kids(n)[1])
                    if l.get('kind') == 'DeclRefExpr' and is_input_cell(r, pids):
                        alias[l['referencedDecl']['id']] = n
            problems = []
            nreads = 0
            tests = set()
            # nodes that are part of a guard condition
            cond_nodes = set()
            for n in walk(f.body):
                if n.get('kind') == 'IfStmt':
                    c, t, e = flow.if_parts(n)
                    for sub in walk(c):
                        m_ = match_approx(sub)
                        if m_ and literal_value(m_[1]) == MISS:
                            for x in walk(sub):
                                cond_nodes.add(id(x))
            for n in walk(f.body):
                is_read = False
                key = None
                if n.get('kind') == 'ArraySubscriptExpr' and is_input_cell(n, pids) and id(n) not in cond_nodes:
                    # skip the inner X->data[i] of X->data[i][j]
                    par = pm.get(id(n))
                    while par is not None and par.get('kind') in fe.TRANSPARENT:
                        par = pm.get(id(par))
                    if par is not None and par.get('kind') == 'ArraySubscriptExpr' and strip(kids(par)[0]) is n:
                        continue
                    # a pure copy into an alias local is checked at the alias' reads
                    if par is not None and is_assign(par) and strip(kids(par)[0]).get('kind') == 'DeclRefExpr' and \
                            strip(kids(par)[0])['referencedDecl']['id'] in alias and strip(kids(par)[1]) is n:
                        continue
                    is_read, key = True, cell_key(n)
                elif n.get('kind') == 'DeclRefExpr' and n['referencedDecl']['id'] in alias and id(n) not in cond_nodes:
                    par = pm.get(id(n))
                    if par is not None and is_assign(par) and strip(kids(par)[0]) is n:
                        continue
                    is_read, key = True, exprs.text_key(n)
                if not is_read:
                    continue
                nreads += 1
                gs = approx_guards(pm, n)
                idx = index_part(key)
                ok = False
                for (holds, x, v) in gs:
                    if literal_value(v) == MISS and not holds:
                        xk = cell_key(x)
                        tests.add(xk)
                        if xk == key or index_part(xk) == idx:
                            ok = True
                if not ok:
                    problems.append((n, 'element read `%s` is not control-dependent on the missing test of the same element' % f.unit.text(n)))
            for n in walk(f.body):
                if (is_incdec(n) and n.get('opcode') == '++') or (n.get('kind') == 'CompoundAssignOperator' and n.get('opcode') == '+='
                                                                and fe.int_value(kids(n)[1]) == 1):
                    t = strip(kids(n)[0])
                    if t.get('kind') != 'DeclRefExpr':
                        continue
                    # loop induction variables are not counters
                    if any(flow.induction(lp) and flow.induction(lp)['var'].endswith('#' + t['referencedDecl']['id'])
                           for lp in [x for x in walk(f.body) if x.get('kind') in flow.LOOPS]):
                        continue
                    gs = approx_guards(pm, n)
                    if not any(literal_value(v) == MISS and not holds for (holds, x, v) in gs):
                        problems.append((n, 'counter `%s` is incremented outside the not-missing arm' % f.unit.text(n)))
            # divisors that count the data must be the guarded counters, not the loop index or the raw length
            loopvars = set()
            for lp in [x for x in walk(f.body) if x.get('kind') in flow.LOOPS]:
                ind = flow.induction(lp)
                if ind:
                    loopvars.add(ind['var'].split('#')[1])
            for n in walk(f.body):
                isdiv = (n.get('kind') == 'BinaryOperator' and n.get('opcode') == '/') or \
                        (n.get('kind') == 'CompoundAssignOperator' and n.get('opcode') == '/=')
                if not isdiv or not tests:
                    continue
                d = strip(kids(n)[1])
                if fe.is_float_type(d) and not any(y.get('kind') in ('CStyleCastExpr', 'ImplicitCastExpr') and
                                                   not fe.is_float_type(strip(y)) for y in [kids(n)[1]]):
                    dd = strip(kids(n)[1])
                    if fe.is_float_type(dd):
                        continue
                for y in walk(kids(n)[1]):
                    if y.get('kind') == 'DeclRefExpr' and y['referencedDecl']['id'] in loopvars:
                        problems.append((n, 'the divisor `%s` depends on the loop index, which also counts the missing-coded cells'
                                         % f.unit.text(kids(n)[1])[:40]))
                    if y.get('kind') == 'MemberExpr' and y.get('name') in ('size', 'row', 'col') and not fe.is_float_type(y):
                        problems.append((n, 'the divisor `%s` is the raw length, which also counts the missing-coded cells'
                                         % f.unit.text(kids(n)[1])[:40]))
            if nreads == 0:
                chk.broke('missing-guard: %s reads no input element' % name)
            if problems:
                for node, msg in problems:
                    chk.instance(R, '%s: %s' % (name, msg), 'refuted')
                    chk.violation(Finding('G.missing', rel(f.file), name, exprs.text_key(node), f.unit.where(node),
                                          '%s: %s; a missing-coded entry can influence the result' % (name, msg)))
            else:
                chk.instance(R, '%s: %d element reads and all counters guarded by not-missing tests on %s' % (name, nreads, sorted(tests)))
    return nfun


def is_input_cell(n, pids):
    n = strip(n)
    if n.get('kind') != 'ArraySubscriptExpr':
        return False
    if '*' in (n.get('type') or {}).get('qualType', ''):
        return False            # a row pointer (X->data[i]), not a cell
    b = n
    while b.get('kind') == 'ArraySubscriptExpr':
        b = strip(kids(b)[0])
    return b.get('kind') == 'MemberExpr' and b.get('name') == 'data' and fe.ref_id(kids(b)[0]) in pids


def index_part(key):
    i = key.find('[')
    return key[i:] if i >= 0 else key


# ---------------------------------------------------------------------------------------
# (E6b) option dispatch of MatrixPreprocess, delegation of TensorPreprocess

def preprocess_options(chk, prog):
    R = chk.rule('G.options', 'MatrixPreprocess compares the option explicitly with each documented scaling value 1..5, each arm '
                 'defines the scaling vector differently, option 0 only centres and negative options copy; TensorPreprocess writes '
                 'block k only through MatrixPreprocess(orig block k, same option, ..., trans block k)')
    f = prog.funcs.get('MatrixPreprocess')
    if f is None:
        chk.broke('MatrixPreprocess not found')
        return
    tid = f.params[1]['id']
    sid = f.params[3]['id']
    arms = {}
    for n in walk(f.body):
        if n.get('kind') == 'IfStmt':
            c, t, e = flow.if_parts(n)
            cs = strip(c)
            if cs.get('kind') == 'BinaryOperator' and cs.get('opcode') == '==':
                a, b = kids(cs)
                if fe.ref_id(a) == tid and fe.int_value(b) is not None:
                    arms[fe.int_value(b)] = t
                elif fe.ref_id(b) == tid and fe.int_value(a) is not None:
                    arms[fe.int_value(a)] = t
    sigs = {}
    for k in (1, 2, 3, 4, 5):
        if k not in arms:
            chk.instance(R, 'option %d has no explicit arm' % k, 'refuted')
            chk.violation(Finding('G.options', rel(f.file), f.name, 'option:%d' % k, f.where,
                                  'MatrixPreprocess has no explicit arm for scaling option %d' % k))
            continue
        defines = False
        for x in walk(arms[k]):
            if x.get('kind') == 'CallExpr':
                for a in call_args(x):
                    if fe.ref_id(a) == sid:
                        defines = True
        sig = exprs.text_key(arms[k])
        if not defines:
            chk.instance(R, 'option %d arm does not define the scaling vector' % k, 'refuted')
            chk.violation(Finding('G.options', rel(f.file), f.name, 'nodef:%d' % k, f.unit.where(arms[k]),
                                  'the arm for option %d never passes the scaling vector to a routine that fills it' % k))
        elif sig in sigs.values():
            other = [o for o, s in sigs.items() if s == sig][0]
            chk.instance(R, 'options %d and %d define the scaling identically' % (other, k), 'refuted')
            chk.violation(Finding('G.options', rel(f.file), f.name, 'same:%d' % k, f.unit.where(arms[k]),
                                  'options %d and %d compute the scaling vector with identical code' % (other, k)))
        else:
            chk.instance(R, 'option %d: distinct scaling definition' % k)
        sigs[k] = sig
    # centring gate  type >= 0
    gate = False
    for n in walk(f.body):
        if n.get('kind') == 'IfStmt':
            c, t, e = flow.if_parts(n)
            for cj in exprs.conjuncts(c, True):
                if cj[0] == '<=0' and any(a_.startswith(f.params[1]['name'] + '#') for a_ in cj[1].atoms()) and e is not None:
                    if cj[1].eval({a_: 0 for a_ in cj[1].atoms()}) <= 0 < cj[1].eval({a_: -1 for a_ in cj[1].atoms()}):
                        gate = True
    if gate:
        chk.instance(R, 'options >= 0 centre, negative options take the copy path')
    else:
        chk.instance(R, 'no `option >= 0` gate separating centring from the copy path', 'refuted')
        chk.violation(Finding('G.options', rel(f.file), f.name, 'gate', f.where,
                              'MatrixPreprocess has no test separating the centring options (>= 0) from the copy option (-1)'))
    # TensorPreprocess delegation
    g = prog.funcs.get('TensorPreprocess')
    if g is None:
        chk.broke('TensorPreprocess not found')
        return
    calls = [(cn, n) for cn, n in g.calls if cn == 'MatrixPreprocess']
    pm = flow.parent_map(g.body)
    ok = len(calls) == 1
    why = 'expected exactly one delegation call, found %d' % len(calls)
    if ok:
        cn, n = calls[0]
        a = call_args(n)
        lp = flow.enclosing_loops(pm, n)
        ind = flow.induction(lp[0]) if lp else None
        kv = ind['var'].split('#')[0] if ind else None
        okey = exprs.text_key(a[0])
        tkey = exprs.text_key(a[4])
        ok = (ind is not None and ind['op'] == '<' and str(ind['init']) == '0' and
              exprs.text_key(ind['bound_expr']) == '%s->order' % g.params[0]['name'] and
              okey == '%s->m[%s]' % (g.params[0]['name'], kv) and tkey == '%s->m[%s]' % (g.params[4]['name'], kv) and
              fe.ref_id(a[1]) == g.params[1]['id'])
        why = 'delegation call %s does not pass (orig block k, same option, ..., trans block k) for k over [0, order)' % g.unit.text(n)[:80]
    # no other store into trans
    for x in walk(g.body):
        if is_assign(x) or is_incdec(x):
            root, through = lvalue_base(kids(x)[0])
            if root and root.get('id') == g.params[4]['id'] and through:
                ok, why = False, 'TensorPreprocess stores into the output tensor directly at %s' % g.unit.where(x)
    if ok:
        chk.instance(R, 'TensorPreprocess: block k <- MatrixPreprocess(orig block k, same option) for every k')
    else:
        chk.instance(R, 'TensorPreprocess: ' + why, 'refuted')
        chk.violation(Finding('G.options', rel(g.file), g.name, 'delegation', g.where, why))


def rmse_reaches_mse(chk, prog):
    R = chk.rule('G.rmse', 'RMSE is computed from MSE of its own two arguments (or contains the same guarded accumulation)')
    f = prog.funcs.get('RMSE')
    if f is None:
        chk.broke('RMSE not found')
        return
    for cn, n in f.calls:
        if cn == 'MSE':
            a = call_args(n)
            if [fe.ref_id(x) for x in a] == [p['id'] for p in f.params[:2]]:
                chk.instance(R, 'RMSE -> sqrt(MSE(ytrue, ypred))')
                return
            chk.instance(R, 'RMSE passes %s to MSE' % f.unit.text(n), 'refuted')
            chk.violation(Finding('G.rmse', rel(f.file), 'RMSE', 'args', f.unit.where(n),
                                  'RMSE calls MSE with arguments other than its own (ytrue, ypred), in that order'))
            return
    if any(x.get('kind') in flow.LOOPS for x in walk(f.body)):
        chk.instance(R, 'RMSE no longer calls MSE but has its own loop (checked by the missing-guard rule if listed)', 'undecided')
        return
    other = [cn for cn, _ in f.calls]
    chk.instance(R, 'RMSE does not reach MSE (calls %s)' % other, 'refuted')
    chk.violation(Finding('G.rmse', rel(f.file), 'RMSE', 'callee', f.where,
                          'RMSE neither calls MSE nor accumulates squared errors itself (it calls %s)' % other))


# ---------------------------------------------------------------------------------------
# (c) pivot guard (C12)

def pivot_guard(chk, prog, funcs):
    R = chk.rule('G.pivot', 'a division by a diagonal element W[e][e] of a working matrix is dominated by a test of that element, or '
                 'is preceded inside the same pivot iteration by a store into row e of W (row exchange)')
    for unit, names in funcs.items():
        for name in names:
            f = prog.funcs.get(name)
            if f is None:
                chk.broke('pivot guard: %s not found' % name)
                continue
            pm = flow.parent_map(f.body)
            # locals that copy a diagonal element:  a = W[e][e]
            diag_alias = {}
            for n in walk(f.body):
                if is_assign(n) and n.get('opcode') == '=':
                    l, r = strip(kids(n)[0]), strip(kids(n)[1])
                    d = diag_of(r)
                    if l.get('kind') == 'DeclRefExpr' and d:
                        diag_alias[l['referencedDecl']['id']] = (d, n)
            # cached row pointers:  double *row_i = W->data[i];  -- valid as a name for that row when every assignment of the pointer has this form
            row_alias = {}
            bad_alias = set()
            for n in walk(f.body):
                init = None
                if n.get('kind') == 'VarDecl' and kids(n) and 'double *' in fe.qual(n).replace('const ', ''):
                    vid, init = n.get('id'), kids(n)[-1]
                elif is_assign(n) and n.get('opcode') == '=' and strip(kids(n)[0]).get('kind') == 'DeclRefExpr' and \
                        'double *' in fe.qual(strip(kids(n)[0])).replace('const ', ''):
                    vid, init = strip(kids(n)[0])['referencedDecl']['id'], kids(n)[1]
                if init is None:
                    continue
                i0 = strip(init)
                ok_ = False
                if i0.get('kind') == 'ArraySubscriptExpr':
                    bb = strip(kids(i0)[0])
                    if bb.get('kind') == 'MemberExpr' and bb.get('name') == 'data':
                        key = (exprs.text_key(kids(bb)[0]), exprs.text_key(kids(i0)[1]), strip(kids(i0)[1]))
                        if vid in row_alias and row_alias[vid][:2] != key[:2]:
                            bad_alias.add(vid)
                        row_alias[vid] = key
                        ok_ = True
                if not ok_:
                    bad_alias.add(vid)
            for vid in bad_alias:
                row_alias.pop(vid, None)

            def akey(e):
                """text key of a cell, with a cached row pointer written out:  row_i[k]  ->  W->data[i][k]"""
                e = strip(e)
                if e.get('kind') == 'ArraySubscriptExpr':
                    b = strip(kids(e)[0])
                    if b.get('kind') == 'DeclRefExpr' and b['referencedDecl']['id'] in row_alias:
                        w, r, _ = row_alias[b['referencedDecl']['id']]
                        return '%s->data[%s][%s]' % (w, r, exprs.text_key(kids(e)[1]))
                return exprs.text_key(e)

            def adiag(e):
                d_ = diag_of(e)
                if d_:
                    return d_
                e = strip(e)
                if e.get('kind') == 'ArraySubscriptExpr':
                    b = strip(kids(e)[0])
                    if b.get('kind') == 'DeclRefExpr' and b['referencedDecl']['id'] in row_alias:
                        w, r, rn = row_alias[b['referencedDecl']['id']]
                        if exprs.text_key(kids(e)[1]) == r:
                            return w, r, (rn['referencedDecl']['name'] if rn.get('kind') == 'DeclRefExpr' else None)
                return None
            for n in walk(f.body):
                if is_assign(n) and n.get('opcode') == '=':
                    l, r = strip(kids(n)[0]), strip(kids(n)[1])
                    d = adiag(r)
                    if l.get('kind') == 'DeclRefExpr' and d and fe.is_float_type(l):
                        diag_alias.setdefault(l['referencedDecl']['id'], (d, n))
            ndiv = 0
            for n in walk(f.body):
                isdiv = (n.get('kind') == 'BinaryOperator' and n.get('opcode') == '/') or \
                        (n.get('kind') == 'CompoundAssignOperator' and n.get('opcode') == '/=')
                if not isdiv or not fe.is_float_type(strip(kids(n)[1], casts=False)):
                    continue
                dv = strip(kids(n)[1])
                d = adiag(dv)
                at = n
                if d is None and dv.get('kind') == 'DeclRefExpr' and dv['referencedDecl']['id'] in diag_alias:
                    d, at = diag_alias[dv['referencedDecl']['id']]
                if d is None:
                    continue
                wkey, ekey, evar = d
                # only elimination ratios  W[x][e] / W[e][e]  (x != e): scaling a row by its own pivot afterwards is not
                # a pivoting question
                num = strip(kids(n)[0])
                nk = akey(num)
                if not (num.get('kind') == 'ArraySubscriptExpr' and nk.startswith(wkey + '->data[') and nk.endswith('[%s]' % ekey)
                        and not nk.startswith('%s->data[%s]' % (wkey, ekey))):
                    continue
                ndiv += 1
                desc = '%s %s: %s' % (f.unit.where(n), name, f.unit.text(n)[:70])
                # (1) tested: an enclosing / preceding condition mentions the same cell
                cellkey = '%s->data[%s][%s]' % (wkey, ekey, ekey)
                tested = False
                child = n
                for anc in flow.ancestors(pm, n):
                    if anc.get('kind') == 'IfStmt':
                        c, t, e = flow.if_parts(anc)
                        if any(cell_key(x) == cellkey or akey(x) == cellkey for x in walk(c) if x.get('kind') == 'ArraySubscriptExpr'):
                            tested = True
                    child = anc
                # (2) replaced: inside the loop over the pivot variable, before `at`, a store into row e of W
                replaced = False
                ploop = None
                for lp in flow.enclosing_loops(pm, at):
                    ind = flow.induction(lp)
                    if ind and evar and ind['var'].split('#')[0] == evar:
                        ploop = lp
                        break
                if ploop is not None:
                    off_at = (fe.begin(at) or {}).get('offset', 0)
                    for x in walk(ploop):
                        if is_assign(x) and (fe.begin(x) or {}).get('offset', 0) < off_at:
                            l = strip(kids(x)[0])
                            if l.get('kind') == 'ArraySubscriptExpr':
                                k0 = exprs.text_key(l)
                                if k0.startswith('%s->data[%s]' % (wkey, ekey)):
                                    replaced = True
                if tested or replaced:
                    chk.instance(R, desc + (': pivot tested' if tested else ': pivot row may be exchanged before the division'))
                else:
                    chk.instance(R, desc + ': divides by whatever is on the diagonal', 'refuted')
                    chk.violation(Finding('G.pivot', rel(f.file), name, 'div:' + cellkey, f.unit.where(n),
                                          '`%s` divides by the diagonal element %s which is neither tested nor possibly replaced by a row '
                                          'exchange in this pivot iteration: a zero leading entry of a non-singular matrix gives NaN'
                                          % (f.unit.text(n)[:70], cellkey)))
            if ndiv == 0:
                chk.broke('pivot guard: %s has no division by a diagonal element' % name)


def diag_of(e):
    """W->data[x][x]  ->  (W key, x key, x variable name or None)"""
    e = strip(e)
    if e.get('kind') != 'ArraySubscriptExpr':
        return None
    b, j = kids(e)
    b = strip(b)
    if b.get('kind') != 'ArraySubscriptExpr':
        return None
    bb, i = kids(b)
    bb = strip(bb)
    if not (bb.get('kind') == 'MemberExpr' and bb.get('name') == 'data'):
        return None
    ki, kj = exprs.text_key(i), exprs.text_key(j)
    if ki != kj:
        return None
    iv = strip(i)
    return exprs.text_key(kids(bb)[0]), ki, (iv['referencedDecl']['name'] if iv.get('kind') == 'DeclRefExpr' else None)


# ---------------------------------------------------------------------------------------
# magnitude consistency (C12): a value compared with fabs(x) as a running maximum holds magnitudes only

def magnitude_rule(chk, prog, funcs, control=None):
    R = chk.rule('G.magnitude', 'a variable that is compared with fabs(.) (pivot search by magnitude) is only ever assigned fabs(.) values or '
                 'non-negative constants: a signed initial value makes a negative entry compare smaller than a zero entry')

    def scan(f, report):
        hits = 0
        for n in walk(f.body):
            if not (n.get('kind') == 'BinaryOperator' and n.get('opcode') in ('>', '>=', '<', '<=')):
                continue
            a, b = (strip(x) for x in kids(n))
            for mag, var in ((a, b), (b, a)):
                if mag.get('kind') == 'CallExpr' and callee_name(mag) in ('fabs', 'fabsf', 'fabsl') and var.get('kind') == 'DeclRefExpr' \
                        and var['referencedDecl'].get('kind') == 'VarDecl':
                    vid = var['referencedDecl']['id']
                    hits += 1
                    bad = []
                    for x in walk(f.body):
                        rhs = None
                        if is_assign(x) and x.get('opcode') == '=' and fe.ref_id(kids(x)[0]) == vid:
                            rhs = kids(x)[1]
                        if x.get('kind') == 'VarDecl' and x.get('id') == vid and kids(x):
                            rhs = kids(x)[-1]
                        if rhs is None:
                            continue
                        r = strip(rhs)
                        lv = literal_value(r)
                        if r.get('kind') == 'CallExpr' and callee_name(r) in ('fabs', 'fabsf', 'fabsl', 'sqrt'):
                            continue
                        if lv is not None and lv >= 0:
                            continue
                        bad.append((x, f.unit.text(rhs)[:50]))
                    report(f, n, var['referencedDecl']['name'], bad)
        return hits
    state = {'control_hit': False}

    def rep_real(f, n, vname, bad):
        desc = '%s %s: `%s`' % (f.unit.where(n), f.name, f.unit.text(n)[:60])
        if bad:
            chk.instance(R, desc + ': %s is also assigned `%s`' % (vname, bad[0][1]), 'refuted')
            chk.violation(Finding('G.magnitude', rel(f.file), f.name, 'var:' + vname, f.unit.where(bad[0][0]),
                                  '%s: `%s` is compared with a magnitude (fabs) but assigned the signed value `%s`: a negative entry then '
                                  'loses against a zero entry in the pivot search' % (f.name, vname, bad[0][1])))
        else:
            chk.instance(R, desc + ': %s holds magnitudes only' % vname)

    def rep_control(f, n, vname, bad):
        if bad:
            state['control_hit'] = True
    for unit, names in funcs.items():
        for name in names:
            f = prog.funcs.get(name)
            if f is not None:
                scan(f, rep_real)
    if control:
        from .program import Program
        cu = fe.load_units([], {'control_magnitude.c': control})
        cp = Program(cu)
        for f in cp.all_funcs():
            scan(f, rep_control)
        if state['control_hit']:
            chk.instance(R, 'positive control controls/magnitude.c is flagged')
        else:
            chk.broke('rule G.magnitude did not flag its positive control controls/magnitude.c')


# ---------------------------------------------------------------------------------------
# centred spread: a column without spread must give exactly zero

def centered_spread(chk, prog, names):
    R = chk.rule('G.centered-spread', 'the spread statistic handed out by the column SDEV/variance routines is accumulated from deviations '
                 '(cell - column mean) of the guarded cells, so that a constant column yields exactly 0 (a one-pass sum-of-squares '
                 'formula cancels catastrophically and can even go negative)')
    for name in names:
        f = prog.funcs.get(name)
        if f is None:
            chk.broke('centered-spread: %s not found' % name)
            continue
        pids = {p['id'] for p in f.params}
        # the value appended to the output vector
        outs = []
        for cn, node in f.calls:
            if cn == 'DVectorAppend' and len(call_args(node)) == 2:
                outs.append((node, call_args(node)[1]))
        if not outs:
            chk.broke('centered-spread: %s appends nothing to its output' % name)
            continue
        for node, val in outs:
            v = strip(val)
            while v.get('kind') == 'CallExpr' and callee_name(v) in ('sqrt', 'fabs') and call_args(v):
                v = strip(call_args(v)[0])
            if v.get('kind') != 'DeclRefExpr':
                chk.instance(R, '%s: appended value `%s` is not a plain accumulator' % (name, f.unit.text(val)[:50]), 'undecided')
                continue
            vid = v['referencedDecl']['id']
            # mean variables: locals that are divided by a count at some point
            means = set()
            for x in walk(f.body):
                if x.get('kind') == 'CompoundAssignOperator' and x.get('opcode') == '/=':
                    means.add(fe.ref_id(kids(x)[0]))
                if is_assign(x) and x.get('opcode') == '=' and strip(kids(x)[1]).get('kind') == 'BinaryOperator' and strip(kids(x)[1]).get('opcode') == '/':
                    means.add(fe.ref_id(kids(x)[0]))
            means.discard(vid)
            accs, other = [], []
            for x in walk(f.body):
                tgt = rhs = None
                if x.get('kind') == 'CompoundAssignOperator' and fe.ref_id(kids(x)[0]) == vid:
                    tgt, rhs, op = x, kids(x)[1], x['opcode']
                    if op in ('+=',):
                        accs.append((x, rhs))
                    elif op in ('/=', '*='):
                        pass
                    else:
                        other.append(x)
                elif is_assign(x) and x.get('opcode') == '=' and fe.ref_id(kids(x)[0]) == vid:
                    r = strip(kids(x)[1])
                    if literal_value(r) is not None:
                        continue                      # initialisation
                    # v = v / (n-1)   scaling of the accumulated value
                    if r.get('kind') == 'BinaryOperator' and r.get('opcode') in ('/', '*') and fe.ref_id(kids(r)[0]) == vid:
                        continue
                    if r.get('kind') == 'BinaryOperator' and r.get('opcode') == '+' and fe.ref_id(kids(r)[0]) == vid:
                        accs.append((x, kids(r)[1]))
                        continue
                    other.append(x)
            def centred(e):
                # contains  (input cell) - (mean variable)
                for y in walk(e):
                    if y.get('kind') == 'BinaryOperator' and y.get('opcode') == '-':
                        a, b = (strip(z) for z in kids(y))
                        if is_input_cell(a, pids) and b.get('kind') == 'DeclRefExpr' and b['referencedDecl']['id'] in means:
                            return True
                    if y.get('kind') == 'DeclRefExpr' and y['referencedDecl'].get('kind') == 'VarDecl':
                        # a local holding the deviation:  double a = cell - mean
                        d = f.unit.by_id.get(y['referencedDecl']['id'])
                        if d is not None and kids(d) and d is not e:
                            ini = strip(kids(d)[-1])
                            if ini.get('kind') == 'BinaryOperator' and ini.get('opcode') == '-':
                                a, b = (strip(z) for z in kids(ini))
                                if is_input_cell(a, pids) and b.get('kind') == 'DeclRefExpr' and b['referencedDecl']['id'] in means:
                                    return True
                return False
            bad = [x for x, rhs in accs if not centred(rhs)]
            desc = '%s: `%s` accumulated by %d statement(s)' % (name, v['referencedDecl']['name'], len(accs))
            if accs and not bad and not other:
                chk.instance(R, desc + ', all of deviations to the column mean')
            else:
                where = (bad or other or [node])[0]
                why = ('it is not accumulated at all but assigned `%s`' % f.unit.text(other[0])[:70]) if (other and not accs) else \
                      ('an accumulated term is not a deviation to the mean: `%s`' % f.unit.text(bad[0])[:70]) if bad else \
                      ('it is also assigned `%s`' % f.unit.text(other[0])[:70]) if other else 'no accumulation found'
                chk.instance(R, desc + ': ' + why, 'refuted')
                chk.violation(Finding('G.centered-spread', rel(f.file), name, 'spread:' + v['referencedDecl']['name'], f.unit.where(where),
                                      '%s: the spread `%s` handed to the caller is not a sum of squared deviations (cell - mean): %s; a constant '
                                      'column then yields a tiny non-zero or negative value (NaN after sqrt) instead of exactly 0' % (
                                          name, v['referencedDecl']['name'], why)))


# ---------------------------------------------------------------------------------------
# fit / apply agreement (sibling branches of MatrixPreprocess)

def fit_apply_agreement(chk, prog):
    """MatrixPreprocess has a fit branch (statistics computed, then applied) and an apply branch (stored statistics applied).
    "Applying the stored averages/scalings to the same matrix reproduces the training transform" requires the two branches to
    treat every cell alike: the same kind of store (centre / scale / zero a spread-less column) must sit under the same
    approximate-equality guards -- same tested cell role, same reference value, same tolerance, same polarity."""
    R = chk.rule('FA.agree', 'the fit branch and the apply branch of MatrixPreprocess perform each kind of cell store (centre, scale, zero) '
                 'under the same ApproxEq guards: same cell role, reference value, tolerance and polarity')
    f = prog.funcs.get('MatrixPreprocess')
    if f is None or f.body is None:
        chk.broke('MatrixPreprocess not found')
        return
    P = [p.get('name') for p in f.params]
    if len(P) < 5:
        chk.broke('MatrixPreprocess signature changed')
        return
    orig, typ, avg, scal, trans = P[:5]
    top = None
    for s_ in kids(f.body):
        if s_.get('kind') == 'IfStmt':
            c, t, e = flow.if_parts(s_)
            txt = f.unit.text(c).replace(' ', '')
            if e is not None and '%s->size==0' % avg in txt and '%s->size==0' % scal in txt:
                top = (s_, t, e)
    if top is None:
        chk.broke('MatrixPreprocess: the fit/apply split `if(colaverage->size == 0 && colscaling->size == 0)` was not found')
        return
    pm = flow.parent_map(f.body)

    def base_of(e):
        e = strip(e)
        if e.get('kind') == 'CallExpr' and callee_name(e) in ('getDVectorValue', 'getMatrixValue'):
            b = strip(call_args(e)[0])
            return b['referencedDecl'].get('name') if b.get('kind') == 'DeclRefExpr' else None
        while e.get('kind') == 'ArraySubscriptExpr':
            e = strip(kids(e)[0])
        if e.get('kind') == 'MemberExpr' and e.get('name') == 'data':
            b = strip(kids(e)[0])
            return b['referencedDecl'].get('name') if b.get('kind') == 'DeclRefExpr' else None
        return None

    role = {orig: 'input cell', trans: 'output cell', avg: 'average', scal: 'scaling'}

    def classify(n):
        """kind of a store into the output matrix"""
        l = kids(n)[0]
        if base_of(l) != trans:
            return None
        if n.get('kind') == 'CompoundAssignOperator' and n.get('opcode') == '/=' and base_of(kids(n)[1]) == scal:
            return 'scale'
        if n.get('kind') == 'BinaryOperator' and n.get('opcode') == '=':
            r = strip(kids(n)[1])
            if literal_value(r) == 0.0:
                return 'zero'
            if r.get('kind') == 'BinaryOperator' and r.get('opcode') == '-' and base_of(kids(r)[0]) == orig and base_of(kids(r)[1]) == avg:
                return 'centre'
            if r.get('kind') == 'BinaryOperator' and r.get('opcode') == '/' and base_of(kids(r)[1]) == scal:
                return 'scale'
            if base_of(r) == orig:
                return 'copy'
        return 'other'

    def describe(arm):
        out = {}
        for n in walk(arm):
            if not (is_assign(n) and n.get('kind') in ('BinaryOperator', 'CompoundAssignOperator')):
                continue
            k = classify(n)
            if k is None:
                continue
            gs = set()
            for (pol, x, v, tol) in approx_guards(pm, n, stop=arm, with_tol=True):
                r_ = role.get(base_of(x), f.unit.text(x))
                gs.add((r_, literal_value(v), literal_value(tol), pol))
            out.setdefault(k, []).append((n, frozenset(gs)))
        return out
    fit, app = describe(top[1]), describe(top[2])

    def fmt(gs):
        return '{' + ', '.join('%s %s %g (tolerance %g)' % (r_, '~=' if pol else 'not ~=', v if v is not None else float('nan'),
                                                             t if t is not None else float('nan')) for r_, v, t, pol in sorted(gs, key=repr)) + '}'
    n_inst = 0
    for kind in ('centre', 'scale', 'zero'):
        if kind not in fit or kind not in app:
            if kind in fit or kind in app:
                chk.instance(R, 'MatrixPreprocess: `%s` stores exist in one branch only' % kind, 'undecided')
            continue
        fit_sets = {g for _, g in fit[kind]}
        for n, g in app[kind]:
            n_inst += 1
            # the output-cell / input-cell distinction is immaterial for the missing test: both name the cell being transformed
            norm = lambda gs: frozenset((('cell' if r_ in ('input cell', 'output cell') else r_), v, t, pol) for r_, v, t, pol in gs)
            if any(norm(g) == norm(h) for h in fit_sets):
                chk.instance(R, '%s MatrixPreprocess apply branch: `%s` store under %s, as in the fit branch' % (f.unit.where(n), kind, fmt(g)))
            else:
                ref = sorted(fit_sets, key=repr)[0]
                miss = norm(ref) - norm(g)
                extra = norm(g) - norm(ref)
                chk.instance(R, '%s MatrixPreprocess apply branch: `%s` store under %s, fit branch %s' % (f.unit.where(n), kind, fmt(g), fmt(ref)), 'refuted')
                chk.violation(Finding('FA.agree', rel(f.file), f.name, 'apply:%s' % kind, f.unit.where(n),
                                      'MatrixPreprocess: in the apply branch the `%s` store `%s` is guarded by %s but the fit branch performs it under %s '
                                      '(missing in apply: %s; only in apply: %s): re-applying the stored statistics to the training matrix does not '
                                      'reproduce the training transform for the cells on which the guards differ'
                                      % (kind, f.unit.text(n)[:70], fmt(g), fmt(ref), fmt(miss), fmt(extra))))
    if n_inst < 3:
        chk.broke('MatrixPreprocess: only %d comparable stores between the fit and the apply branch, floor 3' % n_inst)
    # every other place that re-applies stored scalings uses the zero-spread tolerance of the fit branch
    R2 = chk.rule('FA.tolerance', 'every guarded division by a stored column scaling tests the scaling against 0 with the tolerance of the '
                  'fit branch of MatrixPreprocess (a column is zeroed at projection time exactly when it was zeroed at training time)')
    tols = getattr(chk, 'extra_tolerances', [])
    ref = [t for g, n, t, gi in tols if g is f and any(x is n for x in walk(top[1]))]
    if not ref or ref[0] is None:
        chk.broke('FA.tolerance: the zero-spread tolerance of the fit branch was not found')
        return
    for g, n, t, gi in tols:
        if g is f and any(x is n for x in walk(top[1])):
            continue
        if g is f:
            continue        # the apply branch of MatrixPreprocess itself is compared by FA.agree
        if t == ref[0]:
            chk.instance(R2, '%s %s: zero-spread tolerance %g, as at training time' % (g.unit.where(gi), g.name, t))
        else:
            chk.instance(R2, '%s %s: zero-spread tolerance %s, training uses %g' % (g.unit.where(gi), g.name, t, ref[0]), 'refuted')
            chk.violation(Finding('FA.tolerance', rel(g.file), g.name, 'tol:%s' % cell_key(kids(n)[1]), g.unit.where(gi),
                                  '%s zeroes a column when |scaling| < %s but the training transform (MatrixPreprocess fit branch) does so when '
                                  '|scaling| < %g: a column whose scaling lies between the two is scaled at training time and zeroed (or the '
                                  'reverse) when the model is applied' % (g.name, t, ref[0])))


def reprojection_stats(chk, prog, fit='PLS', apply='PLSScorePredictor', fields=('xcolaverage', 'xcolscaling')):
    """the predictor re-applies exactly the statistics the fit stored: same routine, same model fields, and an option (< 0) under
    which empty statistics mean "copy" (option -1 at training time stores nothing)"""
    R = chk.rule('RP.same-stats', 'the score predictor preprocesses its input with MatrixPreprocess on the same model fields the fit filled, '
                 'with a negative option (empty statistics => copy)')
    ff, fa = prog.funcs.get(fit), prog.funcs.get(apply)
    if ff is None or fa is None:
        chk.broke('%s / %s not found' % (fit, apply))
        return

    def calls(f):
        out = []
        for cn, node in f.calls:
            if cn == 'MatrixPreprocess':
                a = call_args(node)
                if len(a) == 5:
                    flds = []
                    for x in a[2:4]:
                        x = strip(x)
                        flds.append(x.get('name') if x.get('kind') == 'MemberExpr' else None)
                    out.append((node, a, tuple(flds)))
        return out
    cf = [c for c in calls(ff) if c[2] == tuple(fields)]
    ca = calls(fa)
    if len(cf) != 1:
        chk.broke('%s: %d calls MatrixPreprocess(.., model->%s, model->%s, ..), expected 1' % (fit, len(cf), fields[0], fields[1]))
        return
    if not ca:
        chk.instance(R, '%s does not call MatrixPreprocess' % apply, 'refuted')
        chk.violation(Finding('RP.same-stats', rel(fa.file), fa.name, 'no-preprocess', fa.where,
                              '%s no longer preprocesses its input with MatrixPreprocess: the training transform is not re-applied' % apply))
        return
    for node, a, flds in ca:
        opt = literal_value(a[1])
        good = flds == tuple(fields) and opt is not None and opt < 0
        if good:
            chk.instance(R, '%s %s: MatrixPreprocess(x, %g, model->%s, model->%s, X)' % (fa.unit.where(node), apply, opt, flds[0], flds[1]))
        else:
            chk.instance(R, '%s %s: MatrixPreprocess with statistics %s, option %s' % (fa.unit.where(node), apply, flds, opt), 'refuted')
            chk.violation(Finding('RP.same-stats', rel(fa.file), fa.name, 'stats', fa.unit.where(node),
                                  '%s preprocesses with (%s, %s) and option %s; the fit stored its statistics in (%s, %s) and empty statistics must '
                                  'mean "copy" (negative option): re-projecting the training X does not reproduce the training transform'
                                  % (apply, flds[0], flds[1], fa.unit.text(a[1]), fields[0], fields[1])))


OPTION_TABLE = {1: ('producer', 'MatrixColSDEV'), 2: ('producer', 'MatrixColRMS'), 3: ('sqrt-of', 'MatrixColSDEV'),
                4: ('range',), 5: ('copy-average',)}
OPTION_NAMES = {1: 'sample standard deviation', 2: 'root mean square', 3: 'Pareto (square root of the standard deviation)',
                4: 'range (max - min)', 5: 'level (the column average)'}


def option_statistics(chk, prog):
    """which statistic each scaling option stores, in the order the property lists them (1 standard deviation, 2 root-mean-square,
    3 Pareto, 4 range, 5 level), and that centring subtracts the MatrixColAverage of the same matrix"""
    R = chk.rule('G.option-statistic', 'scaling option k fills the scaling vector with the statistic promised for k (1 SD, 2 RMS, 3 sqrt(SD), '
                 '4 max-min, 5 the average) of the input matrix, and the centring subtracts MatrixColAverage of the same matrix')
    f = prog.funcs.get('MatrixPreprocess')
    if f is None:
        chk.broke('MatrixPreprocess not found')
        return
    P = [p.get('name') for p in f.params]
    orig, typ, avg, scal, trans = P[:5]
    tid = f.params[1]['id']
    arms = {}
    for n in walk(f.body):
        if n.get('kind') == 'IfStmt':
            c, t, e = flow.if_parts(n)
            cs = strip(c)
            if cs.get('kind') == 'BinaryOperator' and cs.get('opcode') == '==':
                a, b = kids(cs)
                if fe.ref_id(a) == tid and fe.int_value(b) is not None:
                    arms[fe.int_value(b)] = t
                elif fe.ref_id(b) == tid and fe.int_value(a) is not None:
                    arms[fe.int_value(a)] = t

    def nm(x):
        x = strip(x)
        return x['referencedDecl'].get('name') if x.get('kind') == 'DeclRefExpr' else None

    def describe(arm):
        calls = [(callee_name(x), call_args(x), x) for x in walk(arm) if x.get('kind') == 'CallExpr']
        prod = [(cn, a) for cn, a, x in calls if cn in ('MatrixColSDEV', 'MatrixColRMS', 'MatrixColVar', 'MatrixColAverage') and len(a) == 2 and nm(a[1]) == scal]
        stores = [x for x in walk(arm) if is_assign(x) and exprs.text_key(kids(x)[0]).startswith(scal + '->data')]
        if len(prod) == 1 and nm(prod[0][1][0]) == orig:
            if not stores:
                return ('producer', prod[0][0])
            if len(stores) == 1 and stores[0].get('opcode') == '=':
                r = strip(kids(stores[0])[1])
                lp = [l for l in walk(arm) if l.get('kind') == 'ForStmt']
                if r.get('kind') == 'CallExpr' and callee_name(r) == 'sqrt' and exprs.text_key(call_args(r)[0]) == exprs.text_key(kids(stores[0])[0]) and len(lp) == 1:
                    ind = flow.induction(lp[0])
                    if ind and str(ind['init']) == '0' and ind['op'] == '<' and exprs.text_key(ind['bound_expr']) == '%s->size' % scal:
                        return ('sqrt-of', prod[0][0])
            return ('other', 'producer %s then %d further stores' % (prod[0][0], len(stores)))
        if not prod:
            cp = [(cn, a) for cn, a, x in calls if cn == 'DVectorCopy' and len(a) == 2 and nm(a[0]) == avg and nm(a[1]) == scal]
            if len(cp) == 1 and not stores and len(calls) == 1:
                return ('copy-average',)
            mm = [(cn, a) for cn, a, x in calls if cn == 'MatrixColumnMinMax']
            ap = [(cn, a) for cn, a, x in calls if cn == 'DVectorAppend' and nm(a[0]) == scal]
            lp = [l for l in walk(arm) if l.get('kind') == 'ForStmt']
            if len(mm) == 1 and len(ap) == 1 and len(lp) == 1 and nm(mm[0][1][0]) == orig:
                ind = flow.induction(lp[0])
                kv = ind['var'].split('#')[0] if ind else None
                lo_, hi_ = (strip(x) for x in mm[0][1][2:4])
                v = strip(ap[0][1][1])
                if (ind and str(ind['init']) == '0' and ind['op'] == '<' and exprs.text_key(ind['bound_expr']) == '%s->col' % orig and
                        exprs.text_key(mm[0][1][1]) == kv and lo_.get('opcode') == '&' and hi_.get('opcode') == '&' and
                        v.get('kind') == 'BinaryOperator' and v.get('opcode') == '-' and
                        exprs.text_key(kids(v)[0]) == exprs.text_key(kids(hi_)[0]) and exprs.text_key(kids(v)[1]) == exprs.text_key(kids(lo_)[0])):
                    return ('range',)
        return ('other', f.unit.text(arm)[:60])
    for k in (1, 2, 3, 4, 5):
        if k not in arms:
            continue        # reported by G.options
        d = describe(arms[k])
        if d == OPTION_TABLE[k]:
            chk.instance(R, '%s option %d stores the %s of the input' % (f.unit.where(arms[k]), k, OPTION_NAMES[k]))
        else:
            chk.instance(R, '%s option %d: %s' % (f.unit.where(arms[k]), k, d), 'refuted')
            chk.violation(Finding('G.option-statistic', rel(f.file), f.name, 'stat:%d' % k, f.unit.where(arms[k]),
                                  'MatrixPreprocess: option %d must scale by the %s of the training matrix, but its arm computes %s'
                                  % (k, OPTION_NAMES[k], ' '.join(str(x) for x in d))))
    # centring: colaverage <- MatrixColAverage(orig), subtracted from the same matrix
    ca = [(call_args(x), x) for x in walk(f.body) if x.get('kind') == 'CallExpr' and callee_name(x) == 'MatrixColAverage']
    good = len(ca) == 1 and nm(ca[0][0][0]) == orig and nm(ca[0][0][1]) == avg
    if good:
        chk.instance(R, '%s the average subtracted is MatrixColAverage(%s)' % (f.unit.where(ca[0][1]), orig))
    else:
        chk.instance(R, 'centring statistic', 'refuted')
        chk.violation(Finding('G.option-statistic', rel(f.file), f.name, 'average', f.where,
                              'MatrixPreprocess no longer fills the average vector with MatrixColAverage of the input matrix exactly once'))


def scaling_tests(chk, prog, files):
    """a stored column scaling may be negative (level scaling stores the column mean): whether it is "zero" is decided only by the
    two-sided ApproxEq idiom, never by a one-sided or exact comparison"""
    R = chk.rule('G.scaling-test', 'every comparison on a cell of a column-scaling vector is one half of the two-sided ApproxEq(cell, 0, eps) idiom '
                 '(scalings can be negative under level scaling, so a one-sided test misclassifies them)')
    n = 0
    for f in prog.all_funcs():
        if f.unit.name not in files or f.body is None:
            continue
        pm = None
        for node in walk(f.body):
            if node.get('kind') != 'BinaryOperator' or node.get('opcode') not in ('<', '>', '<=', '>=', '==', '!='):
                continue
            ops = kids(node)
            cell = None
            for o in ops:
                if is_scaling_cell(prog, f, o, stored_only=True):
                    cell = o
            if cell is None:
                continue
            n += 1
            pm = pm or flow.parent_map(f.body)
            # is this comparison one half of an ApproxEq over the same cell?
            ok = False
            for anc in flow.ancestors(pm, node):
                if anc.get('kind') == 'BinaryOperator' and anc.get('opcode') == '&&':
                    m = match_approx(anc)
                    if m and cell_key(m[0]) == cell_key(cell):
                        ok = True
                        break
                if anc.get('kind') not in ('ParenExpr', 'ImplicitCastExpr', 'BinaryOperator'):
                    break
            desc = '%s %s: `%s`' % (f.unit.where(node), f.name, f.unit.text(node)[:80])
            if ok:
                chk.instance(R, desc + ' is half of ApproxEq')
            else:
                chk.instance(R, desc + ' is a lone comparison', 'refuted')
                chk.violation(Finding('G.scaling-test', rel(f.file), f.name, 'cmp:' + cell_key(cell), f.unit.where(node),
                                      '%s: `%s` compares the stored scaling %s one-sidedly/exactly; a scaling can be negative (level scaling stores the '
                                      'column mean), so columns are treated differently from the way MatrixPreprocess treated them at training time'
                                      % (f.name, f.unit.text(node)[:80], cell_key(cell))))
    return n


# absolute-tolerance tests inside dense kernels, confirmed by reading (function, reference value or None, tolerance): reason
KERNEL_TOLERANCE_TABLE = {
    ('SpearmanCorrelMatrix', None, 1e-3): 'tie detection between two ranked values (documented behaviour of the rank correlation)',
    ('MatrixColAverage', 0.0, 1e-6): 'a column sum within 1e-6 of zero is stored as exactly 0 (changes the mean by < 1e-6/n)',
    ('MatrixColDescStat', 0.0, 1e-6): 'same snap as MatrixColAverage',
    ('MatrixGetMaxValueIndex', None, 1e-3): 'locates the cell holding the maximum found just before (comparison with a value of the same matrix)',
    ('MatrixGetMinValueIndex', None, 1e-3): 'locates the cell holding the minimum found just before',
}


def kernel_tolerances(chk, prog, funcs_by_unit, table=None, what='dense kernels', rule='K.tolerance'):
    """dense kernels return their textbook value for data of any scale (1e-6..1e6): apart from the MISSING sentinel test, a kernel may not
    compare a data-scaled quantity with an absolute tolerance, except at the sites confirmed in KERNEL_TOLERANCE_TABLE"""
    table = KERNEL_TOLERANCE_TABLE if table is None else table
    R = chk.rule(rule, 'inside the %s the only approximate-equality tests are the MISSING sentinel test and the confirmed '
                 'sites of the tolerance table: no absolute tolerance (> 1e-12) is applied to a quantity that scales with the data' % what)
    miss = float(missing_value())
    seen = set()
    for unit, names in funcs_by_unit.items():
        for nm in names:
            f = prog.funcs.get(nm)
            if f is None or f.body is None:
                continue
            for n in walk(f.body):
                if not (n.get('kind') == 'BinaryOperator' and n.get('opcode') == '&&'):
                    continue
                m = match_approx(n)
                if not m:
                    continue
                v, t = literal_value(m[1]), literal_value(m[2])
                if v == miss:
                    continue
                if is_scaling_cell(prog, f, m[0], stored_only=True):
                    continue        # zero-spread tests on stored scalings are governed by G.zero-divisor / FA.*
                key = (nm, v, t)
                desc = '%s %s: ApproxEq(%s, %s, %s)' % (f.unit.where(n), nm, f.unit.text(m[0])[:40], f.unit.text(m[1])[:20] if v is None else '%g' % v, t)
                if key in table:
                    seen.add(key)
                    chk.instance(R, desc + ': confirmed site (%s)' % table[key])
                elif t is not None and t <= 1e-12:
                    chk.instance(R, desc + ': tolerance below the square of the smallest magnitude in range')
                elif t is None:
                    chk.instance(R, desc + ': tolerance is not a literal (possibly relative): not decided', 'undecided')
                else:
                    chk.instance(R, desc + ': not a confirmed site', 'refuted')
                    chk.violation(Finding(rule, rel(f.file), nm, 'tol:%s:%s' % (cell_key(m[0]), t), f.unit.where(n),
                                          '%s compares `%s` with %s using the absolute tolerance %s: for data of small scale (the property ranges over '
                                          '1e-6..1e6) the test fires on ordinary non-zero values and the kernel no longer returns its textbook value'
                                          % (nm, f.unit.text(m[0])[:60], f.unit.text(m[1])[:20], t)))
    one_sided_thresholds(chk, prog, funcs_by_unit, R, rule)
    for key, why in table.items():
        if key not in seen and prog.funcs.get(key[0]) is not None:
            chk.instance(R, 'confirmed site %s no longer present (table entry is stale, harmless)' % (key,), 'undecided')
    # positive control: the recogniser must see the absolute-tolerance test of controls/tolerance.c on every run
    from .report import VERIF
    cpath = os.path.join(VERIF, 'controls', 'tolerance.c')
    hit = False
    try:
        from .program import Program
        cu = fe.load_units([], {'control_tolerance.c': cpath})
        for f in Program(cu).all_funcs():
            if True:
                for n in walk(f.body or {}):
                    if n.get('kind') == 'BinaryOperator' and n.get('opcode') == '&&':
                        m = match_approx(n)
                        if m and literal_value(m[1]) == 0.0 and (literal_value(m[2]) or 0) > 1e-12:
                            hit = True
    except Exception as e:      # noqa
        hit = False
        chk.extra['tolerance_control_error'] = repr(e)[:200]
    if hit:
        chk.instance(R, 'positive control controls/tolerance.c is recognised')
    else:
        chk.broke('rule %s did not recognise its positive control controls/tolerance.c' % rule)


CURVE_TOLERANCE_TABLE = {
    ('ROC', 1.0, 0.1): 'class test on the 0/1 truth label (column 0), not on a score',
    ('PrecisionRecall', 1.0, 0.1): 'class test on the 0/1 truth label (column 0), not on a score',
}


SOLVER_TOLERANCE_TABLE = {
    ('SVD', 0.0, 1e-6): 'eigenvalues below 1e-6 are treated as zero when the singular values are formed (rank decision of the eigen-based SVD)',
    ('SolveLSE', 0.0, 1e-4): 'pivot / zero tests of the Gauss elimination with row exchange (the sites the pivot-guard rule G.pivot relies on)',
}


# every one-sided comparison of a floating quantity with a small non-zero literal in the library (7 sites on the pinned tree), each read:
ONE_SIDED_TABLE = {
    ('PCA', 'conv'): 'convergence test on calcConvergence(): sum (t_new - t_old)^2 / (n * sum t_new^2), a relative (dimensionless) measure',
    ('CPCA', 'conv'): 'same relative measure',
    ('LVCalc', 'conv'): 'same relative measure',
    ('UPCA', 'calcConvergence(t_new,t_old)'): 'same relative measure',
    ('ICA', 'calcConvergence(w_new,w)'): 'same relative measure',
    ('GetLVCCutoff_', '(fabs(next-max)/next)'): 'relative difference between two R2/Q2 values',
    ('GetLVCCutoff_', '(fabs(prev-max)/prev)'): 'relative difference between two R2/Q2 values',
}


def _small_literal(n):
    v = strip(n)
    while v.get('kind') == 'ParenExpr':
        v = strip(kids(v)[0])
    sign = 1.0
    if v.get('kind') == 'UnaryOperator' and v.get('opcode') in ('+', '-'):
        sign = -1.0 if v['opcode'] == '-' else 1.0
        v = strip(kids(v)[0])
    if v.get('kind') in ('FloatingLiteral', 'IntegerLiteral'):
        try:
            return sign * float(v.get('value'))
        except (TypeError, ValueError):
            return None
    return None


def one_sided_thresholds(chk, prog, funcs_by_unit, R, rule):
    """`x < 1e-8`, `fabs(x) <= EPS`, `x > -tol` ...: an absolute threshold on x.  Confirmed sites (dimensionless measures) are tabled; a tested
    expression that is visibly a ratio or a convergence measure is left undecided; anything else is reported"""
    for unit, names in funcs_by_unit.items():
        for nm in names:
            f = prog.funcs.get(nm)
            if f is None or f.body is None:
                continue
            inapprox = set()
            for n in walk(f.body):
                if n.get('kind') == 'BinaryOperator' and n.get('opcode') == '&&' and match_approx(n):
                    for m in walk(n):
                        inapprox.add(id(m))
            defs = {}
            for n in walk(f.body):
                if n.get('kind') == 'BinaryOperator' and n.get('opcode') == '=' and strip(kids(n)[0]).get('kind') == 'DeclRefExpr':
                    defs.setdefault(strip(kids(n)[0])['referencedDecl'].get('name'), []).append(kids(n)[1])
                if n.get('kind') == 'VarDecl' and kids(n):
                    defs.setdefault(n.get('name'), []).append(kids(n)[-1])
                if n.get('kind') == 'CompoundAssignOperator' and n.get('opcode') in ('+=', '-=') and strip(kids(n)[0]).get('kind') == 'DeclRefExpr':
                    defs.setdefault(strip(kids(n)[0])['referencedDecl'].get('name'), []).append(kids(n)[1])
            for n in walk(f.body):
                if id(n) in inapprox or not (n.get('kind') == 'BinaryOperator' and n.get('opcode') in ('<', '<=', '>', '>=')):
                    continue
                a, b = kids(n)
                la, lb = _small_literal(a), _small_literal(b)
                if (la is None) == (lb is None):
                    continue
                v = la if la is not None else lb
                other = strip(b if la is not None else a)
                if v == 0 or abs(v) >= 0.5 or not fe.is_float_type(other):
                    continue
                txt = f.unit.text(other).replace(' ', '')
                desc = '%s %s: `%s` (literal %g)' % (f.unit.where(n), nm, f.unit.text(n)[:60], v)
                if (nm, txt) in ONE_SIDED_TABLE:
                    chk.instance(R, desc + ': confirmed site (%s)' % ONE_SIDED_TABLE[(nm, txt)])
                    continue

                def dimensionless(e, depth=0):
                    e = strip(e)
                    while e.get('kind') == 'ParenExpr':
                        e = strip(kids(e)[0])
                    if e.get('kind') == 'BinaryOperator' and e.get('opcode') == '/':
                        return True
                    if e.get('kind') == 'CallExpr' and callee_name(e) in ('calcConvergence',):
                        return True
                    if e.get('kind') == 'CallExpr' and callee_name(e) in ('fabs', 'sqrt') and call_args(e):
                        return dimensionless(call_args(e)[0], depth)
                    if e.get('kind') == 'DeclRefExpr' and depth < 2:
                        ds = defs.get(e['referencedDecl'].get('name'), [])
                        return bool(ds) and all(dimensionless(d, depth + 1) for d in ds)
                    return False
                def data_scaled(e, depth=0):
                    """visibly a quantity in the units of the data: a cell of a container, a dot product / norm / trace, or a local computed from those"""
                    e = strip(e)
                    while e.get('kind') == 'ParenExpr':
                        e = strip(kids(e)[0])
                    k_ = e.get('kind')
                    if k_ == 'ArraySubscriptExpr':
                        return True
                    if k_ == 'CallExpr':
                        cn_ = callee_name(e)
                        if cn_ in ('DVectorDVectorDotProd', 'DvectorModule', 'MatrixTrace', 'Matrixnorm', 'getMatrixValue', 'getDVectorValue', 'getTensorValue'):
                            return True
                        if cn_ in ('fabs', 'sqrt', 'square') and call_args(e):
                            return data_scaled(call_args(e)[0], depth)
                        return False
                    if k_ == 'UnaryOperator' and e.get('opcode') in ('-', '+', '*'):
                        return data_scaled(kids(e)[0], depth)
                    if k_ == 'BinaryOperator' and e.get('opcode') in ('+', '-', '*'):
                        return data_scaled(kids(e)[0], depth) or data_scaled(kids(e)[1], depth)
                    if k_ == 'DeclRefExpr' and depth < 2:
                        ds = defs.get(e['referencedDecl'].get('name'), [])
                        return any(data_scaled(d, depth + 1) for d in ds)
                    return False
                if dimensionless(other) or not data_scaled(other):
                    chk.instance(R, desc + ': the tested value is a ratio / convergence measure or of unknown origin (possibly dimensionless): not decided', 'undecided')
                    continue
                chk.instance(R, desc + ': one-sided absolute threshold, not a confirmed site', 'refuted')
                chk.violation(Finding(rule, rel(f.file), nm, 'threshold:%s' % txt[:40], f.unit.where(n),
                                      '%s compares `%s` with the literal %g: an absolute threshold on a quantity that scales with the data -- for data of small '
                                      'scale (or a legitimately small value) the branch is taken on ordinary non-zero values' % (nm, f.unit.text(other)[:60], v)))


KMEANS_TOLERANCE_TABLE = {
    ('shouldStop', None, 1e-3): 'the documented convergence test of k-means: centroid coordinate against its previous value (decided by KM.converged)',
    ('MDC', 0.0, 1e-3): 'stop heuristic of MDC: counts objects whose information value has dropped to zero (a dimensionless rank product, not a data-scaled quantity)',
}


def secondary_inductions(chk, prog, funcs_by_unit, rule='IND.complete'):
    """a scalar that is advanced once per iteration at the top level of a loop body (sign = -sign; l++; pos += n) is a function of the
    loop index only if EVERY iteration advances it: a `continue` that can be taken before the update desynchronises it"""
    R = chk.rule(rule, 'a scalar advanced once per iteration at the top level of a loop body (alternating sign, running position) is advanced on '
                 'every iteration: no `continue` of that loop can be taken before the update')
    n_inst = 0
    for unit, names in funcs_by_unit.items():
        for nm in names:
            f = prog.funcs.get(nm)
            if f is None or f.body is None:
                continue
            for loop in walk(f.body):
                if loop.get('kind') not in ('ForStmt', 'WhileStmt'):
                    continue
                body = kids(loop)[-1]
                if body.get('kind') != 'CompoundStmt':
                    continue
                ind = flow.induction(loop) if loop.get('kind') == 'ForStmt' else None
                ivar = ind['var'].split('#')[0] if ind else None
                stmts = kids(body)
                for pos, st in enumerate(stmts):
                    s0 = strip(st)
                    v = None
                    if s0.get('kind') == 'UnaryOperator' and s0.get('opcode') in ('++', '--') and strip(kids(s0)[0]).get('kind') == 'DeclRefExpr':
                        v = strip(kids(s0)[0])['referencedDecl'].get('name')
                    elif s0.get('kind') == 'CompoundAssignOperator' and strip(kids(s0)[0]).get('kind') == 'DeclRefExpr' and \
                            not any(y.get('kind') == 'ArraySubscriptExpr' for y in walk(kids(s0)[1])):
                        v = strip(kids(s0)[0])['referencedDecl'].get('name')
                    elif s0.get('kind') == 'BinaryOperator' and s0.get('opcode') == '=' and strip(kids(s0)[0]).get('kind') == 'DeclRefExpr':
                        nm_ = strip(kids(s0)[0])['referencedDecl'].get('name')
                        r = kids(s0)[1]
                        if any(y.get('kind') == 'DeclRefExpr' and y['referencedDecl'].get('name') == nm_ for y in walk(r)) and \
                                not any(y.get('kind') in ('ArraySubscriptExpr', 'CallExpr') for y in walk(r)):
                            v = nm_
                    if v is None or v == ivar:
                        continue
                    # is the variable also read elsewhere in the body (otherwise it is a plain counter of executed iterations)
                    used = any(y.get('kind') == 'DeclRefExpr' and y['referencedDecl'].get('name') == v for x in stmts[:pos] + stmts[pos + 1:] for y in walk(x))
                    if not used:
                        continue
                    n_inst += 1
                    # a continue of THIS loop before the update
                    early = None
                    for x in stmts[:pos]:
                        for y in _own_continues(x):
                            early = y
                    desc = '%s %s: `%s` advances `%s` once per iteration' % (f.unit.where(s0), nm, f.unit.text(s0)[:40], v)
                    if early is None:
                        chk.instance(R, desc + ' on every path')
                    else:
                        chk.instance(R, desc + ' but can be skipped', 'refuted')
                        chk.violation(Finding(rule, rel(f.file), nm, 'skipped:%s' % v, f.unit.where(early),
                                              '%s: `%s` is advanced by `%s` at the end of each iteration, but the `continue` at %s skips that update: from then '
                                              'on `%s` no longer corresponds to the loop index (every later term gets the wrong sign / position)'
                                              % (nm, v, f.unit.text(s0)[:40], f.unit.where(early), v)))
    return n_inst


def _own_continues(n):
    """continue statements inside n that bind to the enclosing loop of n (not to a loop nested in n)"""
    out = []
    if n.get('kind') == 'ContinueStmt':
        return [n]
    if n.get('kind') in ('ForStmt', 'WhileStmt', 'DoStmt'):
        return []
    for c in kids(n):
        out += _own_continues(c)
    return out
