"""E3 slices: partition of an index range among worker threads (serves C13).

For every dispatch loop whose workers iterate over a half-open range [lo, hi) taken from their argument struct:
  * the loop body is abstracted (by the shape engine, path-sensitively) to a transfer function over the loop-carried
    scalars: guarded polynomial updates and the values stored into the lo/hi fields;
  * S1 contiguity (lo_0 = 0, lo_{k+1} = hi_k), S2 clamp (hi_k <= R), S3 coverage (hi_{N-1} = R) are decided on that
    extracted recurrence for every (R, N) of the property's own quantifier (rows 0..bound, threads 1..bound) by evaluating the
    polynomials -- the program is never executed; a failing pair is the witness;
  * S4 ownership: every store of the worker through a pointer shared between workers is subscripted by the sliced loop
    variable (or by square_to_condensed_index(sliced, k>sliced, n));
  * S5: a condensed distance vector is sized (n*n - n)/2 and subscripted only through square_to_condensed_index with that n;
  * worker bounds: the worker's subscripts are in range under the facts the dispatcher establishes (hi <= R, field bindings)."""
import os
import re

from . import frontend as fe
from .frontend import kids, strip, walk, callee_name, call_args
from . import exprs, flow
from .program import is_assign, is_incdec, lvalue_base
from .shape import Engine, St, ctype_of
from .shapecheck import Checker, parse_pre
from .sym import Poly, DEFS, eval_def
from .report import Finding


def rel(p):
    return os.path.relpath(p, fe.REPO)


def worker_range(prog, ent):
    """the sliced loop of a worker: for(i = arg->LO; i < arg->HI; i++) -> (loop, var, LO field, HI field, arg local name)"""
    f = prog.funcs.get(ent)
    if f is None:
        return None
    for lp in [n for n in walk(f.body) if n.get('kind') == 'ForStmt']:
        ind = flow.induction(lp)
        if not ind or ind['op'] not in ('<', '<=') or ind['step'] != Poly.const(1):
            continue
        init, cond, inc, body = flow.for_parts(lp)
        i_s = strip(init)
        if i_s.get('kind') != 'BinaryOperator':
            continue
        lo = strip(kids(i_s)[1])
        hi = strip(ind['bound_expr'])
        if lo.get('kind') == 'MemberExpr' and hi.get('kind') == 'MemberExpr' and lo.get('isArrow') and hi.get('isArrow'):
            a1, a2 = fe.ref_name(kids(lo)[0]), fe.ref_name(kids(hi)[0])
            if a1 and a1 == a2:
                return f, lp, ind['var'], lo['name'], hi['name'], a1, ind['op'] == '<='
    return None


class Dispatch:
    def __init__(self, f, loop, call, ent):
        self.f, self.loop, self.call, self.ent = f, loop, call, ent


def dispatch_sites(prog):
    out = []
    for (f, call, ent) in prog.thread_creates():
        wr = worker_range(prog, ent)
        if wr is None:
            continue
        pm = flow.parent_map(f.body)
        loops = flow.enclosing_loops(pm, call)
        if not loops:
            continue
        out.append((f, loops[0], call, ent, wr))
    return out


def extract(ck, f, loop, call, wr):
    """run the shape engine up to the dispatch loop, then once through its body from a symbolic carried state.
    Returns (pre-loop state, carried vars, induction info, [path dicts])"""
    eng = Engine(ck, f, pre=sum((parse_pre(x) for x in ck.contracts.get(f.name, {}).get('pre', [])), []), dom=ck.dom)
    # the trip count may be a local filled by an external routine (GetNProcessor(&nthreads, ...)): a fixed unknown value
    ind0 = flow.induction(loop)
    if ind0:
        eng.free_locals = {eng.lnames[n['referencedDecl']['id']] for n in walk(ind0['bound_expr'])
                           if n.get('kind') == 'DeclRefExpr' and n['referencedDecl']['id'] in eng.lnames}
    cap = []
    orig = eng.exec_loop

    def hook(lp, states):
        if lp is loop:
            for st in states:
                s2 = st.copy()
                init, cond, inc, body = flow.loop_parts(lp)
                if init is not None:
                    eng.visit(init, s2)
                cap.append(s2)
            return {'norm': [], 'brk': [], 'cont': [], 'ret': []}
        return orig(lp, states)
    eng.exec_loop = hook
    eng.run()
    if not cap:
        return None
    st0 = cap[0]
    ind = eng.induction(loop, st0)
    if not ind:
        return None
    init, cond, inc, body = flow.loop_parts(loop)
    carried = sorted(v for v in eng.assigned_ints(body) if v != ind['var'])
    s = st0.copy()
    th = Poly.atom('#th')
    s.vals[ind['var']] = th
    for v in carried:
        s.vals[v] = Poly.atom('#' + v)
    flows = eng.exec(body, [s])
    paths = []
    argbase = None
    a = call_args(call)
    t = strip(a[3])
    if t.get('kind') == 'UnaryOperator' and t.get('opcode') == '&':
        t = strip(kids(t)[0])
    if t.get('kind') == 'ArraySubscriptExpr':
        argbase = eng.cpath(kids(t)[0], s)
    for s2 in flows['norm'] + flows['cont']:
        nf = [x for x in s2.facts if x not in s.facts]
        fields = {}
        prefix = '%s[#th]->' % argbase
        for k, v in s2.vals.items():
            if k.startswith(prefix):
                fields[k[len(prefix):]] = v
        paths.append({'facts': nf, 'next': {v: s2.vals[v] for v in carried}, 'fields': fields, 'state': s2})
    return eng, st0, carried, ind, paths, argbase


def evaluate(p, val):
    """evaluate a Poly under a valuation, computing definitional atoms (ceildiv, mod, ...) on demand"""
    v = dict(val)
    for a in sorted(p.atoms(), key=len):
        if a not in v and a in DEFS:
            op, x, y = DEFS[a]
            for z in x.atoms() | y.atoms():
                if z not in v and z in DEFS:
                    v[z] = evaluate(Poly.atom(z), v)
            try:
                v[a] = eval_def(a, v)
            except KeyError:
                return None
            if v[a] is None:
                return None
    try:
        return p.eval(v)
    except KeyError:
        return None


def simulate(st0, carried, ind, paths, lo_f, hi_f, base_atoms, rmax, nmax, Rp, Np, inclusive=False):
    """bounded evaluation of the extracted recurrence; returns (pairs checked, first failure or None)"""
    checked = 0
    others = [a for a in base_atoms if Poly.atom(a) != Rp and Poly.atom(a) != Np]
    Ra = [a for a in Rp.atoms()]
    Na = [a for a in Np.atoms()]
    if len(Ra) != 1 or len(Na) != 1:
        return 0, ('unsupported', 'range extent or thread count is not a single shape atom: %s / %s' % (Rp, Np))
    for R in range(0, rmax + 1):
        for N in range(1, nmax + 1):
            val = {Ra[0]: R, Na[0]: N}
            for o in others:
                val[o] = max(R, 1)
            cur = {}
            ok = True
            for v in carried:
                x = evaluate(st0.vals[v], val)
                if x is None:
                    return checked, ('unsupported', 'initial value of %s is not evaluable: %s' % (v, st0.vals[v]))
                cur[v] = x
            prev_hi = 0
            ranges = []
            for th in range(N):
                vv = dict(val)
                vv['#th'] = th
                for v in carried:
                    vv['#' + v] = cur[v]
                chosen = None
                for p in paths:
                    fs = [evaluate(x, vv) for x in p['facts']]
                    if any(x is None for x in fs):
                        continue
                    if all(x >= 0 for x in fs):
                        chosen = p
                        break
                if chosen is None:
                    return checked, ('unsupported', 'no path of the loop body is enabled at th=%d R=%d N=%d' % (th, R, N))
                lo = evaluate(chosen['fields'][lo_f], vv)
                hi = evaluate(chosen['fields'][hi_f], vv)
                if inclusive:
                    hi += 1          # the worker iterates while i <= hi
                ranges.append((lo, hi))
                for v in carried:
                    cur[v] = evaluate(chosen['next'][v], vv)
            checked += 1
            why = None
            if ranges[0][0] != 0:
                why = 'worker 0 starts at %s, not 0' % ranges[0][0]
            for k in range(len(ranges)):
                lo, hi = ranges[k]
                if why:
                    break
                if lo > hi:
                    why = 'worker %d gets an inverted range [%d,%d)' % (k, lo, hi)
                elif hi > R:
                    why = 'worker %d ends at %d beyond the extent %d' % (k, hi, R)
                elif k > 0 and lo != ranges[k - 1][1]:
                    why = 'gap/overlap: worker %d starts at %d but worker %d ended at %d' % (k, lo, k - 1, ranges[k - 1][1])
            if not why and ranges[-1][1] != R:
                why = 'last worker ends at %d: rows [%d,%d) are processed by no worker' % (ranges[-1][1], ranges[-1][1], R)
            if why:
                return checked, ('refuted', why, {'rows': R, 'threads': N, 'ranges': ranges})
    return checked, None


def slice_always_processed(prog, wr):
    """S6: every path through the worker that returns normally executes a loop over its slice [lo, hi)
    (paths ending in abort()/exit are exempt).  Returns None if ok, else the offending node."""
    f, lp, var, lo_f, hi_f, argname, inclusive = wr

    def is_slice_loop(n):
        if n.get('kind') != 'ForStmt':
            return False
        ind = flow.induction(n)
        if not ind:
            return False
        init, cond, inc, body = flow.for_parts(n)
        i_s = strip(init)
        if i_s.get('kind') != 'BinaryOperator':
            return False
        lo, hi = strip(kids(i_s)[1]), strip(ind['bound_expr'])
        return (lo.get('kind') == 'MemberExpr' and lo.get('name') == lo_f and hi.get('kind') == 'MemberExpr' and hi.get('name') == hi_f)

    bad = []

    def run(n, covered):
        """returns set of 'covered' flags with which control can fall out of n; records uncovered returns"""
        if n is None or not n.get('kind'):
            return {covered}
        k = n['kind']
        if k == 'CompoundStmt':
            cur = {covered}
            for x in kids(n):
                nxt = set()
                for c in cur:
                    nxt |= run(x, c)
                cur = nxt
                if not cur:
                    break
            return cur
        if k == 'IfStmt':
            c, t, e = flow.if_parts(n)
            return run(t, covered) | (run(e, covered) if e is not None else {covered})
        if k == 'ReturnStmt':
            if not covered:
                bad.append(n)
            return set()
        if flow.is_noreturn_call(n):
            return set()
        if is_slice_loop(n):
            return {True}
        if k in flow.LOOPS:
            init, cond, inc, body = flow.loop_parts(n)
            return run(body, covered) | {covered}
        return {covered}
    out = run(f.body, False)
    if False in out and not bad:
        bad.append(f.decl)
    return bad[0] if bad else None


def shared_store_ownership(prog, wr):
    """S4: stores through pointers of the worker argument are indexed by the sliced variable"""
    f, lp, var, lo_f, hi_f, argname, inclusive = wr
    problems = []
    nstores = 0
    vname = var.split('#')[0]
    vid = var.split('#')[1]
    for n in walk(f.body):
        tgt = None
        if is_assign(n) or is_incdec(n):
            tgt = kids(n)[0]
        if tgt is None:
            continue
        root, through = lvalue_base(tgt)
        if not (root and root.get('name') == argname and through):
            continue
        t = strip(tgt)
        if t.get('kind') != 'ArraySubscriptExpr':
            continue          # scalar field of the private argument struct
        nstores += 1
        subs = []
        x = t
        while x.get('kind') == 'ArraySubscriptExpr':
            subs.append(kids(x)[1])
            x = strip(kids(x)[0])
        own = False
        for sx in subs:
            s2 = strip(sx)
            if s2.get('kind') == 'DeclRefExpr' and s2['referencedDecl']['id'] == vid:
                own = True
            # condensed index: a local assigned from square_to_condensed_index(i, k, n) with i the sliced variable
            if s2.get('kind') == 'DeclRefExpr':
                for a in walk(f.body):
                    rhs = None
                    if is_assign(a) and fe.ref_id(kids(a)[0]) == s2['referencedDecl']['id']:
                        rhs = strip(kids(a)[1])
                    if a.get('kind') == 'VarDecl' and a.get('id') == s2['referencedDecl']['id'] and kids(a):
                        rhs = strip(kids(a)[-1])
                    if rhs is not None and rhs.get('kind') == 'CallExpr' and callee_name(rhs) == 'square_to_condensed_index':
                        if any(fe.ref_id(z) == vid for z in call_args(rhs)[:2]):
                            own = True
            if s2.get('kind') == 'CallExpr' and callee_name(s2) == 'square_to_condensed_index':
                if any(fe.ref_id(z) == vid for z in call_args(s2)[:2]):
                    own = True
        if not own:
            problems.append((n, 'store `%s` through the shared argument is not indexed by the sliced variable %s' % (f.unit.text(tgt)[:60], vname)))
    return nstores, problems


def run(chk, prog, rmax=12, nmax=8, dom=3):
    R1 = chk.rule('S1-3.partition', 'for every (rows, threads) pair of the bound the ranges handed to the workers start at 0, are '
                  'contiguous (lo_{k+1} = hi_k), never exceed the extent, and the last one ends at the extent: every row is '
                  'processed by exactly one worker (decided on the recurrence extracted from the dispatch loop)')
    R4 = chk.rule('S4.ownership', 'every store of a worker through a pointer shared between workers is subscripted by the sliced '
                  'loop variable (or the condensed index of a pair whose first element is sliced)')
    R6 = chk.rule('S6.slice-processed', 'every normally returning path of a worker runs the loop over its slice (no early return that '
                  'skips the rows handed to it)')
    R7 = chk.rule('S7.row-accumulators', 'inside the loop over a worker\'s slice every scalar that is accumulated (+=, -=, *=, ++) is '
                  'initialised within the same iteration: nothing is summed across the rows of a slice')
    R5 = chk.rule('S5.condensed', 'a condensed distance vector is sized (n*n - n)/2 for the matrix it is computed from')
    RB = chk.rule('SW.worker-bounds', 'under the facts its dispatcher establishes (hi <= extent, field bindings, the dispatcher\'s own '
                  'contract) every subscript of the worker is in range')
    ck = Checker(prog, dom=dom)
    sites = dispatch_sites(prog)
    nsites = 0
    seen_workers = set()
    for (f, loop, call, ent, wr) in sites:
        nsites += 1
        wf, wlp, wvar, lo_f, hi_f, argname, inclusive = wr
        desc = '%s -> %s [%s, %s)' % (f.name, ent, lo_f, hi_f)
        ex = extract(ck, f, loop, call, wr)
        if ex is None:
            chk.broke('slices: cannot extract the dispatch loop of %s' % f.name)
            continue
        eng, st0, carried, ind, paths, argbase = ex
        if not paths or any(lo_f not in p['fields'] or hi_f not in p['fields'] for p in paths):
            chk.broke('slices: %s does not assign the range fields %s/%s of the worker argument in its dispatch loop' % (f.name, lo_f, hi_f))
            continue
        # R: the extent the guard clamps to = the bound of the condition that mentions a carried variable
        Np = ind['bound']
        Rp = None
        pm = flow.parent_map(f.body)
        for n in walk(loop):
            if n.get('kind') == 'IfStmt':
                c, t, e = flow.if_parts(n)
                cs = strip(c)
                if cs.get('kind') == 'BinaryOperator' and cs.get('opcode') in ('>', '>=', '<', '<='):
                    a, b = kids(cs)
                    na, nb = eng.names_in(a), eng.names_in(b)
                    if na & set(carried) and not (nb & set(carried)):
                        Rp = eng.ev(b, st0)
                    elif nb & set(carried) and not (na & set(carried)):
                        Rp = eng.ev(a, st0)
        if Rp is None:
            # closed-form schemes (lo = th*n, hi = th+1 < N ? (th+1)*n : extent): the extent is the one row/size count the upper
            # bounds mention directly
            cands = set()
            for p_ in paths:
                for a_ in p_['fields'][hi_f].atoms():
                    if a_ not in DEFS and re.search(r'->(row|col|size|order)$', a_):
                        cands.add(a_)
            if len(cands) == 1:
                Rp = Poly.atom(cands.pop())
        if Rp is None:
            chk.broke('slices: %s: no clamp of the range against an extent found (unknown slicing scheme)' % f.name)
            continue
        base_atoms = set()
        for v in carried:
            base_atoms |= {a for a in st0.vals[v].atoms() if a not in DEFS}
        for p in paths:
            for x in p['facts'] + list(p['next'].values()) + [p['fields'][lo_f], p['fields'][hi_f]]:
                base_atoms |= {a for a in x.atoms() if a not in DEFS and not a.startswith('#')}
        for a in list(base_atoms):
            pass
        for d in list(DEFS):
            pass
        # arguments of definitional atoms
        more = set()
        for p in paths:
            for x in p['facts'] + list(p['next'].values()) + [st0.vals[v] for v in carried]:
                for a in x.atoms():
                    if a in DEFS:
                        more |= DEFS[a][1].atoms() | DEFS[a][2].atoms()
        base_atoms |= {a for a in more if a not in DEFS}
        if any(a.startswith('?') for a in base_atoms):
            chk.broke('slices: %s: the slicing arithmetic uses an unmodelled term %s' % (f.name, sorted(a for a in base_atoms if a.startswith('?'))))
            continue
        checked, fail = simulate(st0, carried, ind, paths, lo_f, hi_f, base_atoms, rmax, nmax, Rp, Np, inclusive)
        if fail is None:
            chk.instance(R1, desc + ': partition holds for all %d (rows 0..%d, threads 1..%d) pairs; extent %s, trip count %s' % (checked, rmax, nmax, Rp, Np))
        elif fail[0] == 'unsupported':
            chk.broke('slices: %s: %s' % (f.name, fail[1]))
        else:
            chk.instance(R1, desc + ': ' + fail[1], 'refuted')
            chk.violation(Finding('S1-3.partition', rel(f.file), f.name, 'dispatch:' + ent, f.unit.where(loop),
                                  '%s splits [0, %s) among %s workers of %s wrongly: %s' % (f.name, Rp, Np, ent, fail[1]), witness=fail[2]))
        # worker-side rules (once per worker function)
        if ent in seen_workers:
            continue
        seen_workers.add(ent)
        nst, probs = shared_store_ownership(prog, wr)
        if probs:
            for node, msg in probs:
                chk.instance(R4, '%s: %s' % (ent, msg), 'refuted')
                chk.violation(Finding('S4.ownership', rel(wf.file), ent, exprs.text_key(node)[:100], wf.unit.where(node),
                                      '%s: %s: two workers may write the same cell' % (ent, msg)))
        else:
            chk.instance(R4, '%s: %d shared stores, all indexed by the sliced variable %s' % (ent, nst, wvar.split('#')[0]))
        offender = slice_always_processed(prog, wr)
        if offender is None:
            chk.instance(R6, '%s: every returning path runs the loop over [%s, %s)' % (ent, lo_f, hi_f))
        else:
            chk.instance(R6, '%s: a path returns without running the loop over its slice' % ent, 'refuted')
            chk.violation(Finding('S6.slice-processed', rel(wf.file), ent, 'early-return', wf.unit.where(offender),
                                  '%s can return at %s without iterating over its slice [%s, %s): the rows handed to that worker are '
                                  'processed by nobody' % (ent, wf.unit.where(offender), lo_f, hi_f)))
        # S7: a scalar accumulated (+=, -=, *=) while a row is processed is (re)initialised inside that row's iteration
        from .spline import loop_carried_scalars
        carried = loop_carried_scalars(wf, wlp)
        accum = set()
        for x in walk(flow.for_parts(wlp)[3]):
            if x.get('kind') == 'CompoundAssignOperator' and strip(kids(x)[0]).get('kind') == 'DeclRefExpr':
                accum.add(strip(kids(x)[0])['referencedDecl'].get('name'))
            elif x.get('kind') == 'UnaryOperator' and x.get('opcode') in ('++', '--') and strip(kids(x)[0]).get('kind') == 'DeclRefExpr':
                accum.add(strip(kids(x)[0])['referencedDecl'].get('name'))
        stale = sorted(v for v in carried if v in accum)
        if not stale:
            chk.instance(R7, '%s: every scalar accumulated while a row is processed is initialised inside that iteration (%d accumulator(s))' % (ent, len(accum)))
        for v in stale:
            node = carried[v]
            chk.instance(R7, '%s: accumulator `%s` is carried from one row of the slice to the next' % (ent, v), 'refuted')
            chk.violation(Finding('S7.row-accumulators', rel(wf.file), ent, 'carried:' + v, wf.unit.where(node),
                                  '%s: `%s` is accumulated while a row is processed (read at %s before the iteration assigns it) but is only '
                                  'initialised outside the loop over the slice: every row after the first of a worker\'s slice starts from the previous '
                                  'rows\' sum, so the result depends on how the rows are split among the threads' % (ent, v, wf.unit.where(node))))
        # worker bounds under the dispatcher-established facts
        wpre = ck.contracts.get(ent, {}).get('pre', [])
        weng = ck.analyse(wf, wpre)
        bad = [ob for ob in weng.obligs.values() if ob.status == 'REFUTED']
        und = [ob for ob in weng.obligs.values() if ob.status == 'UNDECIDED']
        for ob in weng.obligs.values():
            d2 = '%s %s: %s%s' % (ob.where, ent, ob.text, (' under ' + '; '.join(wpre)) if wpre else '')
            if ob.status == 'PROVED':
                chk.instance(RB, d2)
            elif ob.status == 'UNDECIDED':
                chk.instance(RB, d2 + ' ' + ob.detail, 'undecided')
        seenk = set()
        for ob in bad:
            chk.instance(RB, '%s %s: %s %s' % (ob.where, ent, ob.text, ob.detail), 'refuted')
            if ob.text in seenk:
                continue
            seenk.add(ob.text)
            chk.violation(Finding('SW.worker-bounds', rel(wf.file), ent, ob.text, ob.where,
                                  '%s: `%s`: %s (facts assumed from the dispatcher: %s)' % (ent, ob.text, ob.detail, '; '.join(wpre)),
                                  witness=ob.witness))
        # the dispatcher must establish the worker's assumed facts
        check_worker_pre(chk, RB, ck, eng, f, call, ent, wpre, paths, argbase, argname, hi_f, Rp, st0)
    # S5 condensed sizes: the vector a condensed worker fills is resized to (n*n - n)/2 by its dispatcher
    for (f, loop, call, ent, wr) in sites:
        if not any(cn == 'square_to_condensed_index' for cn, _ in prog.funcs[ent].calls):
            continue
        eng = Engine(ck, f, dom=dom)
        st = St()
        found = False
        for cn, node in f.calls:
            if cn == 'DVectorResize':
                found = True
                a = call_args(node)
                sz = eng.ev(a[1], st)
                base = sorted(x for x in sz.atoms() if x not in DEFS)
                for d in [x for x in sz.atoms() if x in DEFS]:
                    base = sorted(set(base) | {y for y in DEFS[d][1].atoms() | DEFS[d][2].atoms() if y not in DEFS})
                bad = None
                if len(base) != 1 or any(x.startswith('?') for x in base):
                    bad = 'size expression %s is not a function of one row count' % sz
                else:
                    for nn in range(0, 13):
                        got = evaluate(sz, {base[0]: nn})
                        if got != (nn * nn - nn) // 2:
                            bad = 'for n = %d rows the vector gets %s cells, the strict upper triangle has %d' % (nn, got, (nn * nn - nn) // 2)
                            break
                if bad is None:
                    chk.instance(R5, '%s: condensed vector sized (n*n - n)/2 with n = %s (checked n = 0..12)' % (f.name, base[0]))
                else:
                    chk.instance(R5, '%s: %s' % (f.name, bad), 'refuted')
                    chk.violation(Finding('S5.condensed', rel(f.file), f.name, 'size', f.unit.where(node),
                                          '%s sizes the condensed distance vector `%s`: %s' % (f.name, f.unit.text(a[1]), bad)))
        if not found:
            chk.instance(R5, '%s never sizes the condensed vector it hands to %s' % (f.name, ent), 'undecided')
    chk.extra['dispatch_sites'] = nsites
    chk.extra['bound'] = {'rows': rmax, 'threads': nmax}
    return nsites


def check_worker_pre(chk, RB, ck, eng, f, call, ent, wpre, paths, argbase, argname, hi_f, Rp, st0):
    """each fact the worker assumes about its argument is established at the pthread_create call"""
    from .sym import prove_nonneg, find_witness
    for ps in wpre:
        for poly in parse_pre(ps):
            ok_all = True
            for p in paths:
                st = p['state']
                sub = {}
                for a in poly.atoms():
                    if not a.startswith(argname + '->'):
                        continue
                    rest = a[len(argname) + 2:]
                    key = '%s[#th]->%s' % (argbase, rest)
                    if key in st.vals:
                        sub[a] = st.vals[key]
                    else:
                        # container field: args[th]->m->row
                        parts = rest.rsplit('->', 1)
                        if len(parts) == 2:
                            cp = '%s[#th]->%s' % (argbase, parts[0])
                            sh = st.shapes.get(cp)
                            if sh is not None and parts[1] in sh.f:
                                sub[a] = sh.f[parts[1]]
                if any(a not in sub for a in poly.atoms()):
                    ok_all = None
                    break
                inst = poly.subst(sub)
                # S2 (hi <= R) is established by the partition rule; use it as a fact here
                facts = st.facts + eng.pre
                hi_key = '%s[#th]->%s' % (argbase, hi_f)
                if hi_key in st.vals:
                    facts = facts + [Rp - st.vals[hi_key]]
                if not prove_nonneg(inst, facts, equalities=st.eqs):
                    ok_all = False
            if ok_all is True:
                chk.instance(RB, '%s establishes `%s` for %s' % (f.name, ps, ent))
            elif ok_all is None:
                chk.instance(RB, '%s: cannot bind `%s` to the fields it stores for %s' % (f.name, ps, ent), 'undecided')
            else:
                chk.instance(RB, '%s does not establish `%s` assumed by %s' % (f.name, ps, ent), 'undecided')
