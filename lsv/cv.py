"""Cross-validation structure rules (serves C05): learner dispatch exhaustiveness (E6a), split is a
partition by control dependence, held-out selector consistency, no leakage into the fit, fresh-id
store in the random group generator.  Roles (train/test x/y, group selector) are *derived* from the
split routine's own control dependence and then followed by dataflow into workers and dispatchers."""
import os

from . import frontend as fe
from .frontend import kids, strip, walk, callee_name, call_args
from . import exprs, flow
from .program import is_assign, lvalue_base
from .report import Finding
from .sym import Poly

CV_ROUTINES = ['BootstrapRandomGroupsCV', 'LeaveOneOut', 'KFoldCV']
SPLIT = 'kfold_group_train_test_split'
FIT = {'PLS': (0, 1), 'MLR': (0, 1), 'EPLS': (0, 1), 'LDA': (0, 1)}
ALLOC_FREE = ('init', 'New', 'Del', 'Resize')


def rel(p):
    return os.path.relpath(p, fe.REPO)


# ---------------------------------------------------------------------------------------
# CV1  learner dispatch is exhaustive

def dispatch_chain(f):
    """{enumerator: entry function or None} from the if/else-if chains that contain pthread_create,
    plus whether a residual (non-creating) else exists"""
    pm = flow.parent_map(f.body)
    handled = {}
    residual = []
    for cn, call in f.calls:
        if cn != 'pthread_create':
            continue
        a = call_args(call)
        ent = fe.ref_name(a[2])
        r2 = strip(a[2])
        if r2.get('kind') != 'DeclRefExpr' or r2['referencedDecl'].get('kind') != 'FunctionDecl':
            return None            # the routine is started through a function pointer: the chain is somewhere else
        for c in flow.path_conditions(pm, call):
            for en in enums_in(c):
                handled.setdefault(en, set()).add(ent)
    return handled


def enums_in(c, positive_only=True):
    out = []
    if c[0] == 'or':
        for alt in c[1]:
            for x in alt:
                out += enums_in(x)
    elif c[0] == '==0' and isinstance(c[1], Poly):
        out += [a[5:] for a in c[1].atoms() if a.startswith('enum:')]
    return out


def cv1(chk, prog):
    R = chk.rule('CV1.dispatch', 'every cross-validation routine dispatches a worker for every learner enumerator that any '
                 'sibling routine dispatches (no learner falls through to the join without a created thread)')
    per = {}
    for name in CV_ROUTINES:
        f = prog.funcs.get(name)
        if f is None:
            chk.broke('CV routine %s not found' % name)
            continue
        per[name] = dispatch_chain(f)
        if per[name] is None:
            chk.broke('CV1: %s starts its worker through a function pointer; its learner dispatch is not decided' % name)
            per.pop(name)
    allen = set()
    for h in per.values():
        allen |= set(h)
    chk.extra['learner_enumerators'] = sorted(allen)
    if len(allen) < 4:
        chk.broke('only %d learner enumerators recognised in the dispatch chains' % len(allen))
    for name, h in per.items():
        f = prog.funcs[name]
        for en in sorted(allen):
            if en in h:
                chk.instance(R, '%s dispatches %s -> %s' % (name, en, sorted(h[en])))
            else:
                sib = [n for n, hh in per.items() if en in hh]
                chk.instance(R, '%s has no branch for %s' % (name, en), 'refuted')
                chk.violation(Finding('CV1.dispatch', rel(f.file), name, 'missing:' + en, f.where,
                                      '%s creates no worker for learner %s (dispatched by %s): the residual branch falls through '
                                      'to pthread_join on a thread that was never created' % (name, en, ', '.join(sib))))
    return per


# ---------------------------------------------------------------------------------------
# CV3  split is a partition by construction (and role derivation)

def element_stores(f):
    """[(store node, container expr (X in X->data[r][c]), row expr, col expr, rhs)]"""
    out = []
    for n in walk(f.body):
        if is_assign(n) and n.get('opcode') == '=':
            l = strip(kids(n)[0])
            if l.get('kind') == 'ArraySubscriptExpr':
                b, c = kids(l)
                b = strip(b)
                if b.get('kind') == 'ArraySubscriptExpr':
                    bb, r = kids(b)
                    bb = strip(bb)
                    if bb.get('kind') == 'MemberExpr' and bb.get('name') == 'data':
                        out.append((n, kids(bb)[0], r, c, kids(n)[1]))
    return out


def source_of(rhs):
    """rhs = S->data[r][c]  ->  (S expr, row expr) or None"""
    r = strip(rhs)
    if r.get('kind') == 'ArraySubscriptExpr':
        b, c = kids(r)
        b = strip(b)
        if b.get('kind') == 'ArraySubscriptExpr':
            bb, row = kids(b)
            bb = strip(bb)
            if bb.get('kind') == 'MemberExpr' and bb.get('name') == 'data':
                return kids(bb)[0], row
    return None


def derive_split_roles(chk, prog):
    """Partition analysis of the split routine: finds the selector parameter and which output
    parameters are train / test (and their source parameter)."""
    R = chk.rule('CV3.partition', 'in the split code every store into a training container is control-dependent on '
                 '"row/group != held-out selector" and every store into a test container on its negation, with the same '
                 'source row expression on both sides')
    f = prog.funcs.get(SPLIT)
    if f is None:
        chk.broke('split routine %s not found' % SPLIT)
        return None
    pm = flow.parent_map(f.body)
    pidx = {'%s#%s' % (p['name'], p['id']): i for i, p in enumerate(f.params)}
    by_dest = {}
    for (n, cont, r, c, rhs) in element_stores(f):
        dp = exprs.path_of(cont)
        src = source_of(rhs)
        if dp in pidx and src and exprs.path_of(src[0]) in pidx:
            by_dest.setdefault(pidx[dp], []).append((n, pidx[exprs.path_of(src[0])], exprs.text_key(src[1])))
    if len(by_dest) < 4:
        chk.broke('split routine: only %d output parameters receive element stores (4 expected)' % len(by_dest))
        return None
    # find the selector: a parameter P and a loop variable v such that stores are guarded by v != P or v == P
    roles = {}
    selector = None
    for dest, stores in sorted(by_dest.items()):
        kinds = set()
        for (n, srcp, rowk) in stores:
            pcs = flow.path_conditions(pm, n)
            tag = None
            for c in pcs:
                if c[0] in ('!=0', '==0') and isinstance(c[1], Poly):
                    ps = [a for a in c[1].atoms() if a in pidx]
                    if len(ps) == 1 and len(c[1].atoms()) == 2:
                        selector_c = pidx[ps[0]]
                        tag = ('train' if c[0] == '!=0' else 'test', selector_c)
            kinds.add(tag)
        if len(kinds) != 1 or None in kinds:
            where = f.unit.where(stores[0][0])
            chk.instance(R, '%s parameter %d: stores under inconsistent guards %s' % (SPLIT, dest, kinds), 'refuted')
            chk.violation(Finding('CV3.partition', rel(f.file), SPLIT, 'dest:%d' % dest, where,
                                  'stores into output parameter %d (%s) of %s are not all control-dependent on the same side of the '
                                  'held-out test (guards found: %s)' % (dest, f.params[dest]['name'], SPLIT, sorted(map(str, kinds)))))
            continue
        (kind, sel), = kinds
        selector = sel if selector is None else selector
        if sel != selector:
            chk.broke('split routine: two different selector parameters')
        srcs = {s for (_, s, _) in stores}
        rows = {rk for (_, _, rk) in stores}
        roles[dest] = (kind, srcs.pop() if len(srcs) == 1 else None, rows)
        chk.instance(R, '%s parameter %d (%s): %s part of source parameter %s, guarded by selector parameter %d'
                     % (SPLIT, dest, f.params[dest]['name'], kind, roles[dest][1], sel))
    out = {'selector': selector}
    for dest, (kind, src, rows) in roles.items():
        out[(kind, src)] = dest
    # same source row on both sides
    for src in (0, 1):
        a, b = out.get(('train', src)), out.get(('test', src))
        if a is None or b is None:
            chk.instance(R, 'source parameter %d is not split into a train and a test output' % src, 'refuted')
            chk.violation(Finding('CV3.partition', rel(f.file), SPLIT, 'source:%d' % src, f.where,
                                  'source parameter %d of %s does not reach both a training and a test output' % (src, SPLIT)))
            continue
        ra, rb = roles[a][2], roles[b][2]
        if ra != rb:
            chk.instance(R, 'train/test of source %d copy different rows %s vs %s' % (src, ra, rb), 'refuted')
            chk.violation(Finding('CV3.partition', rel(f.file), SPLIT, 'rows:%d' % src, f.where,
                                  'training copy reads row %s but test copy reads row %s of source parameter %d' % (sorted(ra), sorted(rb), src)))
        else:
            chk.instance(R, 'train/test outputs of source %d copy the same row expression %s' % (src, sorted(ra)))
    return out


def cv3_inline_loo(chk, prog, fields):
    """LeaveOneOut's inline copy loop: stores into arg[th].<train fields> under j != sel, into <test fields>
    under its negation, same source row.  Returns the selector polynomial (in terms of the loop variables)."""
    R = 'CV3.partition'
    f = prog.funcs.get('LeaveOneOut')
    if f is None:
        return None
    pm = flow.parent_map(f.body)
    groups = {}
    for (n, cont, r, c, rhs) in element_stores(f):
        cs = strip(cont)
        if cs.get('kind') == 'MemberExpr' and cs.get('name') in fields.values():
            role = [k for k, v in fields.items() if v == cs['name']][0]
            src = source_of(rhs)
            groups.setdefault(role, []).append((n, src))
    sel = None
    ok = True
    for role, lst in groups.items():
        for (n, src) in lst:
            pcs = flow.path_conditions(pm, n)
            want = '!=0' if role[0] == 'train' else '==0'
            hit = None
            for c in pcs:
                if c[0] == want and isinstance(c[1], Poly) and src is not None:
                    rowp = exprs.to_poly(src[1])
                    # c[1] = +-(row - selector)
                    for sgn in (1, -1):
                        cand = rowp - c[1] * sgn
                        if not (cand.atoms() & rowp.atoms()):
                            hit = cand
            if hit is None:
                ok = False
                chk.instance(R, 'LeaveOneOut store into %s part at %s is not guarded by the held-out test' % (role, f.unit.where(n)), 'refuted')
                chk.violation(Finding('CV3.partition', rel(f.file), 'LeaveOneOut', 'loo:%s:%s' % role, f.unit.where(n),
                                      'store into the %s container of the leave-one-out argument is not control-dependent on '
                                      '"row %s held-out row"' % (role[0], '!=' if role[0] == 'train' else '==')))
            else:
                if sel is not None and sel != hit:
                    ok = False
                    chk.instance(R, 'LeaveOneOut uses two different held-out selectors %s / %s' % (sel, hit), 'refuted')
                    chk.violation(Finding('CV3.partition', rel(f.file), 'LeaveOneOut', 'loo:selector', f.unit.where(n),
                                          'leave-one-out copy loop tests two different held-out rows: %s and %s' % (sel, hit)))
                sel = hit
    if len(groups) < 4:
        chk.broke('LeaveOneOut inline split: only %d of the 4 train/test containers receive stores' % len(groups))
    elif ok:
        chk.instance(R, 'LeaveOneOut inline copy: train under row != %s, test under row == %s' % (sel, sel))
    return sel


# ---------------------------------------------------------------------------------------
# CV4  no leakage; binding of containers

def bind_split_call(prog, f, roles):
    """{role: bound expression key} for each call to the split routine in f"""
    out = []
    for cn, node in f.calls:
        if cn == SPLIT:
            a = call_args(node)
            b = {}
            for k, v in roles.items():
                if isinstance(k, tuple) and v < len(a):
                    b[k] = a[v]
            b['selector'] = a[roles['selector']]
            out.append((node, b))
    return out


def container_key(e):
    e = strip(e)
    if e.get('kind') == 'MemberExpr':
        return ('field', e.get('name'))
    if e.get('kind') == 'DeclRefExpr':
        return ('var', e['referencedDecl']['id'])
    if e.get('kind') == 'UnaryOperator' and e.get('opcode') == '&':
        return container_key(kids(e)[0])
    return ('?', exprs.text_key(e))


def cv4(chk, prog, roles, entries):
    R = chk.rule('CV4.no-leak', 'in every CV worker the fit receives exactly the training x/y, exactly one other routine '
                 '(the predictor) receives the test x, and the test y reaches neither')
    fields = {}
    # field binding from KFoldCV: kcv_arg[th].<field> passed at the split positions
    kf = prog.funcs.get('KFoldCV')
    if kf:
        for node, b in bind_split_call(prog, kf, roles):
            for k, e in b.items():
                if isinstance(k, tuple) and strip(e).get('kind') == 'MemberExpr':
                    fields[k] = strip(e)['name']
    chk.extra['loo_argument_fields'] = {'%s_%s' % k: v for k, v in fields.items()}
    if len(fields) < 4:
        chk.broke('cannot bind the four train/test fields of the leave-one-out argument from KFoldCV (%d found)' % len(fields))
    n_workers = 0
    for ent in sorted(entries):
        f = prog.funcs.get(ent)
        if f is None:
            continue
        fit_calls = [(cn, n) for cn, n in f.calls if cn in FIT]
        if not fit_calls:
            continue
        n_workers += 1
        binds = bind_split_call(prog, f, roles)
        if binds:
            b = {k: container_key(v) for k, v in binds[0][1].items() if isinstance(k, tuple)}
        else:
            b = {k: ('field', v) for k, v in fields.items()}
        inv = {v: k for k, v in b.items()}
        problems = []
        for cn, node in fit_calls:
            a = call_args(node)
            got = (inv.get(container_key(a[0])), inv.get(container_key(a[1])))
            if got != (('train', 0), ('train', 1)):
                problems.append((node, 'fit %s(%s, %s, ...) receives %s/%s instead of the training x/y' % (
                    cn, f.unit.text(a[0]), f.unit.text(a[1]), got[0], got[1])))
        users = {('test', 0): [], ('test', 1): [], ('train', 0): [], ('train', 1): []}
        for cn, node in f.calls:
            if cn is None or cn == SPLIT or cn.startswith(ALLOC_FREE):
                continue
            for a in call_args(node):
                r = inv.get(container_key(a))
                if r:
                    users[r].append((cn, node))
        for cn, node in users[('test', 1)]:
            problems.append((node, 'the held-out response container is passed to %s' % cn))
        tx = [(cn, node) for cn, node in users[('test', 0)]]
        if len(tx) != 1:
            problems.append((f.decl, 'the held-out x container is used by %d routines (%s), expected exactly the predictor'
                             % (len(tx), [c for c, _ in tx])))
        else:
            cn, node = tx[0]
            if cn in FIT:
                problems.append((node, 'the held-out x container is passed to the fit %s' % cn))
            for a in call_args(node):
                r = inv.get(container_key(a))
                if r and r[0] == 'train':
                    problems.append((node, 'predictor %s also receives the training %s' % (cn, 'xy'[r[1]])))
        # direct element reads of the test-y container
        for n in walk(f.body):
            if n.get('kind') == 'MemberExpr' and n.get('name') == 'data':
                r = inv.get(container_key(kids(n)[0]))
                if r == ('test', 1):
                    problems.append((n, 'the held-out response container is read element-wise in the worker'))
        if problems:
            for node, msg in problems:
                chk.instance(R, '%s: %s' % (ent, msg), 'refuted')
                chk.violation(Finding('CV4.no-leak', rel(f.file), ent, msg.split(' ')[0] + ':' + str(len(msg)), f.unit.where(node),
                                      '%s: %s' % (ent, msg)))
        else:
            chk.instance(R, '%s: fit(%s) on train x/y, predictor %s on test x, test y unused' % (ent, fit_calls[0][0], tx[0][0]))
    if n_workers < 8:
        chk.broke('only %d CV workers with a fit call found, floor 8' % n_workers)
    return fields


# ---------------------------------------------------------------------------------------
# CV2  held-out selector consistency

_envs = {}


def env_of(f):
    if f not in _envs:
        _envs[f] = flow.single_definitions(f.body)
    return _envs[f]


def canon_loopvars(f, pm, node, p):
    """rename the induction variables of the loops enclosing `node` by their nesting role so that the
    same selector written in two sibling loops compares equal: innermost dispatch loop var -> $w"""
    p = flow.propagate(p, env_of(f))
    m = {}
    for lp in flow.enclosing_loops(pm, node):
        ind = flow.induction(lp)
        if ind and ind['var'] in p.atoms():
            # a worker loop: bound is the thread count; identify by bound polynomial
            m[ind['var']] = Poly.atom('$loop<%s>' % ind['bound'])
    return p.subst(m)


def cv2(chk, prog, roles, fields, loo_sel):
    R = chk.rule('CV2.held-out-index', 'the selector that decides which rows are held out is the same symbolic value that '
                 'selects where their predictions are stored')
    # (a) random-group workers: selector passed to the split == row of gid read when scattering
    for ent in ['PLSRandomGroupCVModel', 'MLRRandomGroupCVModel', 'EPLSRandomGroupCVModel', 'LDARandomGroupCVModel']:
        f = prog.funcs.get(ent)
        if f is None:
            chk.broke('worker %s not found' % ent)
            continue
        pm = flow.parent_map(f.body)
        binds = bind_split_call(prog, f, roles)
        if not binds:
            chk.broke('%s does not call %s' % (ent, SPLIT))
            continue
        node, b = binds[0]
        sel = flow.propagate(exprs.to_poly(b['selector']), env_of(f))
        gid = container_key(call_args(node)[2])
        rows = []
        for n in walk(f.body):
            if n.get('kind') == 'ArraySubscriptExpr':
                bb = strip(kids(n)[0])
                if bb.get('kind') == 'MemberExpr' and bb.get('name') == 'data' and container_key(kids(bb)[0]) == gid:
                    rows.append((n, flow.propagate(exprs.to_poly(kids(n)[1]), env_of(f))))
        if not rows:
            chk.broke('%s never reads the group matrix when scattering predictions' % ent)
            continue
        for (n, rp) in rows:
            if rp == sel:
                chk.instance(R, '%s: split selector %s == group row read at %s' % (ent, sel, f.unit.where(n)))
            else:
                chk.instance(R, '%s: split selector %s but predictions scattered through group row %s' % (ent, sel, rp), 'refuted')
                chk.violation(Finding('CV2.held-out-index', rel(f.file), ent, 'gidrow', f.unit.where(n),
                                      '%s holds out group %s but scatters the predictions through row %s of the group matrix' % (ent, sel, rp)))
    # (b) KFoldCV: split selector vs gid row used for the output row
    f = prog.funcs.get('KFoldCV')
    if f:
        pm = flow.parent_map(f.body)
        binds = bind_split_call(prog, f, roles)
        if binds:
            node, b = binds[0]
            sel = canon_loopvars(f, pm, node, exprs.to_poly(b['selector']))
            gid = container_key(call_args(node)[2])
            found = 0
            for n in walk(f.body):
                if n.get('kind') == 'ArraySubscriptExpr':
                    bb = strip(kids(n)[0])
                    if bb.get('kind') == 'MemberExpr' and bb.get('name') == 'data' and container_key(kids(bb)[0]) == gid:
                        # only reads after the split (scatter side)
                        if (fe.begin(n) or {}).get('offset', 0) < (fe.begin(node) or {}).get('offset', 0):
                            continue
                        found += 1
                        rp = canon_loopvars(f, pm, n, exprs.to_poly(kids(n)[1]))
                        if rp == sel:
                            chk.instance(R, 'KFoldCV: split selector %s == group row read when storing predictions' % sel)
                        else:
                            chk.instance(R, 'KFoldCV: split selector %s vs scatter row %s' % (sel, rp), 'refuted')
                            chk.violation(Finding('CV2.held-out-index', rel(f.file), 'KFoldCV', 'gidrow', f.unit.where(n),
                                                  'KFoldCV holds out group %s but stores the predictions through row %s of the group matrix' % (sel, rp)))
            if not found:
                chk.broke('KFoldCV: no read of the group matrix after the split call')
        else:
            chk.broke('KFoldCV does not call %s' % SPLIT)
    # (c) LeaveOneOut: held-out row == output row of the stores that read the worker prediction
    f = prog.funcs.get('LeaveOneOut')
    if f and loo_sel is not None:
        pm = flow.parent_map(f.body)
        found = 0
        anchor = None
        for (n, cont, r, c, rhs) in element_stores(f):
            src = source_of(rhs)
            if src and strip(src[0]).get('kind') == 'MemberExpr' and strip(src[0]).get('name') not in fields.values():
                # reads a field of the per-thread argument that is not a train/test input: the worker output
                st = strip(kids(strip(src[0]))[0])
                if st.get('kind') == 'ArraySubscriptExpr':
                    found += 1
                    rp = canon_loopvars(f, pm, n, exprs.to_poly(r))
                    # the selector was computed inside the create loop: canonicalise there
                    selp = loo_sel
                    for x in walk(f.body):
                        pass
                    selc = canon_any(f, pm, loo_sel)
                    if rp == selc:
                        chk.instance(R, 'LeaveOneOut: held-out row %s == output row of the collected prediction' % selc)
                    else:
                        chk.instance(R, 'LeaveOneOut: held-out row %s vs output row %s' % (selc, rp), 'refuted')
                        chk.violation(Finding('CV2.held-out-index', rel(f.file), 'LeaveOneOut', 'outrow', f.unit.where(n),
                                              'LeaveOneOut holds out row %s but stores its prediction in row %s' % (selc, rp)))
        if not found:
            chk.broke('LeaveOneOut: no store that collects the worker prediction found')


def canon_any(f, pm, p):
    """canonicalise every loop induction variable of f occurring in p by its loop bound"""
    p = flow.propagate(p, env_of(f))
    m = {}
    for lp in [n for n in walk(f.body) if n.get('kind') in flow.LOOPS]:
        ind = flow.induction(lp)
        if ind and ind['var'] in p.atoms():
            m[ind['var']] = Poly.atom('$loop<%s>' % ind['bound'])
    return p.subst(m)


# ---------------------------------------------------------------------------------------
# CV6  fresh-id store in the random group generator

def cv6(chk, prog):
    R = chk.rule('CV6.fresh-id', 'in the random group generator an object id is stored only when the rejection loop left '
                 'because the id is not yet in the group matrix, and the matrix has at least as many cells as objects')
    f = prog.funcs.get('random_kfold_group_generator')
    if f is None:
        chk.broke('random_kfold_group_generator not found')
        return
    pm = flow.parent_map(f.body)
    stores = [s for s in element_stores(f)]
    if not stores:
        chk.broke('random_kfold_group_generator: no element store into the group matrix')
        return
    for (n, cont, r, c, rhs) in stores:
        val = exprs.path_of(rhs)
        gidp = exprs.path_of(cont)
        guard = flow.path_conditions(pm, n, stop=None)
        # the do-while immediately preceding (in the same block or an ancestor block) that assigns `val`
        dw = None
        child = n
        for anc in flow.ancestors(pm, n):
            if anc.get('kind') == 'CompoundStmt':
                prev = None
                for s in kids(anc):
                    if s is child:
                        break
                    prev = s
                if prev is not None and prev.get('kind') == 'DoStmt' and val in flow.assigned_paths(prev):
                    dw = prev
                    break
            child = anc
        if dw is None:
            chk.instance(R, 'store of %s at %s is not preceded by a rejection loop that draws it' % (val, f.unit.where(n)), 'refuted')
            chk.violation(Finding('CV6.fresh-id', rel(f.file), f.name, 'no-rejection-loop', f.unit.where(n),
                                  'object id stored into the group matrix without a preceding rejection loop that draws it'))
            continue
        init, cond, inc, body = flow.loop_parts(dw)
        # loop continues while C; exit => not C.  C = c1 && c2 ...; the store guard must imply all but the
        # membership conjunct, leaving "not member".
        cj = exprs.conjuncts(cond, True)
        member = None
        others = []
        for x in walk(cond):
            if x.get('kind') == 'CallExpr' and callee_name(x) == 'ValInMatrix':
                a = call_args(x)
                if exprs.path_of(a[0]) == gidp and exprs.path_of(a[1]) == val:
                    member = x
        if member is None:
            chk.instance(R, 'rejection loop does not test membership of the drawn id in the same matrix', 'refuted')
            chk.violation(Finding('CV6.fresh-id', rel(f.file), f.name, 'no-membership-test', f.unit.where(dw),
                                  'the rejection loop before the store does not test ValInMatrix(<group matrix>, <drawn id>)'))
            continue
        # conjuncts of C other than the membership test must hold at the store (then exit => membership false)
        mem_c = [c_ for c_ in cj if c_[0] in ('==0', '!=0') and any(a.startswith('?CallExpr') for a in c_[1].atoms())]
        rest = [c_ for c_ in cj if c_ not in mem_c]
        gset = set(map(repr, guard))
        missing = [c_ for c_ in rest if repr(c_) not in gset]
        # membership conjunct must be "== 1"  (continue while the id IS present)
        pos = any(c_[0] == '==0' for c_ in mem_c)
        touched = flow.assigned_paths(dw)   # nothing between loop and store: they are adjacent statements
        if missing or not pos or len(mem_c) != 1:
            chk.instance(R, 'store at %s: guard %s does not re-establish the other exit conjuncts %s' % (f.unit.where(n), sorted(gset), missing), 'refuted')
            chk.violation(Finding('CV6.fresh-id', rel(f.file), f.name, 'guard', f.unit.where(n),
                                  'the id may be stored although the rejection loop left for another reason than "id not present": '
                                  'store guard %s, loop condition conjuncts %s' % (sorted(gset), [repr(c_) for c_ in cj])))
        else:
            chk.instance(R, 'store at %s: loop exit and guard %s imply ValInMatrix(gid, id) != 1' % (f.unit.where(n), sorted(gset)))
    # capacity: rows*cols >= nobj  via  cols = ceil(nobj/(double)rows)
    cap_ok = False
    for cn, node in f.calls:
        if cn == 'ResizeMatrix':
            a = call_args(node)
            rows = exprs.to_poly(a[1])
            ce = strip(a[2])
            if ce.get('kind') == 'CallExpr' and callee_name(ce) == 'ceil':
                d = strip(call_args(ce)[0])
                if d.get('kind') == 'BinaryOperator' and d.get('opcode') == '/' and not fe.is_float_type(d):
                    chk.instance(R, 'capacity: ceil() is applied to the INTEGER division %s' % f.unit.text(d)[:60], 'refuted')
                    chk.violation(Finding('CV6.fresh-id', rel(f.file), f.name, 'capacity-intdiv', f.unit.where(node),
                                          'the group matrix width is ceil(%s) but that division is carried out in integers (already rounded down): '
                                          'with objects %% groups != 0 the matrix has fewer cells than objects and some objects are placed in no group'
                                          % f.unit.text(d)[:60]))
                    cap_ok = True       # reported above
                elif d.get('kind') == 'BinaryOperator' and d.get('opcode') == '/':
                    num, den = kids(d)
                    if exprs.to_poly(den) == rows:
                        nobj = exprs.to_poly(num)
                        # the draw range and the acceptance cap use the same nobj
                        cap_ok = True
                        chk.instance(R, 'group matrix has %s x ceil(%s/%s) cells >= %s objects (ceildiv identity)' % (rows, nobj, rows, nobj))
    if not cap_ok:
        chk.instance(R, 'capacity of the group matrix is not rows x ceil(nobj/rows)', 'refuted')
        chk.violation(Finding('CV6.fresh-id', rel(f.file), f.name, 'capacity', f.where,
                              'the group matrix is not sized rows x ceil(objects/rows): some object may get no cell'))


# ---- CV7: the averaged out-of-sample prediction is divided by the number of predictions that were added -----------------------------
def _idx_texts(f, n):
    """index texts of a (possibly nested) subscript  base[..][..]  -> (base text, [index texts])"""
    idx = []
    cur = strip(n)
    while cur.get('kind') == 'ArraySubscriptExpr':
        idx.append(f.unit.text(kids(cur)[1]).replace(' ', ''))
        cur = strip(kids(cur)[0])
    return f.unit.text(cur).replace(' ', ''), idx[::-1]


def _enclosing(root, node, kinds):
    chain = []

    def go(n, path):
        if n is node:
            chain.extend(path)
            return True
        for c in kids(n):
            if go(c, path + [n]):
                return True
        return False
    go(root, [])
    return [x for x in chain if x.get('kind') in kinds]


def cv7(chk, prog):
    R = chk.rule('CV7.mean-divisor', 'the summed out-of-sample predictions of an object are divided by the number of predictions that were added for it: '
                 'a per-object counter incremented wherever a prediction is added (worker) and accumulated alongside the sums (dispatcher); a fixed '
                 'iteration count is not that number when the iterations run in batches of nthreads')
    f = prog.funcs.get('BootstrapRandomGroupsCV')
    if f is None or f.body is None:
        chk.broke('BootstrapRandomGroupsCV not found')
        return
    divs = [n for n in walk(f.body) if n.get('kind') == 'CompoundAssignOperator' and n.get('opcode') == '/=' and
            strip(kids(n)[0]).get('kind') == 'ArraySubscriptExpr']
    if len(divs) != 1:
        chk.broke('BootstrapRandomGroupsCV: %d averaging divisions found, expected one' % len(divs))
        return
    dv = divs[0]
    sbase, sidx = _idx_texts(f, kids(dv)[0])
    adds = [n for n in walk(f.body) if n.get('kind') == 'CompoundAssignOperator' and n.get('opcode') == '+=' and
            strip(kids(n)[0]).get('kind') == 'ArraySubscriptExpr' and _idx_texts(f, kids(n)[0])[0] == sbase]
    if len(adds) != 1 or len(sidx) != 2:
        chk.broke('BootstrapRandomGroupsCV: the accumulation into %s was not found as a single += of a cell' % sbase)
        return
    add = adds[0]
    abase, aidx = _idx_texts(f, kids(add)[1])
    if not abase.endswith('.predicted_y->data') and not abase.endswith('->predicted_y->data'):
        chk.broke('BootstrapRandomGroupsCV: %s accumulates %s, not the predictions of a worker' % (sbase, abase))
        return
    workerfield = abase[:-len('predicted_y->data')]
    d = strip(kids(dv)[1], casts=True)
    while d.get('kind') in ('ParenExpr', 'CStyleCastExpr', 'ImplicitCastExpr'):
        d = strip(kids(d)[-1], casts=True)
    where = f.unit.where(dv)
    if d.get('kind') == 'ArraySubscriptExpr':
        cbase, cidx = _idx_texts(f, d)
        # dispatcher pairing: counter[i] += worker.predictioncounter[i] in the loops of the sum accumulation
        cacc = [n for n in walk(f.body) if n.get('kind') == 'CompoundAssignOperator' and n.get('opcode') == '+=' and
                strip(kids(n)[0]).get('kind') == 'ArraySubscriptExpr' and _idx_texts(f, kids(n)[0])[0] == cbase]
        ok = cidx == sidx[:1] and len(cacc) == 1
        if ok:
            rb, ri = _idx_texts(f, kids(cacc[0])[1])
            li = _idx_texts(f, kids(cacc[0])[0])[1]
            loops_c = [id(x) for x in _enclosing(f.body, cacc[0], ('ForStmt',))]
            loops_s = [id(x) for x in _enclosing(f.body, add, ('ForStmt',))]
            ok = rb == workerfield + 'predictioncounter->data' and ri == li and li == aidx[:1] and loops_c == loops_s[:len(loops_c)] and len(loops_c) >= 2
        if not ok:
            chk.instance(R, '%s BootstrapRandomGroupsCV: the divisor %s[%s] is not accumulated from the workers\' prediction counters alongside the sums' %
                         (where, cbase, ','.join(cidx)), 'refuted')
            chk.violation(Finding('CV7.mean-divisor', rel(f.file), f.name, 'counter-pairing', where,
                                  'BootstrapRandomGroupsCV divides the summed predictions by %s[%s], which is not accumulated from the workers\' prediction counters '
                                  'for the same object in the loops that accumulate the sums' % (cbase, ','.join(cidx))))
            return
        chk.instance(R, '%s BootstrapRandomGroupsCV: sum[i][j] /= counter[i], counter[i] += worker counter[i] next to sum[i][j] += worker prediction[i][j]' % where)
        # worker pairing
        workers = set()
        for n in walk(f.body):
            if n.get('kind') == 'CallExpr' and callee_name(n) == 'pthread_create':
                a = call_args(n)
                for m in walk(a[2]):
                    if m.get('kind') == 'DeclRefExpr' and m['referencedDecl'].get('name') in prog.funcs:
                        workers.add(m['referencedDecl'].get('name'))
        for wn in sorted(workers):
            g = prog.funcs[wn]
            padds = [n for n in walk(g.body) if n.get('kind') == 'CompoundAssignOperator' and n.get('opcode') == '+=' and
                     strip(kids(n)[0]).get('kind') == 'ArraySubscriptExpr' and _idx_texts(g, kids(n)[0])[0].endswith('->predicted_y->data')]
            if not padds:
                chk.broke('%s: no accumulation into predicted_y found' % wn)
                continue
            for pa in padds:
                row = _idx_texts(g, kids(pa)[0])[1][0]
                blocks = _enclosing(g.body, pa, ('CompoundStmt',))
                found = False
                for b in blocks[::-1][:3]:
                    for s in kids(b):
                        s0 = strip(s)
                        if s0.get('kind') in ('CompoundAssignOperator', 'UnaryOperator') and strip(kids(s0)[0]).get('kind') == 'ArraySubscriptExpr':
                            bb, ii = _idx_texts(g, kids(s0)[0])
                            one = s0.get('kind') == 'UnaryOperator' and s0.get('opcode') == '++' or \
                                (s0.get('opcode') == '+=' and g.unit.text(kids(s0)[1]).strip() == '1')
                            if bb.endswith('->predictioncounter->data') and ii == [row] and one:
                                found = True
                    if found:
                        break
                if found:
                    chk.instance(R, '%s %s: predictioncounter[%s] += 1 next to the predictions added for object %s' % (g.unit.where(pa), wn, row, row))
                else:
                    chk.instance(R, '%s %s: predictions are added for object %s without counting the visit' % (g.unit.where(pa), wn, row), 'refuted')
                    chk.violation(Finding('CV7.mean-divisor', rel(g.file), wn, 'worker-count', g.unit.where(pa),
                                          '%s adds predictions for object %s but does not increment predictioncounter[%s] by one in the same block: the mean '
                                          'computed by the dispatcher divides by the wrong count' % (wn, row, row)))
        return
    # a scalar divisor
    dtxt = f.unit.text(d).replace(' ', '')
    assigned = any(n.get('kind') in ('BinaryOperator', 'CompoundAssignOperator', 'UnaryOperator') and
                   (n.get('opcode', '').endswith('=') and n.get('opcode') not in ('==', '!=', '<=', '>=') or n.get('opcode') in ('++', '--')) and
                   f.unit.text(kids(n)[0]).replace(' ', '') == dtxt for n in walk(f.body))
    batch = _enclosing(f.body, add, ('ForStmt',))
    step1 = True
    if batch:
        ind = flow.induction(batch[0])
        step1 = ind is not None and ind['step'].const_value() == 1
    if not assigned and not step1:
        chk.instance(R, '%s BootstrapRandomGroupsCV: the summed predictions are divided by %s, but the iterations run in batches' % (where, dtxt), 'refuted')
        chk.violation(Finding('CV7.mean-divisor', rel(f.file), f.name, 'fixed-divisor', where,
                              'BootstrapRandomGroupsCV divides the summed predictions by `%s`, a value fixed before the loop, while the loop at %s runs the '
                              'workers in batches (step %s): the number of predictions added per object is the number of workers actually run, which differs '
                              'from `%s` whenever the batch size does not divide it' % (dtxt, f.unit.where(batch[0]), f.unit.text(kids(batch[0])[2])[:30] if len(kids(batch[0])) > 2 else '?', dtxt)))
    else:
        chk.instance(R, '%s BootstrapRandomGroupsCV: divisor `%s` is not a per-object counter: not decided' % (where, dtxt), 'undecided')
