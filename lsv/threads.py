"""E2: thread-escape / RNG discipline / create-join pairing (serves C06; T3 also C05, C13)."""
import os

from . import frontend as fe
from .frontend import kids, strip, walk, callee_name, call_args
from . import exprs, flow
from .program import Program, lvalue_base, is_assign, is_incdec
from .report import Finding
from .sym import Poly

RNG_SEED = 'srand_'
RNG_DRAW = ('rand_', 'randInt', 'randDouble')


def rel(path):
    return os.path.relpath(path, fe.REPO)


# ---------------------------------------------------------------------------------------
# T1  no unsynchronised shared mutable state reachable from a thread entry

def mutex_protected(f, node):
    """lexical lock/unlock region in the same compound statement around `node`"""
    pm = flow.parent_map(f.body)
    child = node
    for anc in flow.ancestors(pm, node):
        if anc.get('kind') == 'CompoundStmt':
            before, after = set(), set()
            seen = False
            for s in kids(anc):
                if s is child:
                    seen = True
                    continue
                for c in walk(s):
                    if c.get('kind') == 'CallExpr':
                        cn = callee_name(c)
                        if cn in ('pthread_mutex_lock', 'pthread_mutex_unlock') and call_args(c):
                            key = exprs.text_key(call_args(c)[0])
                            if cn == 'pthread_mutex_lock' and not seen:
                                before.add(key)
                            if cn == 'pthread_mutex_unlock' and seen:
                                after.add(key)
            if before & after:
                return True
        child = anc
    return False


def var_is_shared_mutable(v):
    q = (v.get('type') or {}).get('qualType', '')
    if v.get('tls'):
        return False
    if '_Atomic' in q:
        return False
    if q.startswith('const ') and '*' not in q:
        return False
    if 'pthread_mutex_t' in q:
        return False
    return True


def t1(chk, prog, entries):
    R = chk.rule('T1.shared-state', 'for every thread entry, no non-const, non-thread-local, non-atomic global/static '
                 'variable is written by a transitively reachable function outside a common mutex region')
    reported = set()
    for ent in sorted(entries):
        ef = prog.funcs.get(ent)
        if ef is None:
            chk.broke('thread entry %s has no definition in the analysed units' % ent)
            continue
        paths = prog.reach([ef])
        writes = []
        for g, path in paths.items():
            for (gname, mode, node) in prog.global_accesses(g):
                if mode not in ('w', 'w*'):
                    continue
                u, v = prog.globals[gname]
                if not var_is_shared_mutable(v):
                    continue
                if mutex_protected(g, node):
                    continue
                writes.append((gname, g, node, path))
        if not writes:
            chk.instance(R, 'entry %s: %d reachable functions, no shared write' % (ent, len(paths)))
        for gname, g, node, path in writes:
            chk.instance(R, 'entry %s writes %s in %s' % (ent, gname, g.name), 'refuted')
            key = (gname, g.name)
            if key in reported:
                continue
            reported.add(key)
            chk.violation(Finding('T1.shared-state', rel(g.file), g.name, gname, g.unit.where(node),
                                  'global %s is written in %s, reachable from thread entry %s without synchronisation'
                                  % (gname, g.name, ent), path=[p.name for p in path],
                                  witness={'entries': sorted(e for e in entries if prog.funcs.get(e) and g in prog.reach([prog.funcs[e]]))}))


def who_may_touch(chk, prog):
    """the RNG state is named only inside the RNG API functions of its own unit"""
    R = chk.rule('W1.rng-state-owner', 'every variable written by the RNG API (srand_/rand_/randInt/randDouble) is '
                 'accessed by no function outside that API')
    api = set((RNG_SEED,) + RNG_DRAW)
    # file-local helpers of the RNG unit that only the API calls belong to the API (xorshift step, seed expansion factored out)
    api_files = {prog.funcs[n].file for n in api if prog.funcs.get(n) is not None}
    callers = {}
    for f in prog.all_funcs():
        for cn, node in f.calls:
            callers.setdefault(cn, set()).add(f.name)
    grown = True
    while grown:
        grown = False
        for f in prog.all_funcs():
            if f.name in api or f.file not in api_files or not f.static:
                continue
            cs = callers.get(f.name, set())
            if cs and cs <= api:
                api.add(f.name)
                grown = True
    state = set()
    for name in sorted(api):
        f = prog.funcs.get(name)
        if f is None:
            chk.broke('RNG API function %s not found' % name)
            continue
        for (g, mode, node) in prog.global_accesses(f):
            if mode.startswith('w'):
                state.add(g)
    chk.extra['rng_state_variables'] = sorted(state)
    for f in prog.all_funcs():
        if f.name in api:
            continue
        for (g, mode, node) in prog.global_accesses(f):
            if g in state:
                chk.instance(R, '%s touches %s' % (f.name, g), 'refuted')
                chk.violation(Finding('W1.rng-state-owner', rel(f.file), f.name, g, f.unit.where(node),
                                      'RNG state %s is accessed (%s) outside the RNG API, in %s' % (g, mode, f.name)))
                break
    for g in sorted(state):
        chk.instance(R, 'state %s: accessed only by %s' % (g, sorted(api)))
    return state


# ---------------------------------------------------------------------------------------
# T2  seeded before use

class SeedAnalysis:
    def __init__(self, prog):
        self.prog = prog
        self.summary = {}      # Func -> (offences when entered unseeded, seeded at exit)
        self.active = set()
        self.seed_calls = []   # (Func, CallExpr) every srand_ call seen

    def func(self, f):
        if f in self.summary:
            return self.summary[f]
        if f in self.active:
            return ([], False)
        self.active.add(f)
        off = []
        s = self.stmt(f, f.body, False, off, [f.name])
        self.active.discard(f)
        self.summary[f] = (off, s)
        return self.summary[f]

    def stmt(self, f, n, seeded, off, path):
        if n is None or not n.get('kind'):
            return seeded
        k = n['kind']
        if k == 'CompoundStmt':
            for s in kids(n):
                seeded = self.stmt(f, s, seeded, off, path)
            return seeded
        if k == 'IfStmt':
            c, t, e = flow.if_parts(n)
            seeded = self.stmt(f, c, seeded, off, path)
            a = self.stmt(f, t, seeded, off, path)
            b = self.stmt(f, e, seeded, off, path) if e is not None else seeded
            # a branch that always leaves does not constrain what follows
            if flow.exits(t) and not (e is not None and flow.exits(e)):
                return b
            if e is not None and flow.exits(e) and not flow.exits(t):
                return a
            return a and b
        if k in flow.LOOPS:
            init, cond, inc, body = flow.loop_parts(n)
            seeded = self.stmt(f, init, seeded, off, path)
            if k != 'DoStmt':
                seeded = self.stmt(f, cond, seeded, off, path)
            after = self.stmt(f, body, seeded, off, path)
            self.stmt(f, inc, after, off, path)
            if k == 'DoStmt':
                return self.stmt(f, cond, after, off, path)
            return seeded
        if k == 'CallExpr':
            for a in kids(n):
                seeded = self.stmt(f, a, seeded, off, path)
            cn = callee_name(n)
            if cn == RNG_SEED:
                self.seed_calls.append((f, n))
                return True
            if cn in RNG_DRAW:
                if not seeded:
                    off.append((f, n, list(path)))
                return seeded
            g = self.prog.resolve(f, cn) if cn else None
            if g is not None and g.body is not None:
                goff, gseeds = self.func(g)
                if not seeded:
                    for (of, on, opath) in goff:
                        off.append((of, on, path + opath))
                return seeded or gseeds
            return seeded
        for c in kids(n):
            seeded = self.stmt(f, c, seeded, off, path)
        return seeded


def seed_expr_ok(f, expr, depth=0):
    """the seed derives from a parameter of f (possibly through locals); returns (ok, reason)"""
    bad = None
    has_param = False
    for n in walk(expr):
        if n.get('kind') == 'CallExpr' and callee_name(n) in ('time', 'clock', 'getpid', 'rand', 'random', 'clock_gettime'):
            bad = 'seed depends on %s()' % callee_name(n)
        if n.get('kind') == 'DeclRefExpr':
            d = n['referencedDecl']
            if d.get('kind') == 'ParmVarDecl':
                has_param = True
            elif d.get('kind') == 'VarDecl' and depth < 3:
                # local: look at its definitions
                for a in walk(f.body):
                    if is_assign(a) and fe.ref_id(kids(a)[0]) == d['id']:
                        ok, why = seed_expr_ok(f, kids(a)[1], depth + 1)
                        has_param = has_param or ok
                    if a.get('kind') == 'VarDecl' and a.get('id') == d['id'] and kids(a):
                        ok, why = seed_expr_ok(f, kids(a)[-1], depth + 1)
                        has_param = has_param or ok
    if bad:
        return False, bad
    if not has_param:
        return False, 'seed does not derive from the worker argument'
    return True, ''


def t2(chk, prog, entries):
    R = chk.rule('T2.seeded-before-use', 'in every thread entry that draws random numbers, each draw is preceded on '
                 'every path within that thread by srand_ with a seed derived from the worker argument')
    sa = SeedAnalysis(prog)
    for ent in sorted(entries):
        ef = prog.funcs.get(ent)
        if ef is None:
            continue
        paths = prog.reach([ef], with_addr=False)
        draws = any(cn in RNG_DRAW for g in paths for cn, _ in g.calls)
        if not draws:
            continue
        off, _ = sa.func(ef)
        if not off:
            chk.instance(R, 'entry %s: every RNG draw is dominated by a seeding call' % ent)
        for (of, on, opath) in off:
            chk.instance(R, 'entry %s: unseeded draw in %s' % (ent, of.name), 'refuted')
            chk.violation(Finding('T2.seeded-before-use', rel(of.file), of.name, 'entry:' + ent, of.unit.where(on),
                                  'RNG draw %s reachable from thread entry %s on a path without a preceding srand_'
                                  % (callee_name(on), ent), path=opath))
    seen = set()
    for (f, call) in sa.seed_calls:
        if id(call) in seen:
            continue
        seen.add(id(call))
        ok, why = seed_expr_ok(f, call_args(call)[0])
        if ok:
            chk.instance(R, 'seed at %s derives from a parameter of %s' % (f.unit.where(call), f.name))
        else:
            chk.instance(R, 'seed at %s: %s' % (f.unit.where(call), why), 'refuted')
            chk.violation(Finding('T2.seeded-before-use', rel(f.file), f.name, 'seed-source', f.unit.where(call), why))
    return sa


# ---------------------------------------------------------------------------------------
# T3  create / join pairing

def handle_of(arg):
    """&threads[k]  or threads[k]  -> (base path, index Poly, index expr)"""
    n = strip(arg)
    if n.get('kind') == 'UnaryOperator' and n.get('opcode') == '&':
        n = strip(kids(n)[0])
    if n.get('kind') == 'ArraySubscriptExpr':
        b, i = kids(n)
        return exprs.path_of(b), exprs.to_poly(i), i
    p = exprs.path_of(n)
    return (p, Poly.const(0), None) if p else (None, None, None)


def enum_conds(conds):
    """split canonical conjuncts into (dispatch conjuncts mentioning an enumerator, others)"""
    d, o = [], []

    def mentions_enum(c):
        if c[0] == 'or':
            return any(mentions_enum(x) for alt in c[1] for x in alt)
        if c[0] == 'not':
            return mentions_enum(c[1])
        if isinstance(c[1], Poly):
            return any(a.startswith('enum:') for a in c[1].atoms())
        return False
    for c in conds:
        (d if mentions_enum(c) else o).append(c)
    return d, o


def rename(c, m):
    """rename atoms in a canonical conjunct"""
    if c[0] == 'or':
        return ('or', frozenset(tuple(rename(x, m) for x in alt) for alt in c[1]))
    if c[0] == 'not':
        return ('not', rename(c[1], m))
    if isinstance(c[1], Poly):
        return (c[0], c[1].subst({k: Poly.atom(v) for k, v in m.items()}))
    return c


def dispatch_sites(prog):
    """group pthread_create calls by (function, handle base)"""
    groups = {}
    for (f, call, ent) in prog.thread_creates():
        a = call_args(call)
        base, idx, idx_expr = handle_of(a[0])
        groups.setdefault((f, base), []).append((call, ent, idx, a))
    return groups


def t3(chk, prog, only_funcs=None):
    R = chk.rule('T3.create-join', 'each dispatch region joins exactly the threads it created: same handle array and '
                 'index range, same guard (modulo the learner dispatch chain, decided by E6), join loop after the create '
                 'loop in the same block with nothing touching the handle/argument arrays in between, frees after the join')
    groups = dispatch_sites(prog)
    n_regions = 0
    for (f, base), creates in sorted(groups.items(), key=lambda kv: (kv[0][0].name, str(kv[0][1]))):
        if only_funcs and f.name not in only_funcs:
            continue
        n_regions += 1
        pm = flow.parent_map(f.body)
        where = f.unit.where(creates[0][0])
        ents = sorted({c[1] or '?' for c in creates})
        desc = '%s handles %s entries %s' % (f.name, (base or '?').split('#')[0], ents)

        def bad(construct, msg, node=None, wit=None):
            chk.instance(R, desc + ': ' + msg, 'refuted')
            chk.violation(Finding('T3.create-join', rel(f.file), f.name, construct,
                                  f.unit.where(node) if node is not None else where, msg, witness=wit))
        if base is None:
            chk.broke('T3: cannot bind the thread handle of pthread_create in %s' % f.name)
            continue
        # the start routine may be a function pointer selected elsewhere: then a creation guard that only tests that pointer plays the part of
        # the learner dispatch chain (which E6 decides when it is written out) and is not compared with the join guard
        indirect = any(not c[1] or prog.funcs.get(c[1]) is None for c in creates)
        joins = []
        for cn, node in f.calls:
            if cn == 'pthread_join':
                jb, jidx, _ = handle_of(call_args(node)[0])
                if jb == base:
                    joins.append((node, jidx))
        if not joins:
            bad('no-join', 'threads stored in %s are created but never joined in %s' % (base.split('#')[0], f.name))
            continue
        if len(joins) != 1:
            chk.broke('T3: %d join sites for handle %s in %s (one expected)' % (len(joins), base, f.name))
            continue
        jnode, jidx = joins[0]
        # innermost enclosing loop whose induction variable occurs in the handle index
        def own_loop(node, idx):
            for lp in flow.enclosing_loops(pm, node):
                ind = flow.induction(lp)
                if ind and ind['var'] in idx.atoms():
                    return lp, ind
            return None, None
        lj, indj = own_loop(jnode, jidx)
        ok = True
        arg_bases = set()
        for (call, ent, idx, a) in creates:
            lc, indc = own_loop(call, idx)
            ab, _, _ = handle_of(a[3]) if len(a) > 3 else (None, None, None)
            if ab:
                arg_bases.add(ab)
            if (lc is None) != (lj is None):
                # a loop of a form the induction recogniser does not read (`i = n; while (i > 0) { i--; join(t[i]); }`) is not "no loop"
                def in_other_loop(node, idx_):
                    for lp in flow.enclosing_loops(pm, node):
                        if flow.induction(lp) is None and (set(flow.assigned_paths(lp)) & set(idx_.atoms())):
                            return lp
                    return None
                odd = in_other_loop(jnode, jidx) if lj is None else in_other_loop(call, idx)
                if odd is not None:
                    chk.broke('T3: %s: the handles of %s are %s in a loop at %s whose counting form is not understood' % (
                        f.name, base.split('#')[0], 'joined' if lj is None else 'created', f.unit.where(odd)))
                    ok = False
                    continue
                bad('loop-shape', 'create and join of %s are not both in a counted loop' % base.split('#')[0], call)
                ok = False
                continue
            if lc is None:
                if idx != jidx:
                    bad('index', 'created handle index %s, joined index %s' % (idx, jidx), call)
                    ok = False
                continue
            if lc is lj:
                bad('same-loop', 'thread is joined inside the loop that creates it (no parallelism, and later workers are not yet created)', call)
                ok = False
                continue
            # same iteration space
            m = {indj['var']: indc['var']}
            same = (indc['init'] == indj['init'] and indc['step'] == indj['step'] and indc['op'] == indj['op'] and
                    indc['bound'] == indj['bound'].subst({k: Poly.atom(v) for k, v in m.items()}))
            if not same:
                bad('range', 'create loop runs %s=%s; %s %s; step %s but join loop runs %s=%s; %s %s; step %s' % (
                    indc['var'].split('#')[0], indc['init'], indc['op'], indc['bound'], indc['step'],
                    indj['var'].split('#')[0], indj['init'], indj['op'], indj['bound'], indj['step']), jnode,
                    {'create_bound': str(indc['bound']), 'join_bound': str(indj['bound'])})
                ok = False
            if idx != jidx.subst({indj['var']: Poly.atom(indc['var'])}):
                bad('index', 'created handle index %s, joined index %s' % (idx, jidx), call)
                ok = False
            # same guard inside the loop bodies (ignoring the learner dispatch chain)
            cc = flow.path_conditions(pm, call, stop=lc)
            jc = flow.path_conditions(pm, jnode, stop=lj)
            cd, co = enum_conds(cc)
            jd, jo = enum_conds(jc)
            jo = [rename(c, m) for c in jo]
            if set(map(repr, co)) != set(map(repr, jo)) and indirect:
                chk.broke('T3: pthread_create in %s starts its routine through a function pointer (%s); the creation guard %s is not compared with the join guard' %
                          (f.name, f.unit.text(a[2])[:30], co))
                ok = False
            elif set(map(repr, co)) != set(map(repr, jo)):
                bad('guard', 'thread %s[...] is created under %s but joined under %s' % (
                    base.split('#')[0], sorted(map(repr, co)), sorted(map(repr, jo))), jnode)
                ok = False
            # siblings in the same block, join after create, nothing in between touches the arrays
            pc, pj = pm.get(id(lc)), pm.get(id(lj))
            if pc is not pj or pc is None or pc.get('kind') != 'CompoundStmt':
                bad('placement', 'join loop is not in the same block as the create loop (it does not post-dominate it)', jnode)
                ok = False
                continue
            sibs = kids(pc)
            ic, ij = [i for i, s in enumerate(sibs) if s is lc][0], [i for i, s in enumerate(sibs) if s is lj][0]
            if ij < ic:
                bad('placement', 'join loop precedes the create loop', jnode)
                ok = False
                continue
            for s in sibs[ic + 1: ij]:
                for n in walk(s):
                    if n.get('kind') in ('ReturnStmt', 'BreakStmt', 'ContinueStmt') or flow.is_noreturn_call(n):
                        bad('placement', 'control can leave between the create loop and the join loop', n)
                        ok = False
                    p = exprs.path_of(n) if n.get('kind') == 'DeclRefExpr' else None
                    if p and (p == base or p in arg_bases):
                        bad('early-use', '%s is used between thread creation and join' % p.split('#')[0], n)
                        ok = False
        # frees of handle/argument arrays must come after the join loop
        jend = (fe.bare(jnode['range']['end']) or {}).get('offset', 0)
        if lj is not None:
            jend = (fe.bare(lj['range']['end']) or {}).get('offset', jend)
        first_create = min((fe.begin(c[0]) or {}).get('offset', 0) for c in creates)
        for cn, node in f.calls:
            if cn in ('xfree', 'free'):
                p = exprs.path_of(call_args(node)[0]) if call_args(node) else None
                off = (fe.begin(node) or {}).get('offset', 0)
                if p and (p == base or p in arg_bases) and first_create < off < jend:
                    bad('early-free', '%s is freed before its threads are joined' % p.split('#')[0], node)
                    ok = False
        if ok:
            chk.instance(R, desc + ': paired')
    return n_regions


# ---------------------------------------------------------------------------------------
# T5  seed-schedule invariance

def seed_param_flow(prog, f, depth=0):
    """indices of f's parameters whose value (or pointee) reaches srand_'s argument"""
    out = set()
    pidx = {p['id']: i for i, p in enumerate(f.params)}
    for cn, node in f.calls:
        if cn == RNG_SEED:
            for n in walk(call_args(node)[0]):
                if n.get('kind') == 'DeclRefExpr' and n['referencedDecl']['id'] in pidx:
                    out.add(pidx[n['referencedDecl']['id']])
        elif depth < 3:
            g = prog.resolve(f, cn)
            if g is not None and g is not f:
                gi = seed_param_flow(prog, g, depth + 1)
                for i in gi:
                    a = call_args(node)
                    if i < len(a):
                        for n in walk(a[i]):
                            if n.get('kind') == 'DeclRefExpr' and n['referencedDecl']['id'] in pidx:
                                out.add(pidx[n['referencedDecl']['id']])
    return out


def seed_fields(prog, ent):
    """fields F of the worker argument such that arg->F reaches srand_"""
    ef = prog.funcs.get(ent)
    out = set()
    if ef is None:
        return out

    def fields_in(expr):
        for n in walk(expr):
            if n.get('kind') == 'MemberExpr':
                yield n['name']
    for cn, node in ef.calls:
        if cn == RNG_SEED:
            out.update(fields_in(call_args(node)[0]))
        else:
            g = prog.resolve(ef, cn)
            if g is not None:
                for i in seed_param_flow(prog, g):
                    a = call_args(node)
                    if i < len(a):
                        fl = list(fields_in(a[i]))
                        if fl:
                            out.add(fl[0])
    return out


def t5(chk, prog):
    R = chk.rule('T5.seed-schedule', 'the seed handed to worker th of batch k is a polynomial in which th and k have '
                 'the same non-zero constant coefficient and no other term depends on th, k or the thread count')
    n = 0
    for (f, base), creates in dispatch_sites(prog).items():
        pm = flow.parent_map(f.body)
        for (call, ent, idx, a) in creates:
            sf = seed_fields(prog, ent)
            if not sf:
                continue
            # create loop and the batch loop around it
            loops = flow.enclosing_loops(pm, call)
            inds = [flow.induction(lp) for lp in loops]
            if not loops or inds[0] is None:
                chk.broke('T5: %s creates seeded worker %s outside a counted loop' % (f.name, ent))
                continue
            th = inds[0]
            batch = None
            for ind in inds[1:]:
                if ind and ind['step'] == th['bound']:
                    batch = ind
            ab, _, _ = handle_of(a[3])
            for field in sorted(sf):
                # the assignment  arg[th].field = E  inside the create loop
                asg = None
                for x in walk(loops[0]):
                    if is_assign(x):
                        l = strip(kids(x)[0])
                        if l.get('kind') == 'MemberExpr' and l.get('name') == field:
                            asg = x
                if asg is None:
                    chk.broke('T5: no assignment to seed field %s in the create loop of %s' % (field, f.name))
                    continue
                n += 1
                E = exprs.to_poly(kids(asg)[1])
                desc = '%s: %s seed = %s' % (f.name, ent, E)
                cth = E.coeff(th['var'])
                problems = []
                if cth is None or cth.const_value() in (None, 0):
                    problems.append('coefficient of the worker index %s is %s (must be a non-zero constant)'
                                    % (th['var'].split('#')[0], cth))
                if batch is not None:
                    cb = E.coeff(batch['var'])
                    if cb is None or cth is None or cb != cth:
                        problems.append('coefficient of the batch counter %s is %s but of the worker index %s'
                                        % (batch['var'].split('#')[0], cb, cth))
                for atom in th['bound'].atoms():
                    if atom in E.atoms():
                        problems.append('seed depends on the thread count %s' % atom.split('#')[0])
                if any(a_.startswith('?') for a_ in E.atoms()):
                    chk.instance(R, desc + ' (opaque term)', 'undecided')
                    continue
                if problems:
                    chk.instance(R, desc, 'refuted')
                    chk.violation(Finding('T5.seed-schedule', rel(f.file), f.name, 'seed:' + ent, f.unit.where(asg),
                                          '; '.join(problems), witness={'seed': str(E)}))
                else:
                    chk.instance(R, desc)
    return n


def thread_entries(prog):
    ents = set()
    for (f, call, ent) in prog.thread_creates():
        if ent is None:
            raise fe.AnalysisBroken('pthread_create in %s: entry function not a direct function reference' % f.name)
        ents.add(ent)
    return ents


# ---------------------------------------------------------------------------------------
# T4  argument privacy: what a worker writes through its argument is either private to that worker or own-indexed

def arg_field_classes(prog, f, argbase_id):
    """classify the pointer fields of the per-thread argument array `A` in dispatcher f:
    'private' = the object is created per element A[k] (New*/init*/alloc applied to &A[k].F, or A[k].F = call());
    'shared'  = assigned from a value that does not depend on k"""
    cls = {}
    for n in walk(f.body):
        if n.get('kind') == 'CallExpr':
            cn = callee_name(n) or ''
            for a in call_args(n):
                s_ = strip(a)
                if s_.get('kind') == 'UnaryOperator' and s_.get('opcode') == '&':
                    s_ = strip(kids(s_)[0])
                if s_.get('kind') == 'MemberExpr':
                    b = strip(kids(s_)[0])
                    if b.get('kind') == 'ArraySubscriptExpr' and fe.ref_id(kids(b)[0]) == argbase_id:
                        if cn.startswith(('New', 'init')) or cn in ('xmalloc', 'malloc'):
                            cls[s_['name']] = 'private'
        if is_assign(n) and n.get('opcode') == '=':
            l = strip(kids(n)[0])
            if l.get('kind') == 'MemberExpr' and '*' in (l.get('type') or {}).get('qualType', ''):
                b = strip(kids(l)[0])
                if b.get('kind') == 'ArraySubscriptExpr' and fe.ref_id(kids(b)[0]) == argbase_id:
                    r = strip(kids(n)[1])
                    if r.get('kind') == 'CallExpr':
                        cls[l['name']] = 'private'
                    else:
                        cls.setdefault(l['name'], 'shared')
    return cls


def fields_written_by_worker(prog, ef):
    """{field: node} fields F of the worker argument such that the worker (transitively) stores through arg->F"""
    from .ioflow import writes_through_param
    out = {}
    # the local that holds the argument struct pointer (arg = (T*) arg_)
    argvars = set()
    for n in walk(ef.body):
        if is_assign(n) and fe.ref_id(kids(n)[1]) == ef.params[0]['id']:
            argvars.add(fe.ref_id(kids(n)[0]))
        if n.get('kind') == 'VarDecl' and kids(n) and fe.ref_id(kids(n)[-1]) == ef.params[0]['id']:
            argvars.add(n['id'])

    def field_of(e):
        """arg->F...  ->  F"""
        e = strip(e)
        if e.get('kind') == 'UnaryOperator' and e.get('opcode') == '&':
            e = strip(kids(e)[0])
        chain = []
        while e.get('kind') in ('MemberExpr', 'ArraySubscriptExpr'):
            if e['kind'] == 'MemberExpr':
                chain.append(e['name'])
            e = strip(kids(e)[0])
        if e.get('kind') == 'DeclRefExpr' and e['referencedDecl']['id'] in argvars and chain:
            return chain[-1], len(chain)
        return None, 0
    for n in walk(ef.body):
        if is_assign(n) or is_incdec(n):
            fld, depth = field_of(kids(n)[0])
            if fld and depth >= 2:           # arg->F->x... (a store through the pointer, not into the private struct)
                out.setdefault(fld, n)
        if n.get('kind') == 'CallExpr':
            g = prog.resolve(ef, callee_name(n)) if callee_name(n) else None
            if g is None or g.body is None:
                continue
            w = writes_through_param(prog, g)
            for j, a in enumerate(call_args(n)):
                if j in w:
                    fld, depth = field_of(a)
                    if fld:
                        out.setdefault(fld, n)
    return out


def t4(chk, prog, exempt_entries=()):
    R = chk.rule('T4.argument-privacy', 'every object a worker stores through (via a pointer field of its argument) is created per '
                 'worker by the dispatcher; pointer fields shared between workers are only read (range-sliced workers are exempt: '
                 'their shared stores are decided by the ownership rule S4)')
    done = set()
    for (f, base), creates in dispatch_sites(prog).items():
        for (call, ent, idx, a) in creates:
            if ent in exempt_entries or (f.name, ent) in done:
                continue
            done.add((f.name, ent))
            ef = prog.funcs.get(ent)
            if ef is None or len(a) < 4:
                continue
            t = strip(a[3])
            if t.get('kind') == 'UnaryOperator' and t.get('opcode') == '&':
                t = strip(kids(t)[0])
            if t.get('kind') != 'ArraySubscriptExpr':
                chk.instance(R, '%s -> %s: argument is not an element of a per-dispatch array' % (f.name, ent), 'undecided')
                continue
            bid = fe.ref_id(kids(t)[0])
            cls = arg_field_classes(prog, f, bid)
            written = fields_written_by_worker(prog, ef)
            bad = [(fld, node) for fld, node in written.items() if cls.get(fld) == 'shared']
            unk = [fld for fld in written if fld not in cls]
            if bad:
                for fld, node in bad:
                    chk.instance(R, '%s -> %s writes through shared field %s' % (f.name, ent, fld), 'refuted')
                    chk.violation(Finding('T4.argument-privacy', rel(ef.file), ent, 'field:' + fld, ef.unit.where(node),
                                          'worker %s stores through its argument field `%s`, which %s fills with the same object for every '
                                          'worker: concurrent workers write the same memory' % (ent, fld, f.name)))
            elif unk:
                chk.instance(R, '%s -> %s: written fields %s are not assigned in the dispatcher' % (f.name, ent, unk), 'undecided')
            else:
                chk.instance(R, '%s -> %s: writes only through per-worker fields %s; shared fields %s are read-only' % (
                    f.name, ent, sorted(written), sorted(k for k, v in cls.items() if v == 'shared')))


# ---------------------------------------------------------------------------------------
# T6  accumulators are fresh in every batch

def accumulated_fields(prog, ef):
    """fields F of the worker argument that the worker accumulates into (+=, -=, ++ through arg->F->...)"""
    argvars = set()
    for n in walk(ef.body):
        if is_assign(n) and fe.ref_id(kids(n)[1]) == ef.params[0]['id']:
            argvars.add(fe.ref_id(kids(n)[0]))
        if n.get('kind') == 'VarDecl' and kids(n) and fe.ref_id(kids(n)[-1]) == ef.params[0]['id']:
            argvars.add(n['id'])
    out = {}
    for n in walk(ef.body):
        if n.get('kind') == 'CompoundAssignOperator' or is_incdec(n):
            e = strip(kids(n)[0])
            chain = []
            while e.get('kind') in ('MemberExpr', 'ArraySubscriptExpr'):
                if e['kind'] == 'MemberExpr':
                    chain.append(e['name'])
                e = strip(kids(e)[0])
            if e.get('kind') == 'DeclRefExpr' and e['referencedDecl']['id'] in argvars and len(chain) >= 2:
                out.setdefault(chain[-1], n)
    return out


def t6(chk, prog):
    R = chk.rule('T6.fresh-accumulators', 'a per-worker buffer that the worker accumulates into (+=, ++) and that the dispatcher merges '
                 'after each batch is created or cleared inside the batch loop: nothing is carried from one batch to the next, so the '
                 'result cannot depend on how iterations are cut into batches (i.e. on the thread count)')
    n = 0
    for (f, base), creates in dispatch_sites(prog).items():
        pm = flow.parent_map(f.body)
        for (call, ent, idx, a) in creates:
            ef = prog.funcs.get(ent)
            if ef is None or len(a) < 4:
                continue
            acc = accumulated_fields(prog, ef)
            if not acc:
                continue
            loops = flow.enclosing_loops(pm, call)
            if len(loops) < 2:
                continue                      # a single batch: nothing can be carried over
            batch = loops[1]
            t = strip(a[3])
            if t.get('kind') == 'UnaryOperator' and t.get('opcode') == '&':
                t = strip(kids(t)[0])
            bid = fe.ref_id(kids(t)[0]) if t.get('kind') == 'ArraySubscriptExpr' else None
            for fld in sorted(acc):
                n += 1
                fresh_in, fresh_out = [], []
                for x in walk(f.body):
                    if x.get('kind') != 'CallExpr':
                        continue
                    cn = callee_name(x) or ''
                    if not (cn.startswith(('New', 'init')) or cn.endswith(('Set', 'Resize'))):
                        continue
                    for arg in call_args(x)[:1]:
                        s_ = strip(arg)
                        if s_.get('kind') == 'UnaryOperator' and s_.get('opcode') == '&':
                            s_ = strip(kids(s_)[0])
                        if s_.get('kind') == 'MemberExpr' and s_.get('name') == fld:
                            b = strip(kids(s_)[0])
                            if b.get('kind') == 'ArraySubscriptExpr' and fe.ref_id(kids(b)[0]) == bid:
                                (fresh_in if batch in flow.ancestors(pm, x) else fresh_out).append(x)
                desc = '%s -> %s accumulates into %s' % (f.name, ent, fld)
                if fresh_in:
                    chk.instance(R, desc + ': created/cleared inside the batch loop')
                elif fresh_out:
                    chk.instance(R, desc + ': created outside the batch loop and never cleared inside it', 'refuted')
                    chk.violation(Finding('T6.fresh-accumulators', rel(f.file), f.name, 'field:' + fld, f.unit.where(fresh_out[0]),
                                          '%s creates the per-worker accumulator `%s` once outside the batch loop and merges it after every '
                                          'batch without clearing it: contributions of earlier batches are merged again, so the result depends '
                                          'on the number of batches (thread count)' % (f.name, fld)))
                else:
                    chk.instance(R, desc + ': no creation/clearing statement found', 'undecided')
    return n


def t7(chk, prog):
    """the bootstrap driver runs its iterations in batches of `nthreads` workers, so it executes ceil(iterations/nthreads)*nthreads
    iterations: the result is independent of the thread count only when the count divides the iteration count (the property's own
    proviso).  An internal call that fixes the iteration count must therefore fix a thread count that divides it -- forwarding the
    caller's thread count makes a hidden iteration count depend on it."""
    R = chk.rule('T7.batch-divides', 'every library-internal call of BootstrapRandomGroupsCV with a literal iteration count passes a literal thread count '
                 'that divides it (the batch loop runs whole batches: a non-dividing count executes extra iterations)')
    n = 0
    for f in prog.all_funcs():
        if f.body is None:
            continue
        for cn, node in f.calls:
            if cn != 'BootstrapRandomGroupsCV':
                continue
            a = call_args(node)
            if len(a) < 7:
                continue
            it, th = fe.int_value(a[2]), fe.int_value(a[6])
            if it is None:
                continue            # the caller's own iteration count: the proviso is the caller's
            n += 1
            desc = '%s %s: BootstrapRandomGroupsCV(..., iterations = %d, ..., nthreads = %s)' % (f.unit.where(node), f.name, it, f.unit.text(a[6])[:20])
            if th is not None and th > 0 and it % th == 0:
                chk.instance(R, desc + ': %d divides %d' % (th, it))
            else:
                chk.instance(R, desc, 'refuted')
                chk.violation(Finding('T7.batch-divides', rel(f.file), f.name, 'bootstrap:%d' % it, f.unit.where(node),
                                      '%s runs an internal bootstrap validation with a fixed %d iterations but a thread count of `%s`: the driver '
                                      'executes whole batches of that many workers, so for a count that does not divide %d it runs extra iterations '
                                      'and the averaged predictions (q2 of the scrambled models) depend on the number of threads requested'
                                      % (f.name, it, f.unit.text(a[6])[:20], it)))
    return n


def t8(chk, prog):
    """a worker that seeds the generator with srand_ is written to run on a thread of its own: the generator state is per thread, so when the
    dispatcher calls such an entry function directly (to "save a thread") the call reseeds the *caller's* stream and every later draw of the
    calling thread depends on how the work was dispatched."""
    R = chk.rule('T8.entry-only-as-thread', 'every thread entry function that (transitively) calls srand_ is started only through pthread_create: '
                 'no direct call and no call through a function pointer that may hold it')
    seeding = {}
    for (_, _, ent) in prog.thread_creates():
        if ent is None or ent in seeding:
            continue
        ef = prog.funcs.get(ent)
        if ef is None or ef.body is None:
            continue
        seeding[ent] = any(cn == 'srand_' for g in prog.reach([ef]) for cn, _ in g.calls)
    # entry functions started through a function pointer: the functions ever stored in a pointer that reaches pthread_create
    n = 0
    calls_of = {e: [] for e, v in seeding.items() if v}
    for f in prog.all_funcs():
        if f.body is None:
            continue
        ptr_targets = {}
        for x in walk(f.body):
            tgt, rhs = None, None
            if x.get('kind') == 'VarDecl' and kids(x) and '(*)' in x.get('type', {}).get('qualType', ''):
                tgt, rhs = x.get('id'), kids(x)[-1]
            elif x.get('kind') == 'BinaryOperator' and x.get('opcode') == '=' and fe.ref_id(kids(x)[0]) and \
                    '(*)' in strip(kids(x)[0]).get('type', {}).get('qualType', ''):
                tgt, rhs = fe.ref_id(kids(x)[0]), kids(x)[1]
            if tgt is None:
                continue
            r = strip(rhs)
            if r.get('kind') == 'UnaryOperator' and r.get('opcode') == '&':
                r = strip(kids(r)[0])
            nm = r['referencedDecl'].get('name') if r.get('kind') == 'DeclRefExpr' and r['referencedDecl'].get('kind') == 'FunctionDecl' else None
            if nm:
                ptr_targets.setdefault(tgt, set()).add(nm)
                fn = prog.funcs.get(nm)
                if nm not in seeding and fn is not None and fn.body is not None:
                    seeding[nm] = any(cn == 'srand_' for g in prog.reach([fn]) for cn, _ in g.calls)
                    if seeding[nm]:
                        calls_of.setdefault(nm, [])
        for x in walk(f.body):
            if x.get('kind') != 'CallExpr':
                continue
            cn = callee_name(x)
            if cn in calls_of:
                calls_of[cn].append((f, x, 'directly'))
                continue
            ce = strip(kids(x)[0]) if kids(x) else {}
            while ce.get('kind') in ('ParenExpr', 'UnaryOperator') and kids(ce):
                ce = strip(kids(ce)[0])
            if ce.get('kind') == 'DeclRefExpr' and ce['referencedDecl'].get('kind') in ('VarDecl', 'ParmVarDecl'):
                for nm in sorted(ptr_targets.get(ce['referencedDecl']['id'], ())):
                    if seeding.get(nm):
                        calls_of.setdefault(nm, []).append((f, x, 'through the function pointer `%s`' % ce['referencedDecl'].get('name')))
    for ent in sorted(calls_of):
        ef = prog.funcs.get(ent)
        n += 1
        if not calls_of[ent]:
            chk.instance(R, '%s %s: seeds its generator; started only by pthread_create' % (ef.unit.where(ef.body), ent))
            continue
        for (f, x, how) in calls_of[ent]:
            chk.instance(R, '%s %s calls %s %s' % (f.unit.where(x), f.name, ent, how), 'refuted')
            chk.violation(Finding('T8.entry-only-as-thread', rel(f.file), f.name, 'inline:' + ent, f.unit.where(x),
                                  '%s calls the thread entry function %s %s: %s calls srand_, and the generator state is per thread, so run inline it '
                                  'reseeds the stream of the calling thread -- every later random draw of the caller (the next fold assignment, the next '
                                  'batch) then depends on which shares were run inline, i.e. on the thread count' % (f.name, ent, how, ent)))
    return n
