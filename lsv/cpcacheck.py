"""C09 (CPCA super scores / block scores / super weights): the structural, exact-arithmetic part, with the free vector algebra of E18.

Nothing is executed.  The blocks of the tensor are an indexed family; every loop over the blocks is interpreted once for a generic block k
(`Eb->m[k]` is the base matrix `Eb[k]`, `scaling_factor[k]` an opaque positive scalar), after checking that an iteration does not read what a
previous one left in its work vectors.

  CPCA.block-loadings   CalcBlockLoadings(Xb, t, p) adds  Xb' t / t't  to p  (its body, read as a sequence of kernels)
  CPCA.iteration        one pass of the iteration, for a generic block: the block score is  t_b = Eb[k] p_b / sf_k  with  p_b = unit(Eb[k]' t / t't),
                        stored as row k of the block-score table; the super weight is  w = unit(T' t / t't);  the new super score is  t_new = T w
                        for that very table and weight (so "super score = block scores x super weights" holds for what is stored)
  CPCA.component        on the way out: the table, t_new and w are what is stored (whole vectors, column pc); for every block the stored loading is
                        Eb[k]' t_new / t_new' t_new  and the block is deflated by exactly  t_new * (stored loading)'  (hence Eb[k]_new' t_new = 0);
                        the total explained variance is (squared norm of a super-score iterate) / ss * 100;  on the way round t takes the value of t_new
  CPCA.scaling          the block scaling factor is sqrt(number of variables of the block), recorded in the model in block order; ss is the sum of
                        the squares of every preprocessed cell divided by its block's factor, taken before the first deflation
  CPCA.score-predictor  CPCAScorePredictor, generic block and component: p_b = unit(stored loading[k][:, pc]), t_b = Eb[k] p_b / sf_k from zero, column k
                        of the table; super score = table x stored weights[:, pc], stored as column pc; Eb[k] deflated by  s_t * (stored loading)'

Not decided: that these super scores equal the PCA scores of the block-scaled concatenation (Westerhuis et al., a theorem about this
algorithm at convergence), the ranges and monotonicity of the explained variances, convergence, and the re-projection equality, which
holds to the convergence tolerance only (the stored loadings come from t_new, the iteration used t)."""
from . import frontend as fe
from .frontend import kids, strip, walk, callee_name, call_args
from .sym import Poly
from .spline import Rat
from .kerneldef import Extractor, Unsupported
from .report import Finding
from .pcacheck import show_terms
from .plscheck import (Tail, NotUnderstood, exec_paths, vdot, vsame, msame, vshow, mshow, vscale, vadd, proportional, expand, ONE, ZERO, N, rel, settled,
                       report_partial, report_thresholds)


class CTail(Tail):
    """Tail + the CPCA helpers + generic interpretation of a loop over the blocks"""

    def clone(self):
        t = Tail.clone(self)
        t.__class__ = CTail
        t.appends = list(getattr(self, 'appends', []))
        t.generic_loops = list(getattr(self, 'generic_loops', []))
        return t

    def call(self, n):
        cn = callee_name(n)
        a = call_args(n)
        if cn in ('NewMatrix', 'initMatrix', 'initDVector', 'NewTensorMatrix'):
            return
        if cn == 'CalcBlockLoadings' and len(a) == 3:
            M = self.mat.get(self.nm(a[0]))
            if M is None:
                raise NotUnderstood('matrix %s has no tracked value' % self.nm(a[0]))
            u = self.v(self.nm(a[1]))
            d = vdot(u, u)
            if d.is_zero():
                raise NotUnderstood('CalcBlockLoadings on a zero vector')
            o = self.nm(a[2])
            self.vec[o] = vadd(self.v(o), self.prod(M, u, True), ONE / d)
            return
        if cn in ('TensorAppendMatrix', 'DVectorAppend', 'DVectorListAppend'):
            tgt = self.f.unit.text(a[0]).replace(' ', '')
            if cn == 'TensorAppendMatrix':
                nm_ = self.nm(a[1])
                if nm_ not in self.mat:
                    raise NotUnderstood('matrix %s has no tracked value' % nm_)
                self.appends = getattr(self, 'appends', []) + [(tgt, 'm', dict(self.mat[nm_]), n)]
            elif cn == 'DVectorAppend':
                try:
                    self.appends = getattr(self, 'appends', []) + [(tgt, 's', self.scalar(a[1]), n)]
                except NotUnderstood:
                    self.appends = getattr(self, 'appends', []) + [(tgt, '?', None, n)]
            else:
                self.appends = getattr(self, 'appends', []) + [(tgt, '?', None, n)]
            return
        return Tail.call(self, n)

    def scalar(self, e):
        e0 = strip(e)
        while e0.get('kind') == 'ParenExpr':
            e0 = strip(kids(e0)[0])
        if e0.get('kind') == 'ArraySubscriptExpr' and fe.is_float_type(e0):
            # a cell of a container the routine only reads (scaling_factor[k]): an opaque scalar, named as the extractor names it
            t = self.f.unit.text(e0).replace(' ', '').replace('->data[', '[')
            for i_, pn_ in enumerate(self.pnames):
                if t.startswith(pn_ + '->'):
                    t = '$%d' % i_ + t[len(pn_):]
            return Rat(Poly.atom(t))
        return Tail.scalar(self, e)

    def stmt(self, s0):
        s = strip(s0)
        k = s.get('kind')
        if k == 'ForStmt' and any(m.get('kind') == 'CallExpr' and callee_name(m) not in ('square', 'sqrt', 'fabs') for m in walk(s)):
            return self.block_loop(s)
        if k == 'BinaryOperator' and s.get('opcode') == '=':
            l, r = kids(s)
            r0 = strip(r)
            if r0.get('kind') == 'CallExpr' and callee_name(r0) == 'getMatrixColumn' and strip(l).get('kind') == 'DeclRefExpr':
                a = call_args(r0)
                cont = self.nm(a[0])
                col = self.f.unit.text(a[1]).replace(' ', '')
                val = None
                for arr, c_, src, v_, ext, node in self.colstores[::-1]:
                    if arr == cont and c_ == col:
                        val = dict(v_)
                        break
                self.vec[self.nm(l)] = val if val is not None else {'%s[:,%s]' % (cont, col): ONE}
                return
        if k == 'DeclStmt':
            for d in kids(s):
                if d.get('kind') == 'VarDecl' and kids(d) and fe.is_float_type(d):
                    i0 = strip(kids(d)[-1])
                    if i0.get('kind') == 'CallExpr' and callee_name(i0) == 'sqrt':
                        self.sc[d.get('name')] = Rat(Poly.atom('sqrt(%s)' % self.f.unit.text(call_args(i0)[0]).replace(' ', '')))
                        continue
                    try:
                        self.sc[d.get('name')] = self.scalar(kids(d)[-1])
                    except NotUnderstood:
                        self.sc.pop(d.get('name'), None)
            return
        return Tail.stmt(self, s0)

    def block_loop(self, lp):
        """a loop over the blocks whose body calls kernels: interpreted once for a generic block.  Sound when an iteration does not depend on
        what the previous one left behind: every work vector written in the body gets an opaque "left by the previous block" value first"""
        body = kids(lp)[-1]
        written = set()
        for m in walk(body):
            if m.get('kind') == 'CallExpr':
                cn, a = callee_name(m), call_args(m)
                outs = {'DVectorMatrixDotProduct': [2], 'MT_DVectorMatrixDotProduct': [2], 'MatrixDVectorDotProduct': [2], 'MT_MatrixDVectorDotProduct': [2],
                        'DVectNorm': [1], 'DVectorSet': [0], 'DVectorCopy': [1], 'CalcBlockLoadings': [2], 'NewDVector': [0]}.get(cn, [])
                for i in outs:
                    try:
                        written.add(self.nm(a[i]))
                    except NotUnderstood:
                        pass
            if m.get('kind') in ('BinaryOperator', 'CompoundAssignOperator') and m.get('opcode', '').endswith('=') and m.get('opcode') not in ('==', '!=', '<=', '>='):
                l = strip(kids(m)[0])
                for x in walk(l):
                    if x.get('kind') == 'DeclRefExpr' and x['referencedDecl'].get('name') in self.vec:
                        written.add(x['referencedDecl'].get('name'))
                        break
        for v in written:
            if v in self.vec:
                self.vec[v] = {'?left-by-previous-block:%s' % v: ONE}
        self.generic_loops = getattr(self, 'generic_loops', []) + [self.f.unit.where(lp)]
        for s in (kids(body) if strip(body).get('kind') == 'CompoundStmt' else [body]):
            self.stmt(s)


def leaks(val):
    return any(str(b).startswith('?left-by-previous-block') or '?left-by-previous-block' in str(b) for b in val)


def kernel(chk, prog):
    R = chk.rule('CPCA.block-loadings', 'CalcBlockLoadings(Xb, t, p) adds Xb\' t / t\'t to p (transpose, accumulating product, division by the squared norm of t)')
    f = prog.funcs.get('CalcBlockLoadings')
    if f is None or f.body is None:
        chk.broke('CalcBlockLoadings not found')
        return False
    pn = [p['name'] for p in f.params]
    tl = CTail(prog, f)
    tl.mat[pn[0]] = {('M', pn[0]): ONE}
    tl.vec[pn[1]] = {pn[1]: ONE}
    tl.vec[pn[2]] = {'p0': ONE}
    try:
        live, exits = exec_paths(tl, list(kids(f.body)))
    except NotUnderstood as e:
        chk.broke('CalcBlockLoadings: not understood: %s' % e)
        return False
    base_ = {('M', pn[0]): ONE}
    tt = vdot({pn[1]: ONE}, {pn[1]: ONE})
    xt = tl.prod(base_, {pn[1]: ONE}, True)
    # p may be zeroed by the routine (then the old content p0 is gone) or added to (callers are checked to pass a zeroed p)
    wants = [vadd({'p0': ONE}, xt, ONE / tt), vscale(vadd({'p0': ONE}, xt), ONE / tt), vscale(xt, ONE / tt)]
    ok_all = True
    for st in live + exits:
        got = st.vec[pn[2]]
        path = ' && '.join(getattr(st, 'path', []))
        report_partial(chk, R, f, st, 'body')
        if any(vsame(got, w_) for w_ in wants):
            chk.instance(R, '%s CalcBlockLoadings%s: p <- (p +) Xb\' t / t\'t  [%s]' % (f.where, ' (path %s)' % path if path else '', vshow(got)[:120]))
            continue
        ok_all = False
        chk.instance(R, '%s CalcBlockLoadings%s computes %s' % (f.where, ' on the path `%s`' % path if path else '', vshow(got)[:200]), 'refuted')
        chk.violation(Finding('CPCA.block-loadings', rel(f.file), f.name, 'definition', f.where,
                              'CalcBlockLoadings%s leaves p = %s, not Xb\' t / t\'t (t runs over the objects of the block)%s' %
                              (' on the path taken when `%s`' % path if path else '', vshow(got)[:300],
                               ': which product is formed depends on a coincidence of the block\'s dimensions' if path else '')))
    return ok_all


def fit(chk, prog):
    Ri = chk.rule('CPCA.iteration', 'one pass of the CPCA iteration for a generic block k: p_b = unit(Eb[k]\' t / t\'t), t_b = Eb[k] p_b / sf_k stored as row k of '
                  'the block-score table T\'; w = unit(T\' t / t\'t); t_new = T w for that table and that weight')
    Rc = chk.rule('CPCA.component', 'when the iteration stops: the table, t_new and w are stored whole in column pc; for every block the stored loading is '
                  'Eb[k]\' t_new / t_new\'t_new and Eb[k] is deflated by exactly t_new (stored loading)\'; total explained variance = squared norm of a '
                  'super-score iterate / ss * 100; otherwise t takes the value of t_new')
    f = prog.funcs.get('CPCA')
    if f is None or f.body is None:
        chk.broke('CPCA not found')
        return
    loops = [n for n in walk(f.body) if n.get('kind') in ('WhileStmt', 'DoStmt') and
             any(m.get('kind') == 'CallExpr' and callee_name(m) == 'CalcBlockLoadings' for m in walk(n))]
    if len(loops) != 1:
        chk.broke('CPCA: the iteration was not found as a single while loop (%d candidates)' % len(loops))
        return
    loop = loops[0]
    tl = CTail(prog, f)
    for n in walk(f.body):
        if n.get('kind') == 'CallExpr' and callee_name(n) == 'NewDVector' and len(call_args(n)) == 2:
            try:
                tl.same_size.setdefault(tl.nm(call_args(n)[0]), set()).add(f.unit.text(call_args(n)[1]).replace(' ', ''))
            except NotUnderstood:
                pass
    # roles from the calls inside the loop
    cbl = [m for m in walk(loop) if m.get('kind') == 'CallExpr' and callee_name(m) == 'CalcBlockLoadings']
    cv = [m for m in walk(loop) if m.get('kind') == 'CallExpr' and callee_name(m) == 'calcConvergence']
    try:
        blk = tl.nm(call_args(cbl[0])[0])
        blk2 = tl.nm(call_args(cbl[-1])[0])
        tnew, tname = (tl.nm(x) for x in call_args(cv[0])) if len(cv) == 1 else (None, None)
    except NotUnderstood as e:
        chk.broke('CPCA: %s' % e)
        return
    if len(cbl) != 2 or blk != blk2 or tname is None or tname == tnew:
        chk.broke('CPCA: expected two CalcBlockLoadings calls on the same block and one convergence test calcConvergence(t_new, t)')
        return
    sp = [m for m in walk(loop) if m.get('kind') == 'CallExpr' and callee_name(m) in ('MT_MatrixDVectorDotProduct', 'MatrixDVectorDotProduct') and
          len(call_args(m)) == 3 and f.unit.text(call_args(m)[2]).strip() == tnew]
    if len(sp) != 1:
        chk.broke('CPCA: the product that forms the new super score %s was not found' % tnew)
        return
    T = tl.nm(call_args(sp[0])[0])
    tl.mat[blk] = {('M', blk): ONE}
    # every local matrix the loop hands to a kernel starts as "whatever an earlier pass left in it"
    for m in walk(loop):
        if m.get('kind') == 'CallExpr' and callee_name(m) in ('MatrixTranspose', 'MT_MatrixDVectorDotProduct', 'MatrixDVectorDotProduct', 'TensorAppendMatrix'):
            for a in call_args(m):
                if strip(a).get('kind') == 'DeclRefExpr':
                    try:
                        nm_ = tl.nm(a)
                        if 'matrix' in str(strip(a).get('type', {}).get('qualType', '')) and nm_ != blk:
                            tl.mat.setdefault(nm_, {('M', '?stale:' + nm_): ONE})
                    except NotUnderstood:
                        pass
    for n in walk(loop):
        if n.get('kind') == 'ArraySubscriptExpr':
            b0 = strip(kids(n)[0])
            while b0.get('kind') == 'ArraySubscriptExpr':
                b0 = strip(kids(b0)[0])
            if b0.get('kind') == 'MemberExpr' and b0.get('name') == 'data' and strip(kids(b0)[0]).get('kind') == 'DeclRefExpr' and \
                    'matrix' in str(strip(kids(b0)[0]).get('type', {}).get('qualType', '')):
                tl.mat.setdefault(strip(kids(b0)[0])['referencedDecl'].get('name'), {('M', '?stale:' + strip(kids(b0)[0])['referencedDecl'].get('name')): ONE})
    tl.vec[tname] = {tname: ONE}
    for m in walk(loop):
        if m.get('kind') == 'CallExpr' and callee_name(m) in ('DVectorSet', 'DVectorCopy', 'MT_MatrixDVectorDotProduct', 'calcConvergence', 'DVectNorm'):
            for a in call_args(m):
                try:
                    tl.vec.setdefault(tl.nm(a), {'?prev:' + tl.nm(a): ONE})
                except NotUnderstood:
                    pass
    # the explained-variance bookkeeping is a separate routine of heavy matrix products: outside the algebra
    tl.ignore_out = lambda arr: 'local_blockvexp' in arr or 'Eb_T' in arr
    skip_calls = ('MatrixDotProduct', 'MatrixTrace')
    orig_call = tl.call

    try:
        live, exits = exec_paths_skip(tl.clone(), [kids(loop)[-1]], skip_calls)
    except NotUnderstood as e:
        chk.broke('CPCA: the iteration is not understood: %s' % e)
        return
    if len(exits) != 1 or len(live) != 1:
        chk.broke('CPCA: expected one path leaving the iteration and one going round, found %d and %d' % (len(exits), len(live)))
        return
    ex_, lv_ = exits[0], live[0]
    where = f.unit.where(loop)
    t0 = {tname: ONE}
    E0 = {('M', blk): ONE}
    k = blk[blk.index('[') + 1:-1]
    sf_atoms = [a for st in (ex_,) for (nm_, kind_, idx_, src_, val_, ext_, node_) in st.linestores for c in val_.values() for a in c.atoms() if 'scaling_factor' in a]
    probs = []
    # ---- the pass ------------------------------------------------------------------------------------------------------
    rows = [ls for ls in ex_.linestores if ls[2] == k]
    TT = rows[0][0] if len(rows) == 1 else None
    if TT is None or rows[0][1] not in ('row', 'col'):
        probs.append((Ri, 'table', 'the block scores are not stored as line %s of one table: %s' % (k, [(x[0], x[1], x[2]) for x in ex_.linestores])))
        TT = TT or '?'
    tkey = 'M' if rows and rows[0][1] == 'col' else 'Mt'          # the table as (objects x blocks): the stored matrix, or its transpose when rows are stored
    if TT != '?':
        name_, kind_, idx_, src_, val_, ext_, node_ = rows[0]
        praw = ex_.prod(E0, t0, True)
        pb = vscale(praw, ONE / (list(praw.values())[0] * N(list(praw)[0]))) if len(praw) == 1 else None
        if pb is None:
            chk.broke('CPCA: block loading direction not a single base vector')
            return
        sf = Rat(Poly.atom(sf_atoms[0])) if sf_atoms else None
        if sf is None or not sf_atoms[0].endswith('scaling_factor[%s]' % k):
            probs.append((Ri, 'scaling', 'the block score of block %s is not divided by the scaling factor of that block: %s' % (k, vshow(val_)[:160])))
        else:
            want = vscale(ex_.prod(E0, pb, False), ONE / sf)
            if leaks(val_):
                probs.append((Ri, 'block-score-reset', 'the block score of block %s still contains what the previous block left in %s: %s' % (k, src_, vshow(val_)[:160])))
            elif not vsame(val_, want):
                probs.append((Ri, 'block-score', 'the block score stored for block %s is %s, not Eb[%s] unit(Eb[%s]\' t) / sf_%s = %s' %
                              (k, vshow(val_)[:160], k, k, k, vshow(want)[:160])))
            if ext_ != '%s->size' % src_ and ext_ not in ex_.same_size.get(src_, ()):
                probs.append((Ri, 'block-score-extent', 'only the first %s cells of the block score are stored' % ext_))
    wname = tl.nm(call_args(sp[0])[1])
    wv, tv = ex_.vec[wname], ex_.vec[tnew]
    TTm = {('M' if tkey == 'Mt' else 'Mt', TT): ONE}       # blocks x objects
    if not vdot(wv, wv).same(ONE):
        probs.append((Ri, 'weight-unit', 'the super weight does not have unit length: w\'w = %r' % vdot(wv, wv)))
    if not proportional(wv, ex_.prod(TTm, t0, False), ex_.defs):
        probs.append((Ri, 'weight', 'the super weight is %s, not proportional to T\' t = %s' % (vshow(wv)[:160], vshow(ex_.prod(TTm, t0, False))[:160])))
    if not vsame(tv, ex_.prod(TTm, wv, True)):
        probs.append((Ri, 'super-score', 'the new super score is %s, not (block-score table) x (super weight) = %s for the table and weight that are kept' %
                      (vshow(tv)[:160], vshow(ex_.prod(TTm, wv, True))[:160])))
    # ---- the way out ---------------------------------------------------------------------------------------------------
    aps = [a for a in getattr(ex_, 'appends', []) if a[0].endswith('->block_scores')]
    if len(aps) != 1 or not msame(aps[0][2], {(tkey, TT): ONE}):
        probs.append((Rc, 'store:block_scores', 'the block-score table appended to the model is %s, not the transpose of the table of this pass' %
                      (mshow(aps[0][2]) if aps else 'missing')))
    for field, src, val in (('super_scores', tnew, tv), ('super_weights', wname, wv)):
        cs = [c for c in ex_.colstores if c[0].endswith('->' + field)]
        if len(cs) != 1 or cs[0][2] != src or not vsame(cs[0][3], val) or cs[0][1].startswith('@') or cs[0][4].startswith('from '):
            probs.append((Rc, 'store:' + field, 'model->%s is not filled, whole, from the final %s: %s' % (field, src, [(c[0], c[1], c[2], c[4]) for c in cs])))
    bl = [c for c in ex_.colstores if '->block_loadings[' in c[0]]
    p_want = vscale(ex_.prod(E0, tv, True), ONE / vdot(tv, tv))
    if len(bl) != 1 or not bl[0][0].endswith('->block_loadings[%s]' % k):
        probs.append((Rc, 'store:block_loadings', 'the block loading of block %s is not stored in model->block_loadings[%s]: %s' % (k, k, [(c[0], c[1]) for c in bl])))
    else:
        if leaks(bl[0][3]):
            probs.append((Rc, 'loading-reset', 'the stored block loading contains what the previous block left in the work vector: %s' % vshow(bl[0][3])[:160]))
        elif not vsame(bl[0][3], p_want):
            probs.append((Rc, 'loading', 'the stored block loading is %s, not Eb[%s]\' t_new / t_new\'t_new = %s' % (vshow(bl[0][3])[:160], k, vshow(p_want)[:160])))
        wantE = dict(E0)
        for ba, ca in tv.items():
            for bb, cb in bl[0][3].items():
                wantE[('outer', ba, bb)] = wantE.get(('outer', ba, bb), ZERO) - ca * cb
        wantE = {kk: vv for kk, vv in wantE.items() if not vv.is_zero()}
        if not msame(ex_.mat[blk], wantE):
            probs.append((Rc, 'deflation', 'block %s is left as %s, not Eb[%s] - t_new (stored loading)\' = %s' % (k, mshow(ex_.mat[blk])[:200], k, mshow(wantE)[:200])))
    tv_ap = [a for a in getattr(ex_, 'appends', []) if a[0].endswith('->total_expvar')]
    ssn = None
    if len(tv_ap) == 1 and tv_ap[0][1] == 's' and tv_ap[0][2] is not None:
        val = tv_ap[0][2]
        ss_atoms = [a for a in val.atoms() if a.startswith('S:') or a in ('ss',)]
        ok = False
        for cand in (vdot(t0, t0), vdot(tv, tv)):
            for a in val.d.atoms():
                pass
        # value = 100 * <s,s> / ss  with ss untracked (an accumulator computed before the loop)
        ok = False
    # total_expvar: read syntactically (ss is an accumulator outside the algebra)
    te = [m for m in walk(loop) if m.get('kind') == 'CallExpr' and callee_name(m) == 'DVectorAppend' and f.unit.text(call_args(m)[0]).replace(' ', '').endswith('->total_expvar')]
    if len(te) != 1:
        probs.append((Rc, 'expvar', 'the total explained variance is appended %d times per component' % len(te)))
    else:
        txt = f.unit.text(call_args(te[0])[1]).replace(' ', '')
        import re
        mm = re.match(r'^\(?\(?(\w+)/(\w+)\)\*100\.?0?\)?$', txt)
        if not mm:
            probs.append((Rc, 'expvar', 'the total explained variance is `%s`, not (squared norm of the super score) / ss * 100' % txt))
        else:
            num, ssn = mm.group(1), mm.group(2)
            nv = ex_.sc.get(num)
            if nv is None or not (nv.same(vdot(t0, t0)) or nv.same(vdot(tv, tv))):
                probs.append((Rc, 'expvar', 'the numerator `%s` of the total explained variance is %r, not the squared norm of the last (or last but one) super score' % (num, nv)))
    # the way round
    if not vsame(lv_.vec[tname], tv):
        probs.append((Rc, 'carry', 'when the iteration goes round, %s is %s, not the new super score' % (tname, vshow(lv_.vec[tname])[:160])))
    for st_ in (ex_, lv_):
        report_partial(chk, Ri, f, st_, 'iteration')
        report_thresholds(chk, Rc, f, st_)
    seen = set()
    if not [p_ for p_ in probs if p_[0] == Ri]:
        chk.instance(Ri, '%s CPCA (generic block %s): t_b = Eb[%s] unit(Eb[%s]\' t) / sf_%s -> row %s of %s; w = unit(%s t); t_new = %s\' w' % (where, k, k, k, k, k, TT, TT, TT))
    if not [p_ for p_ in probs if p_[0] == Rc]:
        chk.instance(Rc, '%s CPCA: block_scores += %s\'; super_scores[:, pc] = t_new; super_weights[:, pc] = w; block_loadings[%s][:, pc] = Eb[%s]\' t_new / t_new\'t_new; '
                     'Eb[%s] -= t_new loading\'; total_expvar = t\'t / %s * 100; t <- t_new on the way round' % (where, TT, k, k, k, ssn))
    for rule, key, msg in probs:
        chk.instance(rule, '%s CPCA: %s' % (where, msg), 'refuted')
        chk.violation(Finding(rule, rel(f.file), f.name, key, where, 'CPCA: ' + msg))
    chk.extra.setdefault('cpca', {})['generic_block_loops'] = sorted(set(getattr(ex_, 'generic_loops', [])))
    return ssn, blk


def exec_paths_skip(state, stmts, skip_calls):
    """exec_paths, with statements that only serve the per-block explained-variance bookkeeping (heavy matrix products) left out"""
    orig_stmt = CTail.stmt

    def filt(self, s0):
        s = strip(s0)
        if s.get('kind') == 'CallExpr' and callee_name(s) in skip_calls:
            return
        if s.get('kind') == 'CallExpr' and callee_name(s) in ('NewMatrix', 'MatrixTranspose', 'DelMatrix') and \
                any('Eb_T' in self.f.unit.text(x) for x in call_args(s)):
            return
        if s.get('kind') == 'CallExpr' and callee_name(s) in ('NewDVector', 'DelDVector') and any('local_blockvexp' in self.f.unit.text(x) for x in call_args(s)):
            return
        if s.get('kind') == 'BinaryOperator' and s.get('opcode') == '=' and 'local_blockvexp' in self.f.unit.text(kids(s)[0]):
            return
        return orig_stmt(self, s0)
    CTail.stmt = filt
    try:
        return exec_paths(state, stmts)
    finally:
        CTail.stmt = orig_stmt


def scaling(chk, prog, ssn, blk):
    R = chk.rule('CPCA.scaling', 'the block scaling factor is sqrt(number of variables of the block), appended to the model in block order; ss is the sum of '
                 'the squares of every preprocessed cell divided by the factor of its block, taken before the first component')
    f = prog.funcs.get('CPCA')
    A = Poly.atom
    pn = [p['name'] for p in f.params]
    ok = True
    aps = [n for n in walk(f.body) if n.get('kind') == 'CallExpr' and callee_name(n) == 'DVectorAppend' and
           f.unit.text(call_args(n)[0]).replace(' ', '').endswith('->scaling_factor')]
    if len(aps) != 1:
        chk.broke('CPCA: %d appends to model->scaling_factor' % len(aps))
        return
    ap = aps[0]
    # the enclosing loop over the blocks and the definition of the appended value
    encl = None
    for n in walk(f.body):
        if n.get('kind') == 'ForStmt' and any(m is ap for m in walk(n)):
            encl = n
            break
    val = strip(call_args(ap)[1])
    txt = None
    if val.get('kind') == 'DeclRefExpr' and encl is not None:
        for d in walk(encl):
            if d.get('kind') == 'VarDecl' and d.get('name') == val['referencedDecl'].get('name') and kids(d):
                txt = f.unit.text(kids(d)[-1]).replace(' ', '')
    else:
        txt = f.unit.text(val).replace(' ', '')
    hdr = f.unit.text(encl).split(')')[0].replace(' ', '') if encl is not None else ''
    import re
    mh = re.match(r'^for\((\w+)=0;\1<(\w+)->order;', hdr)
    var = mh.group(1) if mh else None
    want = 'sqrt((double)%s->m[%s]->col)' % (pn[0], var) if var else None
    alt = 'sqrt(%s->m[%s]->col)' % (pn[0], var) if var else None
    if var is None or txt not in (want, alt, (want or '').replace(pn[0] + '->', 'Eb->'), (alt or '').replace(pn[0] + '->', 'Eb->')):
        ok = False
        chk.instance(R, '%s CPCA: the scaling factor appended for a block is `%s` under `%s`' % (f.unit.where(ap), txt, hdr), 'refuted')
        chk.violation(Finding('CPCA.scaling', rel(f.file), f.name, 'factor', f.unit.where(ap),
                              'CPCA: the scaling factor recorded for a block is `%s` (loop `%s`), not sqrt(number of variables of that block) for every block in order' % (txt, hdr)))
    else:
        chk.instance(R, '%s CPCA: scaling_factor[%s] = %s for every block in order' % (f.unit.where(ap), var, txt))
    # ss
    top = [strip(s) for s in kids(f.body)]
    ex = Extractor(prog, f)
    ex.locals_ok = True
    ex.acc = {}
    seen_loop = None
    try:
        for s in top:
            if s.get('kind') == 'BinaryOperator' and s.get('opcode') == '=' and f.unit.text(kids(s)[0]).strip() == ssn:
                ex.stmt(s, [], {}, {})
            if s.get('kind') == 'ForStmt' and any(m.get('kind') == 'CompoundAssignOperator' and f.unit.text(kids(m)[0]).strip() == ssn for m in walk(s)):
                ex.stmt(s, [], {}, {})
                seen_loop = s
    except Unsupported as e:
        chk.broke('CPCA: the accumulation of %s is not understood: %s' % (ssn, e))
        return
    terms = ex.acc.get(ssn) if ssn else None
    if not terms or seen_loop is None:
        chk.broke('CPCA: no accumulation of the total sum of squares `%s` was found' % ssn)
        return
    good = False
    if len(terms) == 1:
        term, lps, node = terms[0]
        if len(lps) == 3 and all(str(l[1]) == '0' and l[3] == 1 for l in lps):
            kv, iv, jv = lps[0][0], lps[1][0], lps[2][0]
            base = blk[:blk.index('[')]
            cellv = A('L:%s[%s][%s][%s]' % (base, kv, iv, jv))
            sfv = A('$3->scaling_factor[%s]' % kv)
            good = term.same(Rat(cellv * cellv, sfv * sfv)) and str(lps[0][2]) in ('$0->order', '%s->order' % base) and \
                str(lps[1][2]) == '%s->m[%s]->row' % (base, kv) and str(lps[2][2]) == '%s->m[%s]->col' % (base, kv)
    pos = {id(s): i for i, s in enumerate(top)}
    comp = [s for s in top if s.get('kind') == 'ForStmt' and any(m.get('kind') == 'WhileStmt' for m in walk(s))]
    pre = [i for i, s in enumerate(top) if any(m.get('kind') == 'CallExpr' and callee_name(m) == 'TensorPreprocess' for m in walk(s))]
    apos = [i for i, s in enumerate(top) if any(m is ap for m in walk(s))]
    order_ok = bool(comp and pre and apos) and pre[0] < pos[id(seen_loop)] < pos[id(comp[0])] and apos[0] < pos[id(seen_loop)]
    if good and order_ok:
        chk.instance(R, '%s CPCA: %s = sum over blocks, rows, columns of (Eb[k][i][j] / scaling_factor[k])^2, after preprocessing and before the first component' %
                     (f.unit.where(seen_loop), ssn))
    else:
        chk.instance(R, '%s CPCA: %s accumulates %s%s' % (f.unit.where(seen_loop), ssn, show_terms(terms), '' if order_ok else ' (at the wrong place)'), 'refuted')
        chk.violation(Finding('CPCA.scaling', rel(f.file), f.name, 'ss', f.unit.where(seen_loop),
                              'CPCA: the total sum of squares `%s` is accumulated as %s%s; expected (cell / scaling factor of its block)^2 over every cell of every '
                              'preprocessed block, before any deflation' % (ssn, show_terms(terms), '' if order_ok else ', at the wrong place')))
    # preprocessing hand-over
    pc_ = [n for n in walk(f.body) if n.get('kind') == 'CallExpr' and callee_name(n) == 'TensorPreprocess']
    if len(pc_) == 1:
        a = [f.unit.text(x).replace(' ', '') for x in call_args(pc_[0])]
        base = blk[:blk.index('[')]
        if a[:4] == [pn[0], pn[1], '%s->colaverage' % pn[3], '%s->colscaling' % pn[3]] and a[4] == base:
            chk.instance(R, '%s CPCA: TensorPreprocess(%s)' % (f.unit.where(pc_[0]), ', '.join(a)))
        else:
            chk.instance(R, '%s CPCA: TensorPreprocess(%s)' % (f.unit.where(pc_[0]), ', '.join(a)), 'refuted')
            chk.violation(Finding('CPCA.scaling', rel(f.file), f.name, 'preprocess', f.unit.where(pc_[0]),
                                  'CPCA: TensorPreprocess(%s) does not centre/scale the input into model->colaverage / model->colscaling and the working tensor %s' % (', '.join(a), base)))
    else:
        chk.broke('CPCA: %d TensorPreprocess calls' % len(pc_))


def predictor(chk, prog):
    R = chk.rule('CPCA.score-predictor', 'CPCAScorePredictor for a generic component pc and block k: p_b = unit(stored loading[k][:, pc]); t_b = Eb[k] p_b / sf_k from '
                 'zero, column k of the table; super score = table x stored weights[:, pc], stored as column pc; the table appended; Eb[k] -= s_t (stored loading)\'')
    f = prog.funcs.get('CPCAScorePredictor')
    if f is None or f.body is None:
        chk.broke('CPCAScorePredictor not found')
        return
    outer = None
    for n in walk(f.body):
        if n.get('kind') == 'ForStmt' and any(m.get('kind') == 'CallExpr' and callee_name(m) == 'TensorAppendMatrix' for m in walk(n)):
            outer = n
            break
    if outer is None:
        chk.broke('CPCAScorePredictor: the loop over the components was not found')
        return
    import re
    hdr = f.unit.text(outer).split(')')[0].replace(' ', '')
    pn = [p['name'] for p in f.params]
    mh = re.match(r'^for\((\w+)=0;\1<%s;' % pn[2], hdr)
    tl = CTail(prog, f)
    for n in walk(f.body):
        if n.get('kind') == 'CallExpr' and callee_name(n) == 'NewDVector' and len(call_args(n)) == 2:
            try:
                tl.same_size.setdefault(tl.nm(call_args(n)[0]), set()).add(f.unit.text(call_args(n)[1]).replace(' ', ''))
            except NotUnderstood:
                pass
    prods = [m for m in walk(outer) if m.get('kind') == 'CallExpr' and callee_name(m) == 'MT_MatrixDVectorDotProduct']
    if len(prods) != 2:
        chk.broke('CPCAScorePredictor: expected two products (block score, super score), found %d' % len(prods))
        return
    try:
        blk, pbn, tbn = (tl.nm(x) for x in call_args(prods[0]))
        Tn, wn, stn = (tl.nm(x) for x in call_args(prods[1]))
    except NotUnderstood as e:
        chk.broke('CPCAScorePredictor: %s' % e)
        return
    k = blk[blk.index('[') + 1:-1]
    tl.mat[blk] = {('M', blk): ONE}
    tl.mat[Tn] = {('M', '?stale:' + Tn): ONE}
    for v in (tbn, stn, wn):
        tl.vec[v] = {'?prev:' + v: ONE}
    try:
        live, exits = exec_paths(tl, [kids(outer)[-1]])
    except NotUnderstood as e:
        chk.broke('CPCAScorePredictor: the loop body is not understood: %s' % e)
        return
    if len(live) != 1 or exits:
        chk.broke('CPCAScorePredictor: %d paths / %d breaks through the component loop' % (len(live), len(exits)))
        return
    st = live[0]
    pcv = mh.group(1) if mh else None
    probs = []
    if pcv is None:
        probs.append(('range', 'the components run over `%s`, not from 0 to npc' % hdr))
        pcv = 'pc'
    E0 = {('M', blk): ONE}
    B = '$1->block_loadings[%s][:,%s]' % (k, pcv)
    pb = {B: ONE / N(B)}
    sf = Rat(Poly.atom('$1->scaling_factor[%s]' % k))
    want_tb = vscale(st.prod(E0, pb, False), ONE / sf)
    cols = [ls for ls in st.linestores if ls[0] == Tn]
    if len(cols) != 1 or cols[0][1] != 'col' or cols[0][2] != k:
        probs.append(('table', 'the block scores are not stored as column %s of %s: %s' % (k, Tn, [(x[0], x[1], x[2]) for x in st.linestores])))
    else:
        val_ = cols[0][4]
        if leaks(val_) or any(b.startswith('?prev') for b in val_):
            probs.append(('block-score-reset', 'the block score of block %s still contains an earlier content of %s: %s' % (k, cols[0][3], vshow(val_)[:160])))
        elif not vsame(val_, want_tb):
            probs.append(('block-score', 'the block score of block %s is %s, not Eb[%s] unit(stored loading) / sf_%s = %s' % (k, vshow(val_)[:160], k, k, vshow(want_tb)[:160])))
    wv = st.vec.get(wn, {})
    W = '$1->super_weights[:,%s]' % pcv
    if not vsame(wv, {W: ONE}):
        probs.append(('weight', 'the super weight used is %s, not column %s of the stored super weights' % (vshow(wv)[:160], pcv)))
    sv = st.vec.get(stn, {})
    want_s = st.prod({('M', Tn): ONE}, {W: ONE}, False)
    if not vsame(sv, want_s):
        probs.append(('super-score', 'the super score is %s, not (block-score table) x (stored super weight) = %s' % (vshow(sv)[:160], vshow(want_s)[:160])))
    cs = [c for c in st.colstores if c[0] == '$3']
    if len(cs) != 1 or cs[0][1] != pcv or cs[0][2] != stn or not vsame(cs[0][3], sv) or cs[0][4].startswith('from '):
        probs.append(('store', 'the super score is not stored, whole, as column %s of the result: %s' % (pcv, [(c[0], c[1], c[2], c[4]) for c in cs])))
    aps = [a for a in getattr(st, 'appends', []) if a[0] == pn[4]]
    if len(aps) != 1 or not msame(aps[0][2], {('M', Tn): ONE}):
        probs.append(('append', 'the block-score table of the component is not appended to the block scores of the result'))
    wantE = dict(E0)
    for ba, ca in sv.items():
        wantE[('outer', ba, B)] = ZERO - ca
    if not msame(st.mat[blk], wantE):
        probs.append(('deflation', 'block %s is left as %s, not Eb[%s] - s_t (stored loading)\' = %s' % (k, mshow(st.mat[blk])[:200], k, mshow(wantE)[:200])))
    report_partial(chk, R, f, st, 'one component')
    if not probs:
        chk.instance(R, '%s CPCAScorePredictor (generic component %s, block %s): t_b = Eb[%s] unit(loading[%s][:, %s]) / sf_%s -> column %s of %s; s_t = %s weights[:, %s]; '
                     'result[:, %s] = s_t; Eb[%s] -= s_t loading\'' % (f.unit.where(outer), pcv, k, k, k, pcv, k, k, Tn, Tn, pcv, pcv, k))
    for key, msg in probs:
        chk.instance(R, '%s CPCAScorePredictor: %s' % (f.unit.where(outer), msg), 'refuted')
        chk.violation(Finding('CPCA.score-predictor', rel(f.file), f.name, key, f.unit.where(outer), 'CPCAScorePredictor: ' + msg))


def run(chk, prog):
    for r_ in ('CPCA.block-loadings', 'CPCA.iteration', 'CPCA.component', 'CPCA.scaling', 'CPCA.score-predictor'):
        chk.rule(r_, '')
    if not kernel(chk, prog):
        return
    res = fit(chk, prog)
    if res and res[0]:
        scaling(chk, prog, res[0], res[1])
    predictor(chk, prog)
