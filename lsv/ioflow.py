"""E9 ioflow: persistence write/read agreement (serves C16).
(a) table/codec/field agreement between Write* and Read*; (a') field coverage; (b) stream grammar
agreement of each serialiser/deserialiser pair and emission count == allocated size; (c) truncate
before insert (SQL effects classified from the constant strings that reach sqlite3_exec/prepare);
(d) writer purity; (e) precision of the textual conversion."""
import os
import re

from . import frontend as fe
from .frontend import kids, strip, walk, callee_name, call_args
from . import exprs, flow
from .program import is_assign, is_incdec, lvalue_base
from .report import Finding
from .sym import Poly

KINDS = ['PCA', 'CPCA', 'PLS']
MODEL_STRUCT = {'PCA': 'PCAMODEL', 'CPCA': 'CPCAMODEL', 'PLS': 'PLSMODEL'}
CONTAINER_TYPES = ('matrix *', 'tensor *', 'dvector *', 'dvectorlist *', 'uivector *', 'ivector *', 'strvector *')


def rel(p):
    return os.path.relpath(p, fe.REPO)


# ---------------------------------------------------------------------------------------
# (b) stream grammars

class Codec:
    def __init__(self, f):
        self.f = f
        self.items = None
        self.kind = None          # 'ser' | 'de'
        self.stream = None        # param index of the dvector stream
        self.other = None         # param index of the container
        self.count = None         # Poly: number of emissions (serialiser) in terms of source shape
        self.resize = None        # Poly: argument of DVectorResize on the stream
        self.error = None


def stream_access(n):
    """stream->data[c++]  ->  (stream path, cursor path) or None"""
    n = strip(n)
    if n.get('kind') != 'ArraySubscriptExpr':
        return None
    b, i = kids(n)
    b, i = strip(b), strip(i)
    if b.get('kind') == 'MemberExpr' and b.get('name') == 'data' and i.get('kind') == 'UnaryOperator' \
            and i.get('opcode') == '++' and i.get('isPostfix'):
        return exprs.path_of(kids(b)[0]), exprs.path_of(kids(i)[0])
    return None


def analyse_codec(f):
    c = Codec(f)
    pidx = {'%s#%s' % (p['name'], p['id']): i for i, p in enumerate(f.params)}
    # which parameter is the stream, and is it written or read through the cursor?
    writes, reads = [], []
    for n in walk(f.body):
        if is_assign(n) and n.get('opcode') == '=':
            sa = stream_access(kids(n)[0])
            if sa and sa[0] in pidx:
                writes.append(sa)
    for n in walk(f.body):
        sa = stream_access(n)
        if sa and sa[0] in pidx and sa not in writes:
            reads.append(sa)
    if writes and not reads:
        c.kind, (sp, cur) = 'ser', writes[0]
    elif reads and not writes:
        c.kind, (sp, cur) = 'de', reads[0]
    else:
        return None
    c.stream = pidx[sp]
    others = [i for i in range(len(f.params)) if i != c.stream]
    c.other = others[0] if others else None
    depth_of = {}          # loop var path -> depth
    headers = {}           # key -> header id
    alias = {}             # path -> header id   (mx->row after ResizeMatrix(mx, h0, h1); v->size after NewDVector(&v,h))
    items = []

    def norm(e):
        """structural key of an expression with loop variables replaced by their depth"""
        k = exprs.text_key(e)
        for lv, d in sorted(depth_of.items(), key=lambda kv: -len(kv[0])):
            k = re.sub(r'\b%s\b' % re.escape(lv.split('#')[0]), '@%d' % d, k)
        return k

    def subs_pattern(e):
        """loop depths used as subscripts, outermost subscript first"""
        pat = []
        def rec(x):
            x = strip(x)
            if x.get('kind') == 'ArraySubscriptExpr':
                b, i = kids(x)
                rec(b)
                p = exprs.path_of(i)
                pat.append(depth_of.get(p, '?'))
            elif x.get('kind') == 'MemberExpr':
                rec(kids(x)[0])
        rec(e)
        return tuple(pat)

    def header_ref(e):
        e = strip(e)
        p = exprs.path_of(e)
        if p in alias:
            return ('h', alias[p])
        k = norm(e)
        if k in headers:
            return ('h', headers[k])
        return None

    def walk_stmt(s, out):
        if s is None or not s.get('kind'):
            return
        k = s['kind']
        if k == 'CompoundStmt':
            for x in kids(s):
                walk_stmt(x, out)
            return
        if k in flow.LOOPS:
            init, cond, inc, body = flow.loop_parts(s)
            ind = flow.induction(s)
            inner = []
            if ind:
                depth_of[ind['var']] = len([1 for _ in depth_of])
                bound = header_ref(ind['bound_expr'])
                walk_stmt(body, inner)
                del depth_of[ind['var']]
                if inner:
                    if ind['init'] != Poly.const(0) or ind['step'] != Poly.const(1) or ind['op'] != '<':
                        out.append(('loop', 'irregular', tuple(inner)))
                    else:
                        out.append(('loop', bound or ('count', norm(ind['bound_expr']) if c.kind == 'ser' else 'until-end'), tuple(inner)))
            else:
                dummy = '<uncounted-loop-%d>' % len(depth_of)
                depth_of[dummy] = len(depth_of)
                walk_stmt(body, inner)
                del depth_of[dummy]
                if inner:
                    # while(cursor < stream->size): consume until the stream is exhausted
                    cj = exprs.conjuncts(cond, True) if cond is not None else []
                    # exactly  cursor < stream->size  (canonical: cursor - size + 1 <= 0); `cursor + 1 < size` would drop a trailing
                    # one-item record (an empty vector at the end of a list)
                    until_end = any(cc[0] == '<=0' and cc[1] == Poly.atom(cur) - Poly.atom(sp + '->size') + 1 for cc in cj)
                    out.append(('loop', ('count', 'until-end') if until_end else 'irregular', tuple(inner)))
            return
        if k == 'IfStmt':
            out.append(('conditional',))
            return
        # expression statements / declarations: look for emissions / consumptions in evaluation order
        for x in walk(s):
            if c.kind == 'ser' and is_assign(x) and stream_access(kids(x)[0]):
                rhs = kids(x)[1]
                if '->data[' in exprs.text_key(rhs).replace(exprs.text_key(rhs).split('->data[')[0], '', 0) and strip(rhs).get('kind') == 'ArraySubscriptExpr':
                    out.append(('D', subs_pattern(rhs)))
                else:
                    hid = len(headers)
                    headers[norm(rhs)] = hid
                    out.append(('H', hid))
            if c.kind == 'de':
                if x.get('kind') == 'VarDecl' and kids(x) and stream_access(kids(x)[-1]):
                    hid = len(headers)
                    headers['#%d' % hid] = hid
                    alias['%s#%s' % (x['name'], x['id'])] = hid
                    out.append(('H', hid))
                elif is_assign(x) and stream_access(kids(x)[1]):
                    l = strip(kids(x)[0])
                    if l.get('kind') == 'ArraySubscriptExpr':
                        out.append(('D', subs_pattern(l)))
                    else:
                        hid = len(headers)
                        headers['#%d' % hid] = hid
                        alias[exprs.path_of(l)] = hid
                        out.append(('H', hid))
                elif x.get('kind') == 'CallExpr':
                    cn = callee_name(x)
                    a = call_args(x)
                    hs = []
                    for arg in a:
                        if stream_access(arg):
                            hid = len(headers)
                            headers['#%d' % hid] = hid
                            out.append(('H', hid))
                            hs.append(hid)
                        else:
                            r = header_ref(arg)
                            hs.append(r[1] if r else None)
                    tgt = None
                    if a:
                        t = strip(a[0])
                        if t.get('kind') == 'UnaryOperator' and t.get('opcode') == '&':
                            t = strip(kids(t)[0])
                        tgt = exprs.path_of(t)
                    if cn in ('ResizeMatrix', 'NewMatrix') and tgt and len(hs) >= 3:
                        if hs[1] is not None:
                            alias[tgt + '->row'] = hs[1]
                        if hs[2] is not None:
                            alias[tgt + '->col'] = hs[2]
                    if cn in ('NewDVector', 'DVectorResize') and tgt and len(hs) >= 2 and hs[1] is not None:
                        alias[tgt + '->size'] = hs[1]
            if x.get('kind') == 'CallExpr' and callee_name(x) == 'DVectorResize' and c.kind == 'ser':
                a = call_args(x)
                if exprs.path_of(a[0]) == sp:
                    c.resize = a[1]
    walk_stmt(f.body, items)
    c.items = tuple(items)
    return c


def canon_items(items, depth=0):
    """make the two sides comparable: ('count', <source extent>) on the writer side matches ('count','until-end');
    a data index pattern that is increasing and ends at the innermost enclosing loop is 'seq' (row-major order of the
    enclosing nest, however many of the outer indices are explicit: a reader that appends fresh vectors has none)."""
    out = []
    for it in items:
        if it[0] == 'D':
            pat = it[1]
            regular = all(isinstance(x, int) for x in pat) and list(pat) == sorted(set(pat)) and pat and pat[-1] == depth - 1
            out.append(('D', ('seq',) if regular else pat))
            continue
        if it[0] == 'loop':
            b = it[1]
            if isinstance(b, tuple) and b[0] == 'count':
                b = ('count',)
            out.append(('loop', b, canon_items(it[2], depth + 1)))
        else:
            out.append(it)
    return tuple(out)


def emission_count(c, f):
    """number of emissions of a serialiser as a polynomial over source extents, using its own loops"""
    def cnt(items, mult):
        tot = Poly.const(0)
        for it in items:
            if it[0] in ('H', 'D'):
                tot = tot + mult
            elif it[0] == 'loop':
                tot = tot + cnt(it[2], mult * Poly.atom('N%s' % repr(it[1])))
        return tot
    return cnt(c.items, Poly.const(1))


def grammar_str(items):
    parts = []
    for it in items:
        if it[0] == 'H':
            parts.append('h%d' % it[1])
        elif it[0] == 'D':
            parts.append('data[%s]' % ','.join(map(str, it[1])))
        elif it[0] == 'loop':
            b = it[1]
            bs = 'h%d' % b[1] if isinstance(b, tuple) and b[0] == 'h' else ('*' if isinstance(b, tuple) else str(b))
            parts.append('(%s)^%s' % (grammar_str(it[2]), bs))
        else:
            parts.append(str(it[0]))
    return ' '.join(parts)


def check_resize(chk, R, c):
    """the serialiser's DVectorResize argument equals the number of emissions.  Verified structurally:
    the resize argument is a constant header count plus, per loop level, (headers + product of inner extents)."""
    f = c.f
    if c.resize is None:
        return 'serialiser never sizes the stream'
    # count emissions symbolically: bind each loop to the extent expression text it iterates over
    pm = flow.parent_map(f.body)
    total = Poly.const(0)
    ok = True
    for n in walk(f.body):
        if is_assign(n) and stream_access(kids(n)[0]):
            mult = Poly.const(1)
            for lp in flow.enclosing_loops(pm, n):
                ind = flow.induction(lp)
                if not ind:
                    return 'emission inside an uncounted loop'
                b = ind['bound'] - ind['init']
                mult = mult * b
            total = total + mult
    want = exprs.to_poly(c.resize)
    # resize may be an accumulated local (tot_size): accept when it is a local summed in a loop over the same outer extent
    if want == total:
        return None
    rs = strip(c.resize)
    if rs.get('kind') == 'DeclRefExpr':
        # tot_size = K; for(k..) tot_size += per_k;  =>  K + sum per_k ; compare with emissions: constants + outer-loop terms
        vid = rs['referencedDecl']['id']
        base = None
        per = None
        loopvar = None
        for n in walk(f.body):
            if n.get('kind') == 'VarDecl' and n.get('id') == vid and kids(n):
                base = exprs.to_poly(kids(n)[-1])
            if n.get('kind') == 'CompoundAssignOperator' and n.get('opcode') == '+=' and fe.ref_id(kids(n)[0]) == vid:
                per = exprs.to_poly(kids(n)[1])
                lps = flow.enclosing_loops(pm, n)
                if lps:
                    ind = flow.induction(lps[0])
                    loopvar = ind['var'] if ind else None
                    outer = ind['bound'] if ind else None
        if base is not None and per is not None and loopvar:
            # emissions: those outside loops (constant) + those inside the outermost loop (per iteration)
            const_part = Poly.const(0)
            per_part = Poly.const(0)
            for n in walk(f.body):
                if is_assign(n) and stream_access(kids(n)[0]):
                    lps = list(reversed(flow.enclosing_loops(pm, n)))
                    if not lps:
                        const_part = const_part + 1
                    else:
                        mult = Poly.const(1)
                        for lp in lps[1:]:
                            ind = flow.induction(lp)
                            mult = mult * (ind['bound'] - ind['init'])
                        ind0 = flow.induction(lps[0])
                        # rename the emission loop's variable to the sizing loop's variable
                        mult = mult.subst({ind0['var']: Poly.atom(loopvar)})
                        per_part = per_part + mult
                        if ind0['bound'] != outer:
                            return 'sizing loop and emission loop iterate over different extents'
            if base == const_part and per == per_part:
                return None
            return 'allocated %s + sum(%s) cells but emits %s + sum(%s)' % (base, per, const_part, per_part)
    return 'allocated %s cells but emits %s' % (want, total)


# ---------------------------------------------------------------------------------------
# (c) SQL effects

def sql_effects(prog, f, depth=0, _seen=None):
    """ordered [(kind, tableref, node)] with kind in CREATE/INSERT/DROP/DELETE/SELECT/OTHER;
    tableref: '*', ('param', i), ('lit', name).  Loops are flattened in source order."""
    _seen = _seen or set()
    if f in _seen:
        return []
    _seen = _seen | {f}
    pidx = {p['id']: i for i, p in enumerate(f.params)}
    # buffers: var id -> (format literal, args) from snprintf(buf, n, "lit", ...) or initialiser literal
    fmts = {}
    eff = []
    for n in walk(f.body):
        if n.get('kind') == 'VarDecl' and kids(n):
            s = strip(kids(n)[-1])
            if s.get('kind') == 'StringLiteral':
                fmts[n['id']] = (s['value'], [])
        if n.get('kind') != 'CallExpr':
            continue
        cn = callee_name(n)
        a = call_args(n)
        if cn == 'snprintf' and len(a) >= 3:
            t = strip(a[0])
            s = strip(a[2])
            if t.get('kind') == 'DeclRefExpr' and s.get('kind') == 'StringLiteral':
                fmts[t['referencedDecl']['id']] = (s['value'], a[3:])
        elif cn in ('sqlite3_exec', 'sqlite3_prepare_v2', 'sqlite3_prepare') and len(a) >= 2:
            t = strip(a[1])
            lit, args = None, []
            if t.get('kind') == 'StringLiteral':
                lit = t['value']
            elif t.get('kind') == 'DeclRefExpr' and t['referencedDecl']['id'] in fmts:
                lit, args = fmts[t['referencedDecl']['id']]
            if lit is None:
                eff.append(('OTHER', '*', n, ''))
                continue
            text = lit.strip('"').strip()
            kw = text.split()[0].upper() if text.split() else 'OTHER'
            tref = '*'
            m = re.search(r'(?:TABLE(?:\s+IF\s+(?:NOT\s+)?EXISTS)?|INTO|FROM)\s+(%s|[A-Za-z_][A-Za-z_0-9]*)', text, re.I)
            if m:
                if m.group(1) == '%s':
                    # which vararg fills the first %s
                    convs = re.findall(r'%[-+ #0]*\d*(?:\.\d+)?[a-zA-Z]', text)
                    pos = [i for i, cv in enumerate(convs) if cv == '%s']
                    if pos and pos[0] < len(args):
                        pid = fe.ref_id(args[pos[0]])
                        tref = ('param', pidx[pid]) if pid in pidx else '*'
                else:
                    tref = ('lit', m.group(1))
            if kw == 'SELECT':
                # a generated-statement query is destructive only if a callback executes its rows
                cb = strip(a[2]) if len(a) > 2 and cn == 'sqlite3_exec' else {}
                has_cb = cb.get('kind') == 'DeclRefExpr'
                runs = False
                if has_cb:
                    g = prog.resolve(f, cb['referencedDecl']['name'])
                    runs = g is not None and any(c2 in ('sqlite3_exec', 'sqlite3_prepare_v2') for c2, _ in g.calls)
                if 'DROP TABLE' in text.upper() and runs:
                    eff.append(('DROP', '*', n, text))
                else:
                    eff.append(('SELECT', tref, n, text))
            else:
                eff.append((kw, tref, n, text))
        elif cn and depth < 4:
            g = prog.resolve(f, cn)
            if g is not None and g.body is not None:
                for (k, tr, node, text) in sql_effects(prog, g, depth + 1, _seen):
                    if isinstance(tr, tuple) and tr[0] == 'param':
                        if tr[1] < len(a):
                            s = strip(a[tr[1]])
                            if s.get('kind') == 'StringLiteral':
                                tr = ('lit', s['value'].strip('"'))
                            elif fe.ref_id(s) in pidx:
                                tr = ('param', pidx[fe.ref_id(s)])
                            else:
                                tr = '*?'
                    eff.append((k, tr, n, text))
    eff.sort(key=lambda e: (fe.begin(e[2]) or {}).get('offset', 0))
    return eff


# ---------------------------------------------------------------------------------------

def sql_buffer_rule(chk, prog, R):
    """every SQL statement is built into a buffer that can hold it: either sized from snprintf(NULL, 0, ...) of the same
    format, or a fixed array at least as long as the longest expansion (string arguments bounded by the literals at the call sites)"""
    for f in prog.all_funcs():
        if f.unit.name != 'io.c':
            continue
        pidx = {p['id']: i for i, p in enumerate(f.params)}
        # longest literal passed for each char* parameter over all call sites in the program
        maxlit = {}
        for g in prog.all_funcs():
            for cn, node in g.calls:
                if cn == f.name:
                    for i, a in enumerate(call_args(node)):
                        sa = strip(a)
                        if sa.get('kind') == 'StringLiteral':
                            ln = len(sa['value'].strip('"'))
                            if ln >= maxlit.get(i, (0, ''))[0]:
                                maxlit[i] = (ln, sa['value'].strip('"'))
        for n in walk(f.body):
            if n.get('kind') != 'CallExpr' or callee_name(n) != 'snprintf':
                continue
            a = call_args(n)
            if len(a) < 3:
                continue
            buf, size, fmt = strip(a[0]), a[1], strip(a[2])
            if fmt.get('kind') != 'StringLiteral' or fe.int_value(buf) == 0:
                continue
            text = fmt['value'].strip('"')
            if not re.match(r'\s*(CREATE|INSERT|DROP|DELETE|SELECT|UPDATE)', text, re.I):
                continue
            bt = (buf.get('type') or {}).get('qualType', '') if buf.get('kind') == 'DeclRefExpr' else ''
            bdecl = f.unit.by_id.get(buf['referencedDecl']['id']) if buf.get('kind') == 'DeclRefExpr' else None
            bqt = ((bdecl or {}).get('type') or {}).get('qualType', '')
            m = re.search(r'\[(\d+)\]', bqt)
            desc = '%s %s: snprintf(%s, ..., "%s")' % (f.unit.where(n), f.name, f.unit.text(a[0])[:20], text[:40])
            if not m:
                # heap buffer: must be allocated from the measured length of the same format
                measured = any(x.get('kind') == 'CallExpr' and callee_name(x) == 'snprintf' and fe.int_value(call_args(x)[0]) == 0 and
                               strip(call_args(x)[2]).get('value') == fmt['value'] for x in walk(f.body))
                if measured:
                    chk.instance(R, desc + ': buffer sized from the measured length of the same format')
                else:
                    chk.instance(R, desc + ': buffer size not derived from the statement length', 'undecided')
                continue
            cap = int(m.group(1))
            need = len(re.sub(r'%[-+ #0]*\d*(?:\.\d+)?l?[a-zA-Z]', '', text))
            args = a[3:]
            convs = re.findall(r'%[-+ #0]*\d*(?:\.\d+)?l?([a-zA-Z])', text)
            worst = None
            unbounded = False
            for cv, arg in zip(convs, args):
                if cv == 's':
                    pid = fe.ref_id(arg)
                    if pid in pidx and pidx[pid] in maxlit:
                        need += maxlit[pidx[pid]][0]
                        worst = maxlit[pidx[pid]][1]
                    elif strip(arg).get('kind') == 'StringLiteral':
                        need += len(strip(arg)['value'].strip('"'))
                    else:
                        unbounded = True
                elif cv in 'fFeEgG':
                    need += 330       # %f of a double may need > 300 characters
                else:
                    need += 20
            if unbounded:
                chk.instance(R, desc + ': fixed buffer of %d bytes with an unbounded string argument' % cap, 'undecided')
            elif need + 1 > cap:
                chk.instance(R, desc + ': needs %d bytes, buffer has %d' % (need + 1, cap), 'refuted')
                chk.violation(Finding('IO.sql-buffer', rel(f.file), f.name, 'buffer:' + text[:30], f.unit.where(n),
                                      '%s builds the statement "%s" into a fixed buffer of %d bytes, but it needs %d bytes for the table name '
                                      '"%s" used by a caller: the statement is truncated (snprintf) and silently acts on another table name'
                                      % (f.name, text, cap, need + 1, worst)))
            else:
                chk.instance(R, desc + ': fixed buffer of %d bytes holds the longest expansion (%d)' % (cap, need + 1))


def writes_through_param(prog, f, _active=None, cache={}):
    """indices of pointer parameters through which f (transitively) stores"""
    if f in cache:
        return cache[f]
    _active = _active or set()
    if f in _active:
        return set()
    _active = _active | {f}
    pidx = {p['id']: i for i, p in enumerate(f.params)}
    out = set()
    for n in walk(f.body):
        tgt = None
        if is_assign(n) or is_incdec(n):
            tgt = kids(n)[0]
        if tgt is not None:
            root, through = lvalue_base(tgt)
            if root and root.get('id') in pidx and through:
                out.add(pidx[root['id']])
    for cn, node in f.calls:
        g = prog.resolve(f, cn)
        if g is None or g.body is None:
            if cn in ('memcpy', 'memset', 'strcpy', 'snprintf', 'sprintf', 'free', 'xfree'):
                a = call_args(node)
                if a:
                    root, _ = lvalue_base(a[0])
                    if root and root.get('id') in pidx:
                        out.add(pidx[root['id']])
            continue
        gm = writes_through_param(prog, g, _active)
        a = call_args(node)
        for j in gm:
            if j < len(a):
                root, _ = lvalue_base(a[j])
                if root and root.get('id') in pidx:
                    out.add(pidx[root['id']])
    cache[f] = out
    return out


def table_flow(prog, f, kind):
    """[(table literal, codec function or None, model field, node)] for a Write*/Read* function"""
    out = []
    model = None
    for p in f.params:
        if MODEL_STRUCT[kind] in (p.get('type') or {}).get('qualType', ''):
            model = p['id']
    if model is None:
        raise fe.AnalysisBroken('%s has no %s parameter' % (f.name, MODEL_STRUCT[kind]))
    calls = sorted(f.calls, key=lambda c: (fe.begin(c[1]) or {}).get('offset', 0))
    prim = 'write' if f.name.startswith('Write') else 'read'

    def field_of(e):
        e = strip(e)
        if e.get('kind') == 'MemberExpr' and fe.ref_id(kids(e)[0]) == model:
            return e['name']
        return None
    for i, (cn, node) in enumerate(calls):
        g = prog.resolve(f, cn)
        if g is None or g.body is None:
            continue
        eff = [e[0] for e in sql_effects(prog, g)]
        is_prim = ('INSERT' in eff) if prim == 'write' else ('SELECT' in eff and len(g.params) >= 3)
        if not is_prim or g.name in ('DropAllTables',):
            continue
        a = call_args(node)
        lits = [strip(x) for x in a if strip(x).get('kind') == 'StringLiteral']
        if not lits:
            continue
        table = lits[0]['value'].strip('"')
        vec = a[-1]
        fld = field_of(vec)
        if fld:
            out.append((table, None, fld, node))
            continue
        vid = fe.ref_id(vec)
        # the codec call on the same local: before (write) or after (read) this call, nearest
        rng = range(i - 1, -1, -1) if prim == 'write' else range(i + 1, len(calls))
        found = None
        for j in rng:
            cn2, n2 = calls[j]
            a2 = call_args(n2)
            if any(fe.ref_id(x) == vid for x in a2) and any(field_of(x) for x in a2):
                found = (cn2, [field_of(x) for x in a2 if field_of(x)][0])
                break
            if any(fe.ref_id(x) == vid for x in a2) and cn2 and (cn2.startswith('init') or cn2.startswith('Del') or cn2.startswith('New')):
                if prim == 'write' and j < i:
                    break
                if prim == 'read' and cn2.startswith('Del'):
                    break
        if found:
            out.append((table, found[0], found[1], node))
        else:
            out.append((table, '?', None, node))
    return out


def run(chk, prog):
    Ra = chk.rule('IO.tables', 'each model kind: the multiset of (table, codec grammar, model field) written equals the one '
                  'read, and every container-typed field of the model struct is persisted')
    Rb = chk.rule('IO.grammar', 'each serialiser and the deserialiser used for the same table agree on the stream grammar '
                  '(header order, loop nest, bounds, index pattern) and the serialiser allocates exactly the cells it emits')
    Rc = chk.rule('IO.truncate', 'on every path of a Write* routine a destructive statement (DROP TABLE / DELETE FROM that is '
                  'actually executed) on table T precedes the first INSERT into T')
    Rd = chk.rule('IO.pure-writer', 'Write* and its callees never store through the model parameter')
    Re = chk.rule('IO.precision', 'values are bound through a placeholder or formatted with >= 15 fractional (%f) / >= 17 '
                  'significant (%e,%g) digits')
    Rs = chk.rule('IO.sql-buffer', 'every SQL statement is formatted into a buffer that holds its longest expansion (sized from the '
                  'measured length, or a fixed array checked against the longest table name any caller passes)')
    unit = prog.units.get('io.c')
    if unit is None:
        raise fe.AnalysisBroken('io.c not loaded')
    sql_buffer_rule(chk, prog, Rs)
    Rl = chk.rule('IO.lock-lifetime', 'no lock on the model file outlives the Read*/Write* call that took it: a connection-lifetime lock '
                  '(PRAGMA locking_mode=EXCLUSIVE, uncommitted EXCLUSIVE/IMMEDIATE transaction) is never combined with a statement that may stay '
                  'unfinalized when the connection is closed')
    lock_lifetime_rule(chk, prog, Rl)
    codecs = {}
    for f in prog.all_funcs():
        if f.unit.name == 'io.c':
            c = analyse_codec(f)
            if c is not None and c.items:
                codecs[f.name] = c
    chk.extra['codecs'] = {n: grammar_str(canon_items(c.items)) for n, c in codecs.items()}
    if len(codecs) < 6:
        chk.broke('only %d stream codecs recognised in io.c, floor 6' % len(codecs))
    for name, c in sorted(codecs.items()):
        if c.kind == 'ser':
            why = check_resize(chk, Rb, c)
            if why:
                chk.instance(Rb, '%s: %s' % (name, why), 'refuted')
                chk.violation(Finding('IO.grammar', rel(c.f.file), name, 'resize', c.f.where,
                                      'serialiser %s: %s' % (name, why)))
            else:
                chk.instance(Rb, '%s: allocated cells == emitted cells; grammar %s' % (name, grammar_str(canon_items(c.items))))
    ntables = {}
    for kind in KINDS:
        w, r = prog.funcs.get('Write' + kind), prog.funcs.get('Read' + kind)
        if w is None or r is None:
            chk.broke('Write%s/Read%s not found' % (kind, kind))
            continue
        wt, rt = table_flow(prog, w, kind), table_flow(prog, r, kind)
        ntables[kind] = (len(wt), len(rt))
        wd = {}
        for (t, c, fld, node) in wt:
            wd.setdefault(t, []).append((c, fld, node))
        rd = {}
        for (t, c, fld, node) in rt:
            rd.setdefault(t, []).append((c, fld, node))
        for t in sorted(set(wd) | set(rd)):
            ws, rs = wd.get(t, []), rd.get(t, [])
            if len(ws) != 1 or len(rs) != 1:
                side = w if len(ws) != 1 else r
                node = (ws or rs)[0][2]
                chk.instance(Ra, '%s table %s: written %d time(s), read %d time(s)' % (kind, t, len(ws), len(rs)), 'refuted')
                chk.violation(Finding('IO.tables', rel(w.file), (w if ws else r).name, 'table:' + t, (w if ws else r).unit.where(node),
                                      '%s model: table "%s" is written %d time(s) and read %d time(s)' % (kind, t, len(ws), len(rs))))
                continue
            (wc, wf, wn), (rc, rf, rn) = ws[0], rs[0]
            if wf != rf:
                chk.instance(Ra, '%s table %s: field %s written, %s read' % (kind, t, wf, rf), 'refuted')
                chk.violation(Finding('IO.tables', rel(r.file), r.name, 'field:' + t, r.unit.where(rn),
                                      '%s model: table "%s" is written from field %s but read into field %s' % (kind, t, wf, rf)))
                continue
            if (wc is None) != (rc is None):
                chk.instance(Ra, '%s table %s: codec %s vs %s' % (kind, t, wc, rc), 'refuted')
                chk.violation(Finding('IO.tables', rel(r.file), r.name, 'codec:' + t, r.unit.where(rn),
                                      '%s model: table "%s" is written %s but read %s' % (
                                          kind, t, 'raw' if wc is None else 'through ' + wc, 'raw' if rc is None else 'through ' + rc)))
                continue
            if wc is not None:
                cw, cr = codecs.get(wc), codecs.get(rc)
                if cw is None or cr is None:
                    chk.broke('codec %s or %s of table %s is not a recognised stream codec' % (wc, rc, t))
                    continue
                gw, gr = canon_items(cw.items), canon_items(cr.items)
                wtyp = (cw.f.params[cw.other].get('type') or {}).get('qualType')
                rtyp = (cr.f.params[cr.other].get('type') or {}).get('qualType')
                if gw != gr or wtyp != rtyp:
                    chk.instance(Rb, '%s table %s: %s writes %s, %s reads %s' % (kind, t, wc, grammar_str(gw), rc, grammar_str(gr)), 'refuted')
                    chk.violation(Finding('IO.grammar', rel(cr.f.file), rc, 'grammar:%s' % wc, cr.f.where,
                                          'table "%s" of the %s model: %s(%s) emits `%s` but %s(%s) consumes `%s`' % (
                                              t, kind, wc, wtyp, grammar_str(gw), rc, rtyp, grammar_str(gr))))
                    continue
                chk.instance(Rb, '%s table %s: %s / %s agree on `%s`' % (kind, t, wc, rc, grammar_str(gw)))
            chk.instance(Ra, '%s table %s <-> field %s (%s)' % (kind, t, wf, 'vector' if wc is None else wc))
        # (a') field coverage
        st = None
        for u in prog.units.values():
            td = u.typedefs.get(MODEL_STRUCT[kind])
            if td:
                for cnode in walk(td):
                    if cnode.get('kind') == 'RecordType' and cnode.get('decl', {}).get('id') in u.records:
                        st = u.records[cnode['decl']['id']]
                if st is None:
                    # ElaboratedType -> RecordType decl id
                    for rid, rdecl in u.records.items():
                        pass
            if st:
                break
        if st is None:
            chk.broke('struct %s not found' % MODEL_STRUCT[kind])
        else:
            persisted = {fld for (t, c, fld, node) in wt}
            if not wt:
                # no table write of this model was recognised at all (the writer routine has another shape): the engine is blind, not the model unpersisted
                chk.broke('%s: no table write call site of %s was recognised; field coverage is not decided' % (kind, w.name))
            for fd in ([] if not wt else [x for x in st.get('inner', []) if x.get('kind') == 'FieldDecl']):
                ty = (fd.get('type') or {}).get('qualType', '')
                if ty in CONTAINER_TYPES:
                    if fd['name'] in persisted:
                        chk.instance(Ra, '%s.%s (%s) is persisted' % (MODEL_STRUCT[kind], fd['name'], ty))
                    elif any(x.get('kind') == 'MemberExpr' and x.get('name') == fd['name'] for x in walk(w.body)):
                        # the writer does touch the field, only not at a call site the engine reads (a table of {name, field} pairs, say)
                        chk.instance(Ra, '%s.%s (%s) is used by %s in a form that is not understood' % (MODEL_STRUCT[kind], fd['name'], ty, w.name), 'undecided')
                        chk.broke('%s: field %s.%s is mentioned by the writer but not at a recognised table-write call site; whether it is persisted is '
                                  'not decided' % (w.name, MODEL_STRUCT[kind], fd['name']))
                    else:
                        chk.instance(Ra, '%s.%s (%s) is not persisted' % (MODEL_STRUCT[kind], fd['name'], ty), 'refuted')
                        chk.violation(Finding('IO.tables', rel(w.file), w.name, 'unpersisted:' + fd['name'], w.where,
                                              'field %s.%s (%s) is neither written by %s nor read by %s: it reads back empty' % (
                                                  MODEL_STRUCT[kind], fd['name'], ty, w.name, r.name)))
        # (c) truncate before insert
        eff = sql_effects(prog, w)
        dropped = set()
        reported = set()
        unread = False
        for (k, tr, node, text) in eff:
            if k in ('DROP', 'DELETE'):
                dropped.add('*' if tr == '*' else tr)
            if k == 'OTHER':
                unread = True       # SQL text the classifier cannot read (built from a table of templates, say) may well be the DROP
            if k == 'INSERT':
                ok = '*' in dropped or tr in dropped
                tn = tr[1] if isinstance(tr, tuple) else str(tr)
                if ok:
                    chk.instance(Rc, '%s: INSERT into %s preceded by a destructive statement' % (w.name, tn))
                elif unread:
                    chk.instance(Rc, '%s: INSERT into %s preceded by SQL text that is not understood' % (w.name, tn), 'undecided')
                    if w.name not in reported:
                        reported.add(w.name)
                        chk.broke('%s: a statement whose SQL text is not a readable constant is executed before the INSERT into "%s"; '
                                  'whether it empties the table is not decided' % (w.name, tn))
                else:
                    chk.instance(Rc, '%s: INSERT into %s with no preceding DROP/DELETE' % (w.name, tn), 'refuted')
                    if w.name not in reported:
                        reported.add(w.name)
                        chk.violation(Finding('IO.truncate', rel(w.file), w.name, 'append', w.unit.where(node),
                                              '%s inserts into table "%s" (and %d more) without first emptying it: a second write to the '
                                              'same path appends; executed SQL before the insert: %s' % (
                                                  w.name, tn, sum(1 for e in eff if e[0] == 'INSERT') - 1,
                                                  [e[0] for e in eff[:eff.index((k, tr, node, text))]][:4])))
        # (d) purity
        mi = [i for i, p in enumerate(w.params) if MODEL_STRUCT[kind] in (p.get('type') or {}).get('qualType', '')][0]
        if mi in writes_through_param(prog, w):
            chk.instance(Rd, '%s stores through its model parameter' % w.name, 'refuted')
            chk.violation(Finding('IO.pure-writer', rel(w.file), w.name, 'impure', w.where,
                                  '%s (or a callee) stores through the model parameter: writing modifies the in-memory model' % w.name))
        else:
            chk.instance(Rd, '%s and callees: no store through the model parameter' % w.name)
    chk.extra['tables'] = ntables
    # (e) precision of INSERT formatting
    for f in prog.all_funcs():
        if f.unit.name != 'io.c':
            continue
        for (k, tr, node, text) in sql_effects(prog, f, depth=99):
            if k != 'INSERT':
                continue
            convs = re.findall(r'%[-+ #0]*\d*(?:\.(\d+))?l?([fFeEgG])', text)
            if '?' in text and not convs:
                chk.instance(Re, '%s: value bound through a placeholder' % f.name)
                continue
            for prec, cv in convs:
                p = int(prec) if prec else 6
                need = 15 if cv in 'fF' else (16 if cv in 'eE' else 17)
                if p >= need:
                    chk.instance(Re, '%s: %%.%d%s' % (f.name, p, cv))
                else:
                    chk.instance(Re, '%s: %%.%d%s keeps too few digits' % (f.name, p, cv), 'refuted')
                    chk.violation(Finding('IO.precision', rel(f.file), f.name, 'format', f.unit.where(node),
                                          'INSERT formats the value with %%.%d%s: fewer than the %d digits needed for 1e-15*max(1,|v|)' % (p, cv, need)))
    return ntables


def lock_lifetime_rule(chk, prog, R):
    """SQLite semantics used: sqlite3_close() does not close a connection that still owns an unfinalized statement, and
    `PRAGMA locking_mode = EXCLUSIVE` (or an EXCLUSIVE/IMMEDIATE transaction that is never committed) keeps the file lock until the
    connection is really closed.  Either alone is harmless for C16; together a read leaves the file locked and every later write
    to that path in the same process fails silently, so the file keeps the OLD model."""
    unit_funcs = [f for f in prog.all_funcs() if f.unit.name == 'io.c' and f.body is not None]
    # (1) statements that may reach the end of their function unfinalized
    leaky = []
    for f in unit_funcs:
        prepared = []
        for n in walk(f.body):
            if n.get('kind') == 'CallExpr' and callee_name(n) in ('sqlite3_prepare_v2', 'sqlite3_prepare', 'sqlite3_prepare_v3'):
                a = call_args(n)
                s_ = strip(a[3]) if len(a) > 3 else None
                if s_ is not None and s_.get('kind') == 'UnaryOperator' and s_.get('opcode') == '&':
                    v = strip(kids(s_)[0])
                    if v.get('kind') == 'DeclRefExpr':
                        prepared.append((v['referencedDecl'].get('name'), n))
        for var, node in prepared:
            if not _finalized_on_all_paths(f, var, node):
                leaky.append((f, var, node))
    # (2) requests that make a lock outlive a statement
    holders = []
    for f in unit_funcs:
        for n in walk(f.body):
            if n.get('kind') == 'CallExpr' and callee_name(n) == 'sqlite3_exec':
                for x in walk(n):
                    if x.get('kind') == 'StringLiteral':
                        t = (x.get('value') or '').upper().replace(' ', '')
                        if 'LOCKING_MODE=EXCLUSIVE' in t or 'BEGINEXCLUSIVE' in t or 'BEGINIMMEDIATE' in t:
                            holders.append((f, n, x.get('value')))
    # (1b) an unfinalized statement must at least have been stepped to completion: a SELECT that is left on a row keeps a SHARED lock on
    # the file (and sqlite3_close() refuses to close), so every later write to that path in the same process fails and the file keeps the old model
    for lf, lv, ln in leaky:
        steps = [n for n in walk(lf.body) if n.get('kind') == 'CallExpr' and callee_name(n) == 'sqlite3_step' and any(
            strip(a).get('kind') == 'DeclRefExpr' and strip(a)['referencedDecl'].get('name') == lv for a in call_args(n))]
        if not steps:
            continue
        drained = False
        for n in walk(lf.body):
            if n.get('kind') == 'ForStmt':
                # for (rc = sqlite3_step(s); rc == SQLITE_ROW; rc = sqlite3_step(s)): the same draining loop written as a for
                init_, cond_, inc_, body_ = flow.for_parts(n)
                if init_ is not None and cond_ is not None and inc_ is not None:
                    ct = lf.unit.text(cond_).replace(' ', '')
                    var_ = ct.split('==SQLITE_ROW')[0] if ct.endswith('==SQLITE_ROW') and '&&' not in ct and '||' not in ct else None
                    def steps_into(x):
                        x0 = strip(x)
                        return x0.get('kind') == 'BinaryOperator' and x0.get('opcode') == '=' and lf.unit.text(kids(x0)[0]).replace(' ', '') == var_ and \
                            any(any(m is st_ for m in walk(kids(x0)[1])) for st_ in steps)
                    if var_ and steps_into(init_) and steps_into(inc_) and not any(m.get('kind') in ('BreakStmt', 'ContinueStmt') for m in walk(body_)):
                        drained = True
            if n.get('kind') in ('WhileStmt', 'DoStmt'):
                cond = kids(n)[0] if n.get('kind') == 'WhileStmt' else kids(n)[-1]
                ct = lf.unit.text(cond).replace(' ', '')
                if any(any(m is st_ for m in walk(cond)) for st_ in steps) and '==SQLITE_ROW' in ct and '&&' not in ct and '||' not in ct:
                    # while ((rc = sqlite3_step(stmt)) == SQLITE_ROW): left only when the statement has run to its end (or failed); no break inside
                    if not any(m.get('kind') == 'BreakStmt' for m in walk(kids(n)[-1] if n.get('kind') == 'WhileStmt' else kids(n)[0])):
                        drained = True
        has_fin = any(n.get('kind') == 'CallExpr' and callee_name(n) == 'sqlite3_finalize' and any(
            strip(a).get('kind') == 'DeclRefExpr' and strip(a)['referencedDecl'].get('name') == lv for a in call_args(n)) for n in walk(lf.body))
        in_cond = any(n.get('kind') == 'IfStmt' and any(m is ln for m in walk(kids(n)[0])) for n in walk(lf.body))
        if not drained and has_fin and in_cond:
            # finalized on some paths (typically inside `if (prepare == SQLITE_OK)`, where the other path has no statement): not decided here
            chk.instance(R, '%s %s: statement `%s` is finalized on some paths only; whether the remaining paths hold a live statement is not decided' %
                         (lf.unit.where(ln), lf.name, lv), 'undecided')
            continue
        counted = any(n.get('kind') == 'ForStmt' and flow.induction(n) is not None and any(any(m is st_ for m in walk(n)) for st_ in steps)
                      for n in walk(lf.body))
        if not counted:
            # `for (i = 0; i < n && sqlite3_step(s) == SQLITE_ROW; i++)`: a second conjunct can end the loop while the statement is still on a row
            for n in walk(lf.body):
                if n.get('kind') in ('ForStmt', 'WhileStmt'):
                    cond_ = flow.for_parts(n)[1] if n.get('kind') == 'ForStmt' else kids(n)[0]
                    if cond_ is not None and any(any(m is st_ for m in walk(cond_)) for st_ in steps) and '&&' in lf.unit.text(cond_):
                        counted = True
        if not drained and not counted:
            chk.instance(R, '%s %s: statement `%s` is not finalized and the loop that steps it has a shape that is not recognised: not decided' %
                         (lf.unit.where(ln), lf.name, lv), 'undecided')
            continue
        if drained:
            chk.instance(R, '%s %s: statement `%s` is not finalized but is stepped until it returns something other than SQLITE_ROW' % (lf.unit.where(ln), lf.name, lv))
        else:
            chk.instance(R, '%s %s: statement `%s` is neither finalized nor stepped to completion' % (lf.unit.where(ln), lf.name, lv), 'refuted')
            chk.violation(Finding('IO.lock-lifetime', rel(lf.file), lf.name, 'undrained:' + lv, lf.unit.where(ln),
                                  '%s can return with statement `%s` neither finalized nor stepped until sqlite3_step() stops returning SQLITE_ROW: a SELECT left on a '
                                  'row keeps a SHARED lock on the file and keeps the connection open (sqlite3_close() returns BUSY), so after a read every later '
                                  'write to that path in the same process fails with "database is locked" and the file keeps the previously written model' % (lf.name, lv)))
    chk.extra['sqlite_unfinalized_statements'] = ['%s %s (%s)' % (f.unit.where(n), f.name, v) for f, v, n in leaky]
    if not holders:
        chk.instance(R, 'no connection-lifetime lock is requested (%d statement(s) may stay unfinalized at close: harmless without one)' % len(leaky))
        return
    for f, n, txt in holders:
        if leaky:
            lf, lv, ln = leaky[0]
            chk.instance(R, '%s %s requests %s while %s leaves statement `%s` unfinalized' % (f.unit.where(n), f.name, txt, lf.name, lv), 'refuted')
            chk.violation(Finding('IO.lock-lifetime', rel(f.file), f.name, 'lock:' + (txt or '')[:40], f.unit.where(n),
                                  '%s requests a lock that lasts until the connection is closed (%s), but %s (%s) can return with statement `%s` '
                                  'still unfinalized, so sqlite3_close() does not close that connection: after a read the file stays locked and '
                                  'every later write to the same path fails, the file keeps the previously written model'
                                  % (f.name, txt, lf.name, lf.unit.where(ln), lv)))
        else:
            chk.instance(R, '%s %s requests %s; every statement is finalized before close' % (f.unit.where(n), f.name, txt))


def _finalized_on_all_paths(f, var, prep):
    """structured must-analysis: after the prepare call, does every path to the end of the function pass sqlite3_finalize(var) or abort()?"""
    def is_fin(n):
        return n.get('kind') == 'CallExpr' and callee_name(n) in ('sqlite3_finalize',) and any(
            strip(a).get('kind') == 'DeclRefExpr' and strip(a)['referencedDecl'].get('name') == var for a in call_args(n))

    def is_abort(n):
        return n.get('kind') == 'CallExpr' and callee_name(n) in ('abort', 'exit')

    state = {'seen': False}

    def stmt(n, fin):
        """returns (fin_after, terminated)"""
        k = n.get('kind')
        if k == 'CompoundStmt':
            for c in kids(n):
                fin, term = stmt(c, fin)
                if term:
                    return fin, True
            return fin, False
        if k == 'IfStmt':
            ks = kids(n)
            f0, _ = stmt(ks[0], fin)
            f1, t1 = stmt(ks[1], f0)
            f2, t2 = stmt(ks[2], f0) if len(ks) > 2 else (f0, False)
            if t1 and t2:
                return True, True
            if t1:
                return f2, False
            if t2:
                return f1, False
            return (f1 and f2), False
        if k in ('ForStmt', 'WhileStmt', 'DoStmt'):
            for c in kids(n):
                if c.get('kind'):
                    f_in, _ = stmt(c, fin)
                    # a finalize inside a loop body does not count after the loop (zero trips) unless the prepare is inside too
                    if state['seen'] and any(x is prep for x in walk(n)):
                        fin = f_in
            return fin, False
        if k == 'ReturnStmt':
            if state['seen'] and not fin:
                state['leak'] = True
            return fin, True
        # expression statement
        for x in walk(n):
            if x is prep:
                state['seen'] = True
                fin = False
            elif state['seen'] and is_fin(x):
                fin = True
            elif is_abort(x):
                return True, True
        return fin, False
    fin, term = stmt(f.body, True)
    if state.get('leak'):
        return False
    return fin or not state['seen']
