"""Per-property drivers: which engines/rules decide which property."""
import os
from . import frontend as fe


def c20(chk, thorough):
    from . import abi
    chk.explanation = (
        'Decides C20 in full for the current tree: every ctypes.Structure in src/python_bindings/libscientific/*.py '
        'against the C typedef struct it mirrors (field count, positional type, offset, size under LP64) and every '
        'lsci.<f>.argtypes/restype against the installed-header prototype, by generated compile-fail witnesses '
        '(redeclaration with the claimed signature; _Static_assert on sizeof/offsetof/__builtin_types_compatible_p) '
        'checked by clang -fsyntax-only; call sites by positional arity; existence by header prototype + LLVM-IR '
        '`define` in a compiled unit. Field names are compared but a name-only difference is informational.')
    chk.assumptions = ['LP64 data model (the only one the pinned build targets)',
                       'ctypes default restype is int when none is assigned',
                       'Python type expressions are literal ctypes constructors (anything else => ANALYSIS-BROKEN)']
    abi.run(chk, thorough)
    chk.extra['exhaustive'] = True
    chk.floor('abi.struct', 10 * 3)
    chk.floor('abi.function', 90)
    chk.floor('abi.callsite', 80)
    if not chk.findings and not chk.broken:
        chk.level = 'proof'


NO_INLINE = ('CalcBlockLoadings',)          # a helper the C09 check treats as a kernel of its own (its body is checked first)


def load_program(chk, names=None, inline=True):
    from .program import Program
    units = fe.load_units(names)
    if inline:
        done = fe.inline_static_helpers(units, exclude=NO_INLINE)
        if done:
            chk.extra['inlined_static_helpers'] = {u: ['%s <- %s (line %s)' % x for x in v] for u, v in done.items()}
    chk.units = sorted(units)
    prog = Program(units)
    chk.functions = len(list(prog.all_funcs()))
    return prog


def c06(chk, thorough):
    from . import threads
    chk.explanation = (
        'Decides the race / seeding / join clauses of C06: (T1) no function reachable from any thread entry writes a '
        'non-thread-local, non-atomic global outside a mutex region; (W1) the RNG state is touched only by the RNG API; '
        '(T2) every RNG draw in a worker is dominated, inside that worker, by srand_ with a seed derived from the worker '
        'argument; (T3) every dispatch region joins exactly the threads it created, after creating them, before freeing '
        'or reading their arguments; (T8) seeding entry functions are started only through pthread_create; (T5) the bootstrap seed is schedule-invariant (same coefficient for worker index and '
        'batch counter, no dependence on the thread count). NOT decided: bit-identity of floating results, rounding-level '
        'equality of averages across thread counts, OS scheduling.')
    chk.assumptions = ['pthread_create/pthread_join are the only thread primitives (re-checked: any other pthread_* call is listed)',
                       'the structured AST is the CFG (no goto/switch; re-checked per analysed function)']
    prog = load_program(chk, inline=False)   # whole-program call graph is cross-checked against the LLVM IR
    ents = threads.thread_entries(prog)
    chk.extra['thread_entries'] = sorted(ents)
    chk.extra['pthread_create_sites'] = len(prog.thread_creates())
    if len(ents) < 15:
        chk.broke('only %d thread entries found, floor 15' % len(ents))
    if len(prog.thread_creates()) < 21:
        chk.broke('only %d pthread_create sites found, floor 21' % len(prog.thread_creates()))
    threads.t1(chk, prog, ents)
    threads.who_may_touch(chk, prog)
    threads.t2(chk, prog, ents)
    nreg = threads.t3(chk, prog)
    chk.extra['dispatch_regions'] = nreg
    threads.t5(chk, prog)
    from . import slices
    sliced = {ent for (_, _, _, ent, _) in slices.dispatch_sites(prog)}
    threads.t4(chk, prog, exempt_entries=sliced)
    chk.floor('T4.argument-privacy', 8)
    threads.t6(chk, prog)
    threads.t7(chk, prog)
    threads.t8(chk, prog)
    chk.floor('T8.entry-only-as-thread', 4)
    chk.floor('T7.batch-divides', 2)
    chk.floor('T6.fresh-accumulators', 8)
    if thorough:
        from . import irscan
        irscan.cross_check(chk, prog, sorted(prog.units))
    chk.floor('T1.shared-state', 15)
    chk.floor('T3.create-join', 13)
    chk.floor('T2.seeded-before-use', 4)
    chk.floor('T5.seed-schedule', 4)
    chk.floor('W1.rng-state-owner', 1)


def c18(chk, thorough):
    from . import loopterm
    chk.explanation = (
        'Decides the termination clause of C18: every loop in every function reachable (direct calls and address-taken '
        'thread entries) from PCA, PLS, CPCA, KMeans, NelderMeadSimplex, the three cross-validation drivers and the MLR '
        'workers has a counter/cap/consuming certificate; self-recursion has a decreasing measure. Loops whose only exits '
        'are floating-point comparisons are violations. One structural condition of "the first component is defined whenever it exists": '
        '(DG.mean-of-centred) no selection (NIPALS start vector) is driven by the column mean of a matrix that is column-centred -- such means '
        'are zero by construction. NOT decided: finiteness of the leading components in general, zero (not NaN) variance beyond the rank, '
        'the identities on the defined components.')
    chk.assumptions = ['thread counts are >= 1 (stated precondition "thread counts 1..8"): loops stepping by nthreads advance',
                       'containers are not aliased under two different variable names inside one loop',
                       'unsigned wrap-around of a counter is not a termination argument and is not modelled']
    prog = load_program(chk, inline=False)   # whole-program call graph is cross-checked against the LLVM IR
    n = loopterm.run(chk, prog)
    if thorough:
        from . import irscan
        irscan.cross_check(chk, prog, sorted(prog.units))
    from . import degenerate
    degenerate.run(chk, prog, {'pls.c', 'pca.c', 'cpca.c', 'upca.c', 'upls.c', 'preprocessing.c', 'epls.c', 'lda.c', 'mlr.c'})
    chk.floor('DG.mean-of-centred', 1)
    degenerate.null_components(chk, prog)
    chk.floor('DG.null-component', 3)
    if n < 400:
        chk.broke('only %d loops reachable from the C18 roots, floor 400' % n)
    if chk.extra.get('reachable_functions', 0) < 120:
        chk.broke('only %d functions reachable from the C18 roots, floor 120' % chk.extra.get('reachable_functions', 0))


def c03(chk, thorough):
    from . import layout
    chk.explanation = (
        'Decides the column-layout clause of C03 ("recalculation residuals equal recalculated minus observed response, column '
        'by column, for every response and every a"): index-role typing over PLS, PLSYPredictor, PLSYPredictorAllLV and the two '
        'PLS statistics functions: every q*A-column matrix is produced LV-major (column = q*lv + j), every subscript of a '
        'dimension of role q / A / q*A is an index over the same role, composed columns use multiplier q, decomposed columns '
        'divide by q. Re-projection clause, structural part only: PLSScorePredictor preprocesses with MatrixPreprocess on the model fields the '
        'fit filled (RP.same-stats), and the fit and apply branches of MatrixPreprocess perform every centre/scale/zero store under the same '
        'guards with the same tolerances (FA.agree, G.zero-divisor) -- a necessary condition for the training x-scores to be reproduced. '
        'NOT decided: score/weight orthogonality, the deflation arithmetic of the re-projection, the values of b t q^T.')
    chk.assumptions = ['role seeds: struct-field identities and public parameter positions listed in lsv/layout.py (DESIGN.md Appendix A)']
    prog = load_program(chk, ['pls.c'])
    nc, nd = layout.run(chk, prog, {'pls.c': layout.FUNCTIONS['pls.c']})
    chk.floor('LY.subscript', 30)
    chk.floor('LY.append', 1)
    if nc < 3:
        chk.broke('only %d composing column sites in pls.c, floor 3' % nc)
    if nd < 1:
        chk.broke('no decomposing column site in pls.c (the residual loop), floor 1')
    # re-projection clause, structural part: the predictor re-applies the transform the fit applied
    from . import guards
    prog2 = load_program(chk, ['pls.c', 'preprocessing.c', 'matrix.c', 'vector.c'])
    guards.zero_divisor(chk, prog2, {'preprocessing.c'})
    guards.fit_apply_agreement(chk, prog2)
    guards.scaling_tests(chk, prog2, {'preprocessing.c', 'pls.c'})
    guards.reprojection_stats(chk, prog2)
    pls_funcs = [f_.name for f_ in prog2.all_funcs() if f_.unit.name == 'pls.c' and f_.body is not None]
    guards.kernel_tolerances(chk, prog2, {'pls.c': pls_funcs}, table={}, rule='FIT.tolerance',
                             what='PLS fitting / prediction code (scores, loadings, weights and their norms scale with the data)')
    from . import accum
    accum.run(chk, prog2, {'matrix.c', 'vector.c'}, {'pls.c'})
    chk.floor('ACC.zeroed', 8)
    chk.floor('FA.agree', 3)
    chk.floor('RP.same-stats', 1)


def c05(chk, thorough):
    from . import cv, threads, layout
    chk.explanation = (
        'Decides the structural clauses of C05: (CV1) every CV routine dispatches a worker for every learner its siblings '
        'dispatch; (T3) every created thread is joined and vice versa; (CV3) the split code is a partition by control '
        'dependence (train under "!= selector", test under "== selector", same source row) in kfold_group_train_test_split and '
        'in the leave-one-out copy loop; (CV2) the held-out selector is the value that places the prediction; (CV4) in all 8 '
        'workers the fit sees only training x/y, the predictor only test x, test y reaches neither; (CV6) the random group '
        'generator stores only ids that left the rejection loop as "not present" and has >= nobj cells; (LY) residual = '
        'prediction - matching response column. NOT decided: equality with a model refitted through the public API, '
        'finiteness of predictions, that the group matrix content is a permutation, averaging arithmetic.')
    chk.explanation += (' (T6) per-worker prediction accumulators are fresh for every batch of bootstrap iterations.')
    chk.assumptions = ['train/test/selector roles are derived from the control dependence of kfold_group_train_test_split itself',
                       'fit entry points are PLS/MLR/EPLS/LDA with (x, y) as first two arguments']
    prog = load_program(chk, ['modelvalidation.c', 'pls.c'])
    ents = threads.thread_entries(prog)
    cv.cv1(chk, prog)
    threads.t3(chk, prog, only_funcs=set(cv.CV_ROUTINES))
    roles = cv.derive_split_roles(chk, prog)
    if roles is not None:
        fields = cv.cv4(chk, prog, roles, ents)
        loo_sel = cv.cv3_inline_loo(chk, prog, fields)
        cv.cv2(chk, prog, roles, fields, loo_sel)
    cv.cv6(chk, prog)
    cv.cv7(chk, prog)
    chk.floor('CV7.mean-divisor', 4)
    threads.t6(chk, prog)          # the value reported by bootstrap CV is the mean of per-iteration predictions: accumulators are fresh per batch
    layout.run(chk, prog, {'modelvalidation.c': layout.FUNCTIONS['modelvalidation.c']})
    chk.floor('CV1.dispatch', 12)
    chk.floor('T3.create-join', 3)
    chk.floor('CV3.partition', 6)
    chk.floor('CV4.no-leak', 8)
    chk.floor('CV2.held-out-index', 6)
    chk.floor('CV6.fresh-id', 2)
    chk.floor('LY.decompose', 3)


def c16(chk, thorough):
    from . import ioflow
    chk.explanation = (
        'Decides the structural clauses of C16: (a) for PCA/CPCA/PLS the tables written and read agree on (table name, codec, '
        'model field) and every container field of the model struct is persisted; (b) each serialiser/deserialiser pair agrees '
        'on the stream grammar and the serialiser allocates exactly what it emits; (c) history clause: every Write* empties a '
        'table before inserting into it (SQL effects classified from the constant strings reaching sqlite3_exec/prepare); '
        '(d) writing never stores through the model; (e) the textual conversion keeps >= 15 fractional digits. NOT decided: '
        'SQLite internals, text->double rounding, prediction equality after reload.')
    chk.explanation += (' Also: SQL text is built in storage sized from its formatted length (IO.sql-buffer) and no connection-lifetime lock is combined '
                        'with a statement that may stay unfinalized at close (IO.lock-lifetime).')
    chk.assumptions = ['sqlite3_exec/sqlite3_prepare_v2(+step) are the only ways SQL reaches the database',
                       'a SELECT that merely builds statement text is not destructive unless a registered callback executes its rows']
    prog = load_program(chk, ['io.c', 'pca.c', 'cpca.c', 'pls.c', 'vector.c', 'matrix.c', 'tensor.c', 'list.c'], inline=False)   # E9 follows the static (de)serialisers itself
    nt = ioflow.run(chk, prog)
    want = {'PCA': 5, 'CPCA': 9, 'PLS': 30}
    for k, n in want.items():
        if nt.get(k, (0, 0))[0] < n or nt.get(k, (0, 0))[1] < n:
            chk.broke('%s: %s write/read table call sites found, floor %d' % (k, nt.get(k), n))
    chk.floor('IO.grammar', 6)
    chk.floor('IO.truncate', 3)
    chk.floor('IO.pure-writer', 3)
    chk.floor('IO.precision', 1)


def c08(chk, thorough):
    from . import offsets
    chk.explanation = (
        'Decides the label/index and input-relevance clauses of C08: every small integer in LDA, LDAPrediction, LDAError is '
        'abstracted to class index + offset(class_start); comparisons between labels and indices, stores of predicted labels and '
        'subscripts of per-class dimensions must carry the right offset for both numbering conventions (class_start 0 and 1); '
        'LDAMulticlassStatistics (labels from 0) additionally must feed both the true and the predicted labels into the ROC '
        'inputs (dead-input and overwritten-store dataflow rules); the arg-max idiom is seeded from the compared quantity; every '
        'non-constant value appended once per iteration of a loop over the classes depends on the loop index (DF.per-index: no stale '
        'prior/mean/statistic). NOT decided: the numeric value of priors and means, arg-max optimality, affine invariance, AUC = 1.')
    chk.assumptions = ['class_start is 0 or 1 (its only definitions are those two constants; re-derived on every run)',
                       'label containers: LDA/LDAError parameter 1, LDAPrediction parameter 5 and locals bound to it']
    prog = load_program(chk, ['lda.c', 'statistic.c', 'vector.c', 'matrix.c'])
    offsets.run(chk, prog)
    offsets.dead_input(chk, prog, ['LDAMulticlassStatistics', 'LDAError', 'LDAPrediction', 'LDA'])
    offsets.overwritten_store(chk, prog, ['LDAMulticlassStatistics', 'LDAError', 'LDAPrediction', 'LDA'])
    offsets.argmax_rule(chk, prog, ['LDAPrediction'], stored='probability')
    offsets.inversion_failure_test(chk, prog, ['LDA'])
    chk.floor('INV.failure-test', 1)
    offsets.per_index_values(chk, prog, ['LDA', 'LDAPrediction', 'LDAError', 'LDAMulticlassStatistics'])
    chk.floor('DF.per-index', 3)
    offsets.sibling_label_arms(chk, prog, ['LDA', 'LDAPrediction', 'LDAError', 'LDAMulticlassStatistics'])
    chk.floor('OF.sibling-arms', 1)
    # the inverse of the pooled covariance (affine-invariance clause) is built from products that only ADD into their output
    from . import accum
    accum.run(chk, prog, {'matrix.c', 'vector.c'}, {'lda.c', 'matrix.c'})
    chk.floor('ACC.zeroed', 10)
    chk.floor('OF.argmax', 1)
    chk.floor('OF.compare', 6)
    chk.floor('OF.label-sink', 1)
    chk.floor('OF.index-subscript', 8)
    chk.floor('DF.dead-input', 2)


def c10(chk, thorough):
    from . import guards
    chk.explanation = (
        'Decides the guard, missing-value, statistic, dispatch, fit/apply and delegation clauses of C10: (a) every division by a '
        'column-scaling cell is in the false arm of ApproxEq(cell, 0) whose true arm stores exactly 0 (columns without spread become 0, '
        'not NaN/Inf), spread statistics sum squared CENTRED terms (a constant column gives exactly 0); (b) MatrixColAverage/Var/SDEV/RMS '
        'are abstracted to closed forms over the sums of the non-missing cells of a column and equal their definitions in exact '
        'arithmetic (RF.column-statistic), every accumulation under "cell not MISSING" over all rows and columns; MatrixColumnMinMax '
        'reads are guarded likewise; (c) MatrixPreprocess has a distinct explicit arm per option, each arm stores the statistic '
        'promised for that option (1 SD, 2 RMS, 3 sqrt SD, 4 max-min, 5 average) of the input and the centring subtracts '
        'MatrixColAverage of the same matrix (G.option-statistic); (d) the apply branch performs each centre/scale/zero store under '
        'the same guards and tolerances as the fit branch, and every other re-application of stored scalings uses the fit tolerance '
        '(FA.agree, FA.tolerance); (e) TensorPreprocess delegates block by block with the same option. Together these give, in exact '
        'arithmetic, zero column means, the promised column statistic and fit/apply agreement. NOT decided: floating-point rounding of '
        'the transformed values.')
    chk.assumptions = ['ApproxEq is recognised structurally as ((v-e) < x) && (x < (v+e)); MISSING is the literal defined in numeric.h']
    prog = load_program(chk, ['preprocessing.c', 'matrix.c', 'pca.c', 'cpca.c', 'clustering.c', 'vector.c'])
    n = guards.zero_divisor(chk, prog, {'preprocessing.c', 'pca.c', 'cpca.c', 'clustering.c'})
    if n < 3:
        chk.broke('only %d divisions by a column-scaling cell found, floor 3' % n)
    guards.missing_guard(chk, prog, {'matrix.c': guards.STAT_FUNCS['matrix.c']})
    guards.preprocess_options(chk, prog)
    guards.centered_spread(chk, prog, ['MatrixColSDEV', 'MatrixColVar'])
    guards.fit_apply_agreement(chk, prog)
    guards.scaling_tests(chk, prog, {'preprocessing.c', 'pca.c', 'cpca.c', 'clustering.c'})
    chk.floor('G.scaling-test', 6)
    guards.option_statistics(chk, prog)
    from . import reduce
    reduce.run_columns(chk, prog)
    chk.floor('G.option-statistic', 6)
    chk.floor('RF.column-statistic', 4)
    chk.floor('RF.column-guard', 20)
    chk.floor('G.centered-spread', 2)
    chk.floor('G.missing', 5)
    chk.floor('G.options', 7)


def c15(chk, thorough):
    from . import guards, layout
    chk.explanation = (
        'Decides, in exact arithmetic, the formula clause and the missing-value and table-layout clauses of C15: (RF) R2, MSE, RMSE, MAE '
        'and BIAS are abstracted to closed forms over sums taken over the non-missing truths (each accumulation loop contributes the sum '
        'of its term, rewritten by linearity over basis sums so that algebraically equal one-pass/two-pass forms coincide; scalars are '
        'composed symbolically; nothing is executed) and compared with the defining formula by polynomial normalisation; consequences '
        'such as RMSE^2 = MSE, R2 = 1 for perfect prediction, R2 <= 1 and MAE <= RMSE then follow from the formulas. (G) every element '
        'read, counter increment and count divisor is tied to "the truth element is not MISSING"; RMSE is sqrt(MSE) of its own arguments; '
        '(LY) the PLS statistic tables read truth column j and prediction column q*lv+j and store cell (lv, j). NOT decided: '
        'floating-point rounding; every ROC / precision-recall clause (monotonicity, Mann-Whitney equality, invariances).')
    chk.assumptions = ['ApproxEq/MISSING recognised structurally; role seeds of lsv/layout.py']
    prog = load_program(chk, ['statistic.c', 'pls.c', 'mlr.c'])
    guards.missing_guard(chk, prog, {'statistic.c': guards.STAT_FUNCS['statistic.c']})
    guards.rmse_reaches_mse(chk, prog)
    from . import reduce, sorts
    reduce.run(chk, prog)
    progm = load_program(chk, ['statistic.c', 'pls.c', 'mlr.c', 'matrix.c'])
    sorts.run(chk, progm, (('MatrixReverseSort', True),))
    chk.floor('SORT.shape', 1)
    guards.kernel_tolerances(chk, progm, {'statistic.c': ['ROC', 'PrecisionRecall']}, table=guards.CURVE_TOLERANCE_TABLE,
                             what='ROC / precision-recall constructions (scores are compared exactly: the curves depend on their order only)', rule='RC.tolerance')
    chk.floor('RC.tolerance', 4)
    chk.floor('RF.definition', 5)
    chk.floor('RF.centred', 5)
    chk.floor('RF.guard', 15)
    layout.run(chk, prog, {'pls.c': ['PLSRegressionStatistics', 'PLSDiscriminantAnalysisStatistics']})
    chk.floor('G.missing', 4)
    chk.floor('G.rmse', 1)
    chk.floor('LY.subscript', 10)


def c19(chk, thorough):
    from . import dims
    chk.explanation = (
        'Decides, in exact arithmetic, the clauses of C19 that are algebraic relations between statements. (DIM) unit independence: '
        'dimensional homogeneity (units-of-measure inference, dimensions X^a Y^b solved over Q) of cubic_spline_interpolation, '
        'cubic_spline_predict, interpolate and curve_area. (SP) natural spline: every array store is read as a rational function '
        'of symbolic cells with a SYMBOLIC index (no loop is unrolled, nothing is evaluated); the forward loop is recognised as Thomas '
        'elimination with one multiplier per row, the backward loop as its back substitution over a covering range, reads stay inside '
        'the ranges their arrays are defined on and follow the loop direction; then polynomial normalisation decides: interpolation at '
        'both ends of every piece (SP.c0), continuity of the second derivative (SP.c2), that the tridiagonal row solved at knot i is '
        'proportional to the first-derivative jump at knot i (SP.c1), zero second derivative at both ends (SP.natural), exactness on '
        'straight lines (SP.lines), and that the evaluator reads the table as a + b t + c t^2 + d t^3 of the piece whose own range '
        'guard holds (SP.eval, SP.lookup). (AR) trapezoid area: each term is the exact integral of its segment and the area is a plain '
        'sum over all consecutive segments (hence additive). NOT decided: floating-point rounding (conditioning at extreme spacings), '
        'behaviour for non-increasing abscissae. (NM) simplex minimiser, by a pairing typestate over the simplex table: every value stored '
        'in a row is the objective at that row\'s coordinates (NM.pairing), the value returned and the point copied to `best` are row 0 of '
        'an ascending whole-row sort of a fully evaluated table (NM.report, NM.sort), and between sorts only the worst row is replaced or '
        'rows >= 1 shrunk, so the best vertex is never overwritten and the best value never increases from the initial simplex on '
        '(NM.monotone; deterministic objective). NOT decided: convergence on convex quadratics.')
    chk.assumptions = ['seeds: column 0 of xy/interp_xy and the abscissa vector are X, column 1 and the predicted vector are Y',
                       'a numeric literal is dimensionless when added/compared, imposes nothing when stored or used as a factor; 0 is polymorphic',
                       'trusted mathematics: the Thomas algorithm solves the tridiagonal system whose rows it eliminates; a polynomial identity '
                       'in a symbolic index holds at every index; real (not floating-point) arithmetic']
    prog = load_program(chk, ['interpolate.c', 'numeric.c', 'optimization.c', 'matrix.c'])
    an = dims.run(chk, prog)
    from . import spline, simplex
    spline.run(chk, prog)
    simplex.run(chk, prog)
    for r_, fl in (('NM.pairing', 10), ('NM.report', 1), ('NM.monotone', 8), ('NM.sort', 1)):
        chk.floor(r_, fl)
    for r_, fl in (('SP.sweep', 2), ('SP.backsub', 2), ('SP.order', 5), ('SP.defined', 15), ('SP.natural', 4), ('SP.c0', 2), ('SP.c2', 1),
                   ('SP.c1', 1), ('SP.lines', 2), ('SP.eval', 3), ('SP.lookup', 1), ('SP.independent', 1), ('AR.trapezoid', 1), ('AR.sum', 1)):
        chk.floor(r_, fl)
    if an.n_constraints < 60:
        chk.broke('only %d dimension constraints generated, floor 60' % an.n_constraints)
    inf = chk.extra.get('inferred_dimensions', {})
    if inf.get('S[:, 2]') == 'undetermined' and not chk.findings:
        chk.broke('the dimension of the spline coefficient columns could not be inferred')


def c14(chk, thorough):
    from . import strict
    chk.explanation = (
        'Decides the memory-safety / shape-consistency clauses of C14 by induction on the container invariants: each public '
        'container operation of vector.c, list.c, matrix.c, tensor.c (create, resize, copy, append, delete, remove, set, get, '
        'extend, sort) is analysed by symbolic extent abstract interpretation from ANY argument state satisfying the invariants '
        '(operands shorter/equal/longer, arbitrary index arguments): every subscript is in range (PROVED / REFUTED with a shape '
        'witness / UNDECIDED), nothing is used or freed after release, copies are deep, and the invariants hold again at every exit. '
        'So any history of operations stays memory-safe. (S.written) every cell below the counts at exit that lies in storage the '
        'operation itself allocated (xmalloc: nothing defined; xrealloc: the old prefix defined) has been stored to on every path, '
        'through direct stores, stores in loops generalised to index ranges, or setter calls whose write summary is derived from '
        'the callee; REFUTED only with a concrete shape witness, UNDECIDED when a store pattern is not understood. '
        'NOT decided: which value a cell receives (old value preserved / zero), allocator failure, string contents.')
    chk.assumptions = ['container invariants at entry: data holds >= row row pointers of >= col cells; vectors >= size cells; '
                       'tensor/list pointer arrays hold >= order/size valid objects; a null data pointer implies zero counts',
                       'distinct parameters do not alias the same container', 'LP64 (sizeof(double*) == sizeof(double))',
                       'witness domain for shape atoms: 0..%d' % (6 if thorough else 3)]
    prog = load_program(chk, ['vector.c', 'list.c', 'matrix.c', 'tensor.c', 'memwrapper.c'])
    strict.run(chk, prog, dom=4 if thorough else 3)
    from . import copyshape
    copyshape.run(chk, prog)
    chk.floor('CP.block-shapes', 3)
    if chk.extra.get('strict_functions', 0) < 70:
        chk.broke('only %d strict-mode functions found, floor 70' % chk.extra.get('strict_functions', 0))
    chk.floor('S.bounds', 180)
    chk.floor('S.post-invariant', 60)
    chk.floor('S.written', 20)


def c11(chk, thorough):
    from . import contractmode
    chk.explanation = (
        'Decides the all-shapes memory/extent clause of C11: every dense kernel of matrix.c / vector.c / tensor.c (products, outer '
        'product, transpose, trace, norms, covariance, column/row statistics, sorting, tensor contractions) is analysed by symbolic '
        'extent abstract interpretation under its frozen conformability contract (lsv/contracts.json, each entry confirmed by reading) '
        'and its own guards: every subscript is in range for every admitted shape, including empty and non-square ones, and every '
        'internal call establishes its callee\'s contract. Index-role slips (m[j][i], a row bound on a column loop, a missing +1) are '
        'refuted by a small non-square witness. NOT decided: the numeric value of any kernel, algebraic laws, ordering by key, coverage '
        'of the inner dimension by the unrolled loop plus tail.')
    chk.explanation += (' Also: MatrixSort/MatrixReverseSort exchange whole rows exactly when a plain strict key comparison finds them out of order '
                        '(SORT.shape), no kernel applies an absolute tolerance to a data-scaled quantity outside the confirmed sites (K.tolerance), and '
                        '(K.definition) 15 kernels (matrix-vector, vector-matrix, matrix-matrix plain and unrolled, outer product, transpose, trace, norms, '
                        'dot product, vector sum/difference, three tensor contractions) are abstracted with symbolic loop indices to a cell form '
                        '(output index, term, index domain) that is unified with the textbook definition up to a renaming of the loop indices; the '
                        'unrolled product is merged with its remainder loop after checking the shifted-term identity and the two ranges.')
    chk.assumptions = ['contracts of lsv/contracts.json', 'distinct parameters do not alias', 'LP64']
    prog = load_program(chk, ['vector.c', 'list.c', 'matrix.c', 'tensor.c', 'memwrapper.c', 'numeric.c'])
    contractmode.run(chk, prog, contractmode.C11_FUNCS, dom=4 if thorough else 3)
    from . import sorts, guards
    sorts.run(chk, prog)
    chk.floor('SORT.shape', 2)
    guards.kernel_tolerances(chk, prog, contractmode.C11_FUNCS)
    chk.floor('K.tolerance', 5)
    from . import kerneldef
    kerneldef.run(chk, prog)
    chk.floor('K.definition', 16)
    if chk.extra.get('kernels', 0) < 45:
        chk.broke('only %d kernels analysed, floor 45' % chk.extra.get('kernels', 0))
    chk.floor('K.bounds', 300)


def c12(chk, thorough):
    from . import contractmode, guards
    chk.explanation = (
        'Decides the pivot-guard and buffer-extent clauses of C12: (E7c) in the elimination routines every division by a diagonal '
        'element of the working matrix is dominated by a test of that element or preceded, within the same pivot iteration, by a store '
        'into the pivot row (any row-exchange scheme) -- "divides by whatever is on the diagonal" fails; (E1) in the LAPACK wrappers '
        '(MatrixLUInversion, SVDlapack + conv2matrix, EVectEval) and the solvers every raw-buffer and matrix subscript is within the '
        'allocated extent for square and rectangular shapes under the recorded contracts; (E15) the product kernels only ADD into their '
        'output (derived from their stores), so at every call in matrix.c/vector.c/tensor.c/algebra.c (pseudo-inverse, least squares, '
        'covariance, ...) the output container must have been zeroed on every path since it was last written (ACC.zeroed) -- otherwise the '
        'solver returns old content + solution; (E17) the pseudo-inverse and least-squares routines are read as sequences of kernel calls over '
        'symbolic matrices: on every path to a return the output is (A\'A)^-1 A\' resp. (X\'X)^-1 X\'y (MX.definition), and MatrixPseudoinversion, '
        'which returns U S^-1 V\', is only ever handed a Gram matrix (MX.symmetric-arg). NOT decided: M M^-1 = I and the Penrose conditions as '
        'numeric statements, A v = lambda v, reconstruction.')
    chk.assumptions = ['contracts of lsv/contracts.json', 'LAPACK routines write only within the documented sizes of their arguments']
    prog = load_program(chk, ['vector.c', 'list.c', 'matrix.c', 'tensor.c', 'memwrapper.c', 'numeric.c', 'algebra.c'])
    contractmode.run(chk, prog, contractmode.C12_FUNCS, dom=4 if thorough else 3)
    guards.pivot_guard(chk, prog, {'matrix.c': ['MatrixInversion'], 'algebra.c': ['SolveLSE']})
    import os
    from .report import VERIF
    guards.magnitude_rule(chk, prog, {'matrix.c': contractmode.C12_FUNCS['matrix.c'], 'algebra.c': contractmode.C12_FUNCS['algebra.c']},
                          control=os.path.join(VERIF, 'controls', 'magnitude.c'))
    from . import accum
    accum.run(chk, prog, {'matrix.c', 'vector.c', 'tensor.c', 'algebra.c'}, {'matrix.c', 'vector.c', 'tensor.c', 'algebra.c'})
    chk.floor('ACC.zeroed', 10)
    from . import matexpr
    matexpr.run(chk, prog)
    chk.floor('MX.definition', 3)
    chk.floor('MX.symmetric-arg', 1)
    guards.kernel_tolerances(chk, prog, contractmode.C12_FUNCS, table=guards.SOLVER_TOLERANCE_TABLE, rule='SV.tolerance',
                             what='inverses / solvers / factorisations (entries of X\'X and pivots scale with the square of the data)')
    chk.floor('SV.tolerance', 6)
    guards.secondary_inductions(chk, prog, contractmode.C12_FUNCS)
    chk.floor('K.bounds', 100)
    chk.floor('G.pivot', 2)


def c13(chk, thorough):
    from . import slices, threads
    chk.explanation = (
        'Decides the partition / ownership / join clauses of C13: for each of the 10 dispatch loops that slice an index range among '
        'workers, the loop body is abstracted to a guarded polynomial recurrence and S1 contiguity, S2 clamp, S3 coverage are checked '
        'for every (rows, threads) pair of the bound (quick: rows 0..12 x threads 1..8; thorough: rows 0..40 x threads 1..24, the '
        'property\'s own quantifier) -- "every row is processed by exactly one worker"; S4: worker stores through shared pointers are '
        'indexed by the sliced variable; S5: condensed vectors are sized (n*n-n)/2; T3: every created thread is joined before its '
        'arguments are freed; worker subscripts are in range under the facts the dispatcher establishes. NOT decided: numeric agreement '
        'with the sequential kernels, metric axioms, bijectivity of the condensed index map (assumption), the value of GetNProcessor.')
    chk.explanation += (' Closed-form block schemes (lo = th*n, hi = th+1 < N ? (th+1)*n : extent) are evaluated like the running-offset ones.')
    chk.assumptions = ['square_to_condensed_index is injective on pairs i < k (arithmetic over runtime n, not decided)',
                       'thread count >= 1', 'worker contracts of lsv/contracts.json (facts the dispatchers establish)']
    prog = load_program(chk, ['matrix.c', 'metricspace.c', 'clustering.c', 'vector.c', 'memwrapper.c', 'numeric.c', 'list.c', 'tensor.c'])
    n = slices.run(chk, prog, rmax=40 if thorough else 12, nmax=24 if thorough else 8, dom=4 if thorough else 3)
    if n < 10:
        chk.broke('only %d range-slicing dispatch loops found, floor 10' % n)
    threads.t3(chk, prog)
    if thorough:
        from . import irscan
        irscan.cross_check(chk, prog, sorted(prog.units))
    chk.floor('S1-3.partition', 10)
    chk.floor('S4.ownership', 7)
    chk.floor('S6.slice-processed', 7)
    chk.floor('T3.create-join', 10)
    chk.floor('S5.condensed', 3)


def c07(chk, thorough):
    from . import mlrcheck, matexpr, accum
    chk.explanation = (
        'Decides the structural / exact-arithmetic content of C07. MLR() builds the design matrix [1 | X] (MLR.design: cell forms with '
        'symbolic indices), copies response column j, solves with OrdinaryLeastSquares into a fresh vector and appends it as column j '
        '(MLR.per-response); OrdinaryLeastSquares is (D\'D)^-1 D\'y on every path (MX.definition, call-sequence algebra) with every product '
        'written into a zeroed output (ACC.zeroed) -- i.e. the coefficients satisfy the normal equations, from which zero-sum residuals, '
        'orthogonality to the predictors, exact recovery of noise-free linear data and the equivariances follow; MLRPredictY computes '
        'b[0][k] + sum_j X[i][j] b[j+1][k] (MLR.predict), residual = predicted - observed (MLR.residual), R2 = 1 - RSS/TSS about the column '
        'mean stored by MLR() and SDEC = sqrt(RSS/rows) (MLR.r2-sdec). NOT decided: floating-point accuracy of the inverse for '
        'ill-conditioned X, R2 within [0,1] as a floating-point statement.')
    chk.assumptions = ['real arithmetic; X of full column rank (premise of the property)',
                       'cell forms: loops are rectangular unit-step counting loops; accessors getMatrixValue/setMatrixValue read as cells']
    prog = load_program(chk, ['mlr.c', 'algebra.c', 'matrix.c', 'vector.c'])
    mlrcheck.run(chk, prog)
    matexpr.run(chk, prog)
    accum.run(chk, prog, {'matrix.c', 'vector.c', 'algebra.c'}, {'mlr.c', 'algebra.c'})
    from . import guards
    # every routine of the loaded units that MLR / MLRPredictY can reach (a solver swapped in later is covered without being listed)
    reach = {}
    todo = ['MLR', 'MLRPredictY', 'OrdinaryLeastSquares']
    seen_ = set()
    while todo:
        nm_ = todo.pop()
        f_ = prog.funcs.get(nm_)
        if nm_ in seen_ or f_ is None or f_.body is None:
            continue
        seen_.add(nm_)
        reach.setdefault(os.path.basename(f_.file), []).append(nm_)
        todo += [cn for cn, _ in f_.calls]
    for must in (('matrix.c', 'MatrixInversion'), ('matrix.c', 'MatrixDVectorDotProduct'), ('algebra.c', 'OrdinaryLeastSquares'), ('mlr.c', 'MLR'), ('mlr.c', 'MLRPredictY')):
        if must[1] not in reach.get(must[0], []) and must[1] in prog.funcs:
            reach.setdefault(must[0], []).append(must[1])
    chk.extra['routines_reached_by_the_fit'] = {k: sorted(v) for k, v in reach.items()}
    guards.kernel_tolerances(chk, prog, reach,
                             table={k_: v_ for k_, v_ in guards.KERNEL_TOLERANCE_TABLE.items() if k_[0] == 'MatrixColAverage'},
                             rule='SV.tolerance', what='routines the MLR fit can reach (no absolute tolerance on X\'X, its inverse or the solve)')
    for r_, fl in (('MLR.design', 2), ('MLR.per-response', 1), ('MLR.predict', 2), ('MLR.residual', 1), ('MLR.r2-sdec', 3), ('MX.definition', 3),
                   ('ACC.zeroed', 3)):
        chk.floor(r_, fl)


def c01(chk, thorough):
    from . import pcacheck
    chk.explanation = (
        'Decides the exact-arithmetic mechanism behind C01 with the free vector algebra of E18 (vectors as combinations of base vectors, scalars as '
        'rational functions of inner products and norms, matrices as base + rank-one terms, a normalised combination becomes a new unit base vector; '
        'nothing executed). (PCA.component) on every path that leaves the NIPALS iteration the loading kept has p\'p = 1, the score kept is t = E p for '
        'that very p, both are stored whole in column pc, E is deflated by exactly t p\' and eval[pc] is the squared norm of a score iterate -- so the '
        'residual satisfies E_new p = 0, later loadings (formed in the row space of E_new) are orthogonal to p, X = T P\' + E by construction and the '
        'explained variances are non-negative. (PCA.reset) nothing of an earlier loading leaks into the next one through the accumulating product. '
        '(PCA.variance) ss is the sum of squares of every preprocessed cell before any deflation and varexp = eval/ss*100. (PCA.blocks) fit and '
        'projection use the same stored centring/scaling. (PCA.score-predictor) projection walks through the same deflations as the fit. '
        '(PCA.back-transform) PCAIndVarPredictor is (sum t p\') * scale + mean, scaling before shift, on every branch. NOT decided: the same statements '
        'in floating point (orthogonality to 1e-x, the 100 % sum, which depends on the convergence tolerance because eval is taken from the '
        'last-but-one score), the order of the explained variances, convergence (C18), spectral correctness (C02).')
    chk.assumptions = ['real arithmetic; norms positive (the null component is C18)',
                       'the kernel table: MT_DVectorMatrixDotProduct adds E\'t, MT_MatrixDVectorDotProduct adds E p, DVectNorm divides by the norm (cell forms decided under C11, thread partition under C13)']
    prog = load_program(chk, ['pca.c', 'matrix.c', 'vector.c', 'algebra.c', 'preprocessing.c'])
    pcacheck.run(chk, prog)
    from . import guards
    # "back-transforming with the stored means/scales reproduces the original" and "projecting the training matrix reproduces the scores" also need the
    # preprocessing to apply stored statistics the way it fitted them, and the back-transform to test the scales the same way (rules of C10)
    guards.zero_divisor(chk, prog, {'preprocessing.c', 'pca.c'})
    guards.fit_apply_agreement(chk, prog)
    guards.scaling_tests(chk, prog, {'preprocessing.c', 'pca.c'})
    guards.kernel_tolerances(chk, prog, {'pca.c': ['PCA', 'PCAScorePredictor', 'PCAIndVarPredictor', 'calcVarExpressed', 'calcConvergence']},
                             table={}, rule='SV.tolerance', what='PCA routines (no absolute tolerance on scores, loadings or eigenvalues)')
    chk.floor('FA.agree', 1)
    chk.floor('G.scaling-test', 3)
    for r_, fl in (('PCA.clamp', 3), ('PCA.component', 1), ('PCA.reset', 1), ('PCA.variance', 2), ('PCA.blocks', 2), ('PCA.score-predictor', 1), ('PCA.back-transform', 3)):
        chk.floor(r_, fl)


def c02(chk, thorough):
    from . import pcacheck
    chk.explanation = (
        'Decides the structural content of C02 with the free vector algebra of E18: (PCA.power-step) entered with a unit loading p and t = E p (the state every '
        'pass re-establishes), one pass of the NIPALS loop leaves p = unit(E\'E p) and t = E p -- a pure power step on the cross-product matrix, homogeneous in '
        'E, so the fixed points are exactly its eigenvectors and neither they nor the speed of convergence depend on the units of the data; (PCA.component) at '
        'the exit p\'p = 1, t = E p, eval = t\'t = p\'E\'E p (the eigenvalue at a fixed point) and E is deflated by exactly t p\', so the next component iterates on '
        'the cross-product matrix restricted to the orthogonal complement; (PCA.variance) explained variance = eigenvalue / trace * 100 with the trace taken '
        'before any deflation. NOT decided: that the iteration reaches the dominant eigenvector and how accurately (eigen-gap, convergence constant), hence the '
        'k-th largest ordering; the equivariances as numerical statements (every kernel involved is permutation-equivariant; the start column is an arg-max '
        'with a first-index tie-break).')
    chk.assumptions = ['real arithmetic; norms positive', 'the kernel table of E18 (cell forms decided under C11)']
    prog = load_program(chk, ['pca.c', 'matrix.c', 'vector.c', 'algebra.c'])
    pcacheck.power_step(chk, prog)
    En = pcacheck.component(chk, prog)
    if En:
        pcacheck.variance(chk, prog, En)
    for r_, fl in (('PCA.power-step', 1), ('PCA.component', 1), ('PCA.variance', 2)):
        chk.floor(r_, fl)


def c04(chk, thorough):
    from . import plscheck, accum
    chk.explanation = (
        'Decides the exact-arithmetic mechanism behind C04 (engine E18: a free algebra of vectors sum c_k B_k, scalars as rational functions of inner '
        'products and norms, matrices X0 + sum c A B\'; equality by cross-multiplication; nothing executed). (PLS.iteration) when the NIPALS iteration '
        'stops, on every path that leaves it, t = X w for the very w that is kept, q is proportional to Y\'t and u = Y q/q\'q (several responses) or q = 1 '
        'and u untouched (one response). (PLS.latent-variable) what LVCalc hands back is p = unit(X\'t/t\'t), t and w rescaled by |X\'t/t\'t|, '
        'b = u\'t/t\'t for the final t, X - t p\' and Y - b t q\' with exactly those vectors. (PLS.store) PLS() puts each of them in the model field of '
        'its role, whole, in column lv, and appends b. (PLS.blocks) X and Y are centred/scaled into the model statistics the predictors read back. '
        '(PLS.predictor) PLSYPredictor is (sum_{lv<nlv} b t q\') * yscale + ymean, scaling before shift, per response column. (PLS.score-predictor) '
        'unseen objects are projected with the stored weights and deflated with the stored loadings, the accumulating kernel fed a zeroed score. '
        '(PLS.all-lv) block lv of PLSYPredictorAllLV is the prediction with lv+1 latent variables. (MX.definition) PLSBetasCoeff is W (P\'W)^-1 b over '
        'the first nlv latent variables. From these, in exact arithmetic: scores are mutually orthogonal (deflation with p = X\'t/t\'t), each b t q\' is the '
        'least-squares fit of the current Y residual on t (so the training RSS cannot increase and at full rank the fit is the OLS fit), T = X W(P\'W)^-1 '
        '(so the coefficient form predicts what the scores predict) and the back-transform is affine in y. NOT decided: those consequences as '
        'floating-point statements, convergence of the iteration, the R2 figures (C15).')
    chk.assumptions = ['real arithmetic; norms and squared norms are positive (non-null latent variable; the null case is C18)',
                       'the kernel table: DVectorMatrixDotProduct adds M\'v, MatrixDVectorDotProduct adds M v, DVectNorm divides by the norm (their cell forms are decided under C11)']
    prog = load_program(chk, ['pls.c', 'matrix.c', 'vector.c', 'algebra.c', 'preprocessing.c'])
    plscheck.run(chk, prog)
    from . import guards
    # "any scaling of either block": the statistics are applied the way they were fitted (rules of C10); no routine drops or alters a component on an
    # absolute tolerance (the quantities scale with the data)
    guards.zero_divisor(chk, prog, {'preprocessing.c', 'pls.c'})
    guards.fit_apply_agreement(chk, prog)
    guards.scaling_tests(chk, prog, {'preprocessing.c', 'pls.c'})
    guards.kernel_tolerances(chk, prog, {'pls.c': ['LVCalc', 'PLS', 'PLSScorePredictor', 'PLSYPredictor', 'PLSYPredictorAllLV', 'PLSBetasCoeff', 'calcConvergence']},
                             table={}, rule='SV.tolerance', what='PLS routines (no absolute tolerance on scores, loadings, weights or inner coefficients)')
    chk.floor('FA.agree', 1)
    for r_, fl in (('PLS.clamp', 3), ('PLS.iteration', 2), ('PLS.latent-variable', 8), ('PLS.store', 6), ('PLS.predictor', 3), ('PLS.score-predictor', 1), ('PLS.all-lv', 1),
                   ('PLS.blocks', 2), ('MX.definition', 1)):
        chk.floor(r_, fl)


def c09(chk, thorough):
    from . import cpcacheck, guards
    chk.explanation = (
        'Decides the exact-arithmetic mechanism of CPCA with the free vector algebra of E18, every loop over the blocks being interpreted once for a '
        'generic block k (Eb->m[k] is the base matrix Eb[k], scaling_factor[k] an opaque positive scalar; work vectors written in the loop body first get '
        'an opaque "left by the previous block" value, so a missing reset shows). (CPCA.block-loadings) CalcBlockLoadings adds Xb\'t/t\'t. '
        '(CPCA.iteration) per pass: p_b = unit(Eb[k]\'t/t\'t), t_b = Eb[k]p_b/sf_k stored as row k of the table, w = unit(T\'t/t\'t), t_new = T w for '
        'that very table and weight -- so the stored triple satisfies "super score = block scores x super weights" exactly. (CPCA.component) on the way '
        'out the table, t_new and w are what is stored; the stored block loading is Eb[k]\'t_new/t_new\'t_new and the block is deflated by exactly '
        't_new (stored loading)\', hence Eb[k]_new\' t_new = 0; total explained variance = squared norm of a super-score iterate / ss * 100; otherwise '
        't <- t_new. (CPCA.scaling) factor = sqrt(block width), in block order; ss = sum (cell / factor of its block)^2 before any deflation; the '
        'preprocessing goes into the model statistics. (CPCA.score-predictor) the projection mirrors the pass with the stored loadings and weights and '
        'deflates with the stored loading. NOT decided: that the super scores equal the PCA scores of the block-scaled concatenation (a theorem about '
        'this algorithm at convergence, Westerhuis et al. 1998), ranges / monotonicity of the explained variances, convergence (C18), re-projection '
        'equality (holds to the convergence tolerance: stored loadings come from t_new, the pass used t).')
    chk.assumptions = ['real arithmetic; norms and scaling factors positive', 'the kernel table of E18; blocks of a tensor do not alias',
                       'generic-block interpretation: iterations of a loop over the blocks interact only through the row/column they store']
    prog = load_program(chk, ['cpca.c', 'pca.c', 'matrix.c', 'vector.c', 'tensor.c', 'preprocessing.c'])
    cpcacheck.run(chk, prog)
    # the projection re-applies the stored centring / scaling by hand: it must test the scales the way the fit did (rules of C10)
    guards.zero_divisor(chk, prog, {'preprocessing.c', 'cpca.c'})
    guards.fit_apply_agreement(chk, prog)
    guards.scaling_tests(chk, prog, {'preprocessing.c', 'cpca.c'})
    guards.kernel_tolerances(chk, prog, {'cpca.c': ['CPCA', 'CalcBlockLoadings']}, table={}, rule='SV.tolerance',
                             what='CPCA fit routines (no absolute tolerance on scores, loadings, weights)')
    for r_, fl in (('CPCA.block-loadings', 1), ('CPCA.iteration', 1), ('CPCA.component', 1), ('CPCA.scaling', 3), ('CPCA.score-predictor', 1)):
        chk.floor(r_, fl)


def c17(chk, thorough):
    from . import kmeanscheck, slices
    chk.explanation = (
        'Decides the k-means clauses of C17 that are visible in the shape of the code (exact arithmetic): (KM.nearest) every row gets the index of '
        'the first centroid at minimal Euclidean distance -- distance cell form over all columns, every centroid visited, running best taken from '
        'the first centroid and replaced only on a strictly smaller distance, label stored for the same row, hence in range; (KM.centroid-mean) '
        'each centroid is the sum of the rows carrying its label divided by their number -- scatter by label from zeroed storage, one count per '
        'row, guarded division by the own count, that matrix returned; (S1-3, S4, S6, S7) the rows are partitioned among the label / distance '
        'workers for every (rows, threads) pair, workers write only their own rows and carry no accumulator across rows, so labels do not depend '
        'on the thread count; (KM.converged) the loop stops only when every coordinate of every centroid equals the previous one within the '
        'documented absolute EPSILON. NOT decided: that the iteration reaches that state (it is capped, C18), every clause about the selection methods (MDC, both '
        'max-min implementations, k-means++): distinct in-range indices, farthest-first optimality, equality of the two implementations.')
    chk.assumptions = ['real arithmetic', 'distinct parameters do not alias', 'thread counts >= 1']
    prog = load_program(chk, ['clustering.c', 'metricspace.c', 'matrix.c', 'vector.c', 'tensor.c', 'memwrapper.c', 'numeric.c'])
    kmeanscheck.run(chk, prog)
    from . import guards
    # the cell-form extractor reads through data-dependent filters: no labelling / centroid / distance routine may carry an absolute-tolerance filter
    guards.kernel_tolerances(chk, prog, {'clustering.c': ['getLabelsWorker', 'getLabels_', 'getLabels', 'getCentroids', 'KMeans', 'shouldStop', 'MDC', 'MDCWorker'],
                                         'metricspace.c': ['EuclideanDistance', 'EuclideanWorker', 'MatrixEuclideanDistance', 'SquaredEuclideanDistance']},
                             table=guards.KMEANS_TOLERANCE_TABLE, rule='SV.tolerance',
                             what='k-means labelling, centroid update, distance and MDC ranking routines')
    from . import offsets
    # the arg-max / arg-min searches of the selection methods (farthest-first pick, most descriptive compound) run against an element of the
    # scanned sequence or a true bound, never a literal some value may lie below (cosine "distances" are in [-1, 1])
    offsets.argmax_rule(chk, prog, ['MDC', 'MaxDis', 'MaxDis_Fast', 'KMeansppCenters', 'PruneResults'])
    chk.floor('OF.argmax', 3)
    slices.run(chk, prog, rmax=40 if thorough else 12, nmax=24 if thorough else 8, dom=4 if thorough else 3)
    chk.floor('KM.nearest', 4)
    chk.floor('KM.centroid-mean', 6)
    chk.floor('KM.converged', 4)
    chk.floor('SEL.unselect', 4)
    chk.floor('S1-3.partition', 3)
    chk.floor('S7.row-accumulators', 3)


CHECKS = {
    'C01': c01,
    'C02': c02,
    'C04': c04,
    'C09': c09,
    'C07': c07,
    'C17': c17,
    'C13': c13,
    'C11': c11,
    'C12': c12,
    'C14': c14,
    'C19': c19,
    'C10': c10,
    'C15': c15,
    'C08': c08,
    'C16': c16,
    'C05': c05,
    'C03': c03,
    'C18': c18,
    'C06': c06,
    'C20': c20,
}
