"""Per-property drivers: which engines/rules decide which property."""
from . import frontend as fe


def c20(chk, thorough):
    from . import abi
    chk.explanation = (
        'Decides C20 in full for the current tree: every ctypes.Structure in src/python_bindings/libscientific/*.py '
        'against the C typedef struct it mirrors (field count, positional type, offset, size under LP64) and every '
        'lsci.<f>.argtypes/restype against the installed-header prototype, by generated compile-fail witnesses '
        '(redeclaration with the claimed signature; _Static_assert on sizeof/offsetof/__builtin_types_compatible_p) '
        'checked by clang -fsyntax-only; call sites by positional arity; existence by header prototype + LLVM-IR '
        '`define` in a compiled unit. Field names are compared but a name-only difference is informational.')
    chk.assumptions = ['LP64 data model (the only one the pinned build targets)',
                       'ctypes default restype is int when none is assigned',
                       'Python type expressions are literal ctypes constructors (anything else => ANALYSIS-BROKEN)']
    abi.run(chk, thorough)
    chk.extra['exhaustive'] = True
    chk.floor('abi.struct', 10 * 3)
    chk.floor('abi.function', 90)
    chk.floor('abi.callsite', 100)
    if not chk.findings and not chk.broken:
        chk.level = 'proof'


CHECKS = {
    'C20': c20,
}
