"""C17, k-means clauses that are visible in the shape of the code (exact arithmetic, nothing executed).

  KM.nearest        getLabelsWorker gives row i the index of the FIRST centroid at minimal Euclidean distance: the distance of (row i, centroid k)
                    is sqrt(sum_j (m[i][j] - c[k][j])^2) over all columns, every centroid k in [0, rows(c)) is visited, the running best starts
                    unset, is taken from the first centroid and replaced only on a strictly smaller distance, and the label stored for row i is
                    that index ("each object carries the label of a nearest centroid"; labels are in [0, k)).
  KM.centroid-mean  getCentroids scatters every row into the sum of ITS label and counts it once, from zeroed storage, then divides each
                    non-empty cluster's sum by its own count, and hands exactly that matrix back ("each returned centroid is the mean of the
                    objects carrying its label"; empty clusters are re-seeded from a data row).
  thread independence of the labels is the partition / ownership / accumulator family of E3 (rules S1-3, S4, S6, S7) restricted to the
  dispatchers of clustering.c.
NOT decided: convergence ("up to the documented tolerance"), the selection methods (MDC / max-min optimality, equality of the two max-min
implementations, distinctness of the selected indices), k-means++ quality."""
from . import frontend as fe
from .frontend import kids, strip, walk, callee_name, call_args
from . import exprs, flow
from .sym import Poly
from .spline import Rat
from .kerneldef import Extractor, Unsupported, unify, cell
from .report import Finding


def rel(p):
    return p[len(fe.REPO) + 1:] if p.startswith(fe.REPO + '/') else p


def run(chk, prog):
    A = Poly.atom
    Z = Poly.const(0)
    R_n = chk.rule('KM.nearest', 'each row gets the index of the first centroid at minimal Euclidean distance (distance cell form, all centroids visited, '
                   'strict improvement, label stored for the same row)')
    R_c = chk.rule('KM.centroid-mean', 'each centroid is the sum of the rows carrying its label divided by their number (scatter by label from zeroed '
                   'storage, one count per row, division by the own count, that matrix returned)')
    nearest(chk, prog, R_n)
    centroid_mean(chk, prog, R_c)
    R_u = chk.rule('SEL.unselect', 'MDC: the object just selected gets rank 0 and no later store of the ranking loop can overwrite it (every non-zero rank '
                   'store is under "index != selected"), the ranking loop visits every row, and the information vector is multiplied by the rank vector '
                   'over all objects: a selected object can never be selected again (distinct indices)')
    mdc_unselect(chk, prog, R_u)
    R_s = chk.rule('KM.converged', 'shouldStop reports convergence only when EVERY coordinate of EVERY centroid equals the previous one within the '
                   'documented absolute tolerance EPSILON (first mismatch => "not converged"), and KMeans loops on exactly that test')
    converged(chk, prog, R_s)


def nearest(chk, prog, R):
    A = Poly.atom
    f = prog.funcs.get('getLabelsWorker')
    if f is None or f.body is None:
        chk.broke('getLabelsWorker not found')
        return

    def bad(construct, node, msg):
        chk.instance(R, '%s getLabelsWorker: %s' % (f.unit.where(node), msg), 'refuted')
        chk.violation(Finding('KM.nearest', rel(f.file), f.name, construct, f.unit.where(node), 'getLabelsWorker: ' + msg))
    loops = [n for n in kids(f.body) if strip(n).get('kind') == 'ForStmt']
    if len(loops) != 1:
        chk.broke('getLabelsWorker: expected one loop over the slice')
        return
    outer = strip(loops[0])
    oi = flow.induction(outer)
    ivar = oi['var'].split('#')[0]
    body = flow.for_parts(outer)[3]
    inner = [strip(s) for s in kids(body) if strip(s).get('kind') == 'ForStmt']
    if len(inner) != 1:
        chk.broke('getLabelsWorker: expected one loop over the centroids per row')
        return
    kl = inner[0]
    ki = flow.induction(kl)
    kvar = ki['var'].split('#')[0]
    arg = None
    for n in walk(f.body):
        if n.get('kind') == 'VarDecl' and '*' in (n.get('type') or {}).get('qualType', '') and kids(n) and n.get('name') not in (ivar, kvar):
            arg = n.get('name')
            break
    # (1) every centroid visited
    if ki['op'] == '<' and str(ki['init']) == '0' and ki['step'].const_value() == 1 and exprs.text_key(ki['bound_expr']) == '%s->centroids->row' % arg:
        chk.instance(R, '%s centroid loop k = 0 .. rows(centroids)-1' % f.unit.where(kl))
    else:
        bad('centroid-range', kl, 'the loop over the centroids runs from %s while %s %s: some centroid is never considered' %
            (ki['init'], ki['op'], exprs.text_key(ki['bound_expr'])))
    # (2) distance cell form
    ex = Extractor(prog, f)
    ex.locals_ok = True
    ex.acc = {}
    kbody = flow.for_parts(kl)[3]
    jl = [strip(s) for s in kids(kbody) if strip(s).get('kind') == 'ForStmt']
    dist_var = None
    ok_dist = False
    detail = 'no accumulation loop over the columns'
    if len(jl) == 1:
        ji = flow.induction(jl[0])
        jvar = ji['var'].split('#')[0]
        accs = [x for x in walk(jl[0]) if x.get('kind') == 'CompoundAssignOperator' and x.get('opcode') == '+=']
        if len(accs) == 1 and strip(kids(accs[0])[0]).get('kind') == 'DeclRefExpr':
            dist_var = strip(kids(accs[0])[0])['referencedDecl'].get('name')
            ienv = {ivar: A('@i'), kvar: A('@k'), jvar: A('@j')}
            try:
                t = ex.rat(kids(accs[0])[1], ienv, {})
                mi = cell('%s->m' % arg, A('@i'), A('@j'))
                ck = cell('%s->centroids' % arg, A('@k'), A('@j'))
                want = (mi - ck) * (mi - ck)
                full = ji['op'] == '<' and str(ji['init']) == '0' and ji['step'].const_value() == 1 and \
                    exprs.text_key(ji['bound_expr']) in ('%s->m->col' % arg, '%s->centroids->col' % arg)
                ok_dist = t.same(want) and full
                detail = 'term %s over j from %s while < %s' % (t, ji['init'], exprs.text_key(ji['bound_expr']))
            except Unsupported as e:
                detail = str(e)
        # the accumulator is reset for every centroid
        reset = any(x.get('kind') == 'VarDecl' and x.get('name') == dist_var and kids(x) and _is_zero(kids(x)[-1]) for x in walk(kbody)) or \
            any(x.get('kind') == 'BinaryOperator' and x.get('opcode') == '=' and strip(kids(x)[0]).get('kind') == 'DeclRefExpr' and
                strip(kids(x)[0])['referencedDecl'].get('name') == dist_var and _is_zero(kids(x)[1]) for x in kids(kbody))
        ok_dist = ok_dist and reset
        if not reset:
            detail += '; the distance accumulator is not reset per centroid'
    if ok_dist:
        chk.instance(R, '%s distance(i, k) = (monotone function of) sum_j (m[i][j] - c[k][j])^2 over all columns, reset per centroid' % f.unit.where(jl[0]))
    else:
        bad('distance', kl, 'the quantity compared between centroids is not the squared Euclidean distance of row i to centroid k over all columns (%s)' % detail)
    # only monotone transforms of the accumulator before the comparison: sqrt
    for x in kids(kbody):
        x0 = strip(x)
        if x0.get('kind') == 'BinaryOperator' and x0.get('opcode') == '=' and strip(kids(x0)[0]).get('kind') == 'DeclRefExpr' and \
                strip(kids(x0)[0])['referencedDecl'].get('name') == dist_var:
            r = strip(kids(x0)[1])
            if _is_zero(r):
                continue
            if not (r.get('kind') == 'CallExpr' and callee_name(r) == 'sqrt' and exprs.text_key(call_args(r)[0]) == dist_var):
                bad('transform', x0, 'the distance is transformed by `%s` before being compared: not an increasing function of the squared distance' % f.unit.text(x0)[:60])
    # (3) selection logic
    sel = [strip(s) for s in kids(kbody) if strip(s).get('kind') == 'IfStmt']
    best_i, best_d = None, None
    ok_sel = False
    detail = 'no selection statement'
    if len(sel) == 1:
        c, t, e = flow.if_parts(sel[0])
        c0 = strip(c)
        if c0.get('kind') == 'BinaryOperator' and c0.get('opcode') == '==' and fe.int_value(kids(c0)[1]) == -1 and strip(kids(c0)[0]).get('kind') == 'DeclRefExpr':
            best_i = strip(kids(c0)[0])['referencedDecl'].get('name')
            first = _assigns(t)
            # first centroid: best index := 0 or k, best distance := current distance
            bd = [v for v, r in first.items() if exprs.text_key(r) == dist_var]
            bi_ok = best_i in first and (fe.int_value(first[best_i]) == 0 or exprs.text_key(first[best_i]) == kvar)
            if len(bd) == 1 and bi_ok and e is not None:
                best_d = bd[0]
                inner_if = [strip(s) for s in (kids(e) if e.get('kind') == 'CompoundStmt' else [e]) if strip(s).get('kind') == 'IfStmt']
                if len(inner_if) == 1:
                    c2, t2, e2 = flow.if_parts(inner_if[0])
                    c2s = strip(c2)
                    strict = c2s.get('kind') == 'BinaryOperator' and (
                        (c2s.get('opcode') == '<' and exprs.text_key(kids(c2s)[0]) == dist_var and exprs.text_key(kids(c2s)[1]) == best_d) or
                        (c2s.get('opcode') == '>' and exprs.text_key(kids(c2s)[1]) == dist_var and exprs.text_key(kids(c2s)[0]) == best_d))
                    upd = _assigns(t2)
                    ok_sel = strict and exprs.text_key(upd.get(best_i, {})) == kvar and exprs.text_key(upd.get(best_d, {})) == dist_var and \
                        (e2 is None or not _assigns(e2))
                    detail = 'improvement test `%s`, updates %s' % (f.unit.text(c2)[:40], {k_: exprs.text_key(v_) for k_, v_ in upd.items()})
                else:
                    detail = 'no single improvement test in the else arm'
            else:
                detail = 'first-centroid arm assigns %s' % {k_: exprs.text_key(v_) for k_, v_ in first.items()}
        else:
            detail = 'selection is not guarded by `best == -1`'
    if ok_sel:
        chk.instance(R, '%s running best (%s, %s): taken from the first centroid, replaced only when the distance is strictly smaller' % (f.unit.where(sel[0]), best_i, best_d))
    else:
        bad('selection', sel[0] if sel else kl, 'the running best is not "first centroid, then strictly smaller distances only" (%s)' % detail)
    # (4) reset per row and label store
    stmts = [strip(s) for s in kids(body)]
    reset_ok = best_i is not None and any(x.get('kind') == 'BinaryOperator' and x.get('opcode') == '=' and exprs.text_key(kids(x)[0]) == best_i and
                                          fe.int_value(kids(x)[1]) == -1 and stmts.index(x) < stmts.index(kl) for x in stmts if x.get('kind') == 'BinaryOperator')
    store = [x for x in stmts if x.get('kind') == 'BinaryOperator' and x.get('opcode') == '=' and
             exprs.text_key(kids(x)[0]) == '%s->labels->data[%s]' % (arg, ivar)]
    store_ok = len(store) == 1 and exprs.text_key(kids(store[0])[1]) == best_i and stmts.index(store[0]) > stmts.index(kl)
    if reset_ok and store_ok:
        chk.instance(R, '%s best index reset to -1 for every row and stored as labels[i] after all centroids were visited' % f.unit.where(outer))
    else:
        bad('row-protocol', outer, 'per row the best index must be reset before the centroid loop and stored into labels[i] after it (reset %s, store %s)' % (reset_ok, store_ok))


def _is_zero(n):
    v = strip(n)
    if v.get('kind') == 'UnaryOperator' and v.get('opcode') in ('+', '-'):
        v = strip(kids(v)[0])
    try:
        return v.get('kind') in ('FloatingLiteral', 'IntegerLiteral') and float(v.get('value')) == 0.0
    except ValueError:
        return False


def _assigns(n):
    out = {}
    for x in walk(n or {}):
        if x.get('kind') == 'BinaryOperator' and x.get('opcode') == '=' and strip(kids(x)[0]).get('kind') == 'DeclRefExpr':
            out[strip(kids(x)[0])['referencedDecl'].get('name')] = kids(x)[1]
    return out


def centroid_mean(chk, prog, R):
    A = Poly.atom
    Z = Poly.const(0)
    f = prog.funcs.get('getCentroids')
    if f is None or f.body is None:
        chk.broke('getCentroids not found')
        return

    def bad(construct, node, msg):
        chk.instance(R, '%s getCentroids: %s' % (f.unit.where(node) if node is not None else f.where, msg), 'refuted')
        chk.violation(Finding('KM.centroid-mean', rel(f.file), f.name, construct, f.unit.where(node) if node is not None else f.where, 'getCentroids: ' + msg))
    ex = Extractor(prog, f)
    ex.locals_ok = True
    ex.acc = {}
    ex.shape_poly_from_poly = lambda p: p
    tops = [strip(s) for s in kids(f.body) if strip(s).get('kind') == 'ForStmt']
    try:
        for lp in tops:
            ex.stmt(lp, [], {}, {})
    except Unsupported as e:
        chk.broke('getCentroids: loops not understood: %s' % e)
        return
    # fresh zeroed accumulators
    news = {}
    for n in walk(f.body):
        if n.get('kind') == 'CallExpr' and callee_name(n) in ('NewMatrix', 'NewUIVector', 'NewDVector'):
            a = call_args(n)
            s_ = strip(a[0])
            if s_.get('kind') == 'UnaryOperator' and s_.get('opcode') == '&':
                news[exprs.path_of(kids(s_)[0], byname=True)] = n
    sums = [c for c in ex.contribs if c.mode == '+=' and len(c.out[1]) == 2]
    cnts = [c for c in ex.contribs if c.mode == '+=' and len(c.out[1]) == 1]
    divs = [c for c in ex.contribs if c.mode == '/=']
    if not sums or not cnts or not divs:
        chk.broke('getCentroids: the scatter-sum / count / division stores were not all found (%d / %d / %d): update not recognised' % (len(sums), len(cnts), len(divs)))
        return
    if len(sums) != 1 or len(cnts) != 1 or len(divs) != 1:
        bad('shape', None, 'expected one scatter-sum, one count and one division; found %d / %d / %d stores' % (len(sums), len(cnts), len(divs)))
        return
    S, C, Dv = sums[0], cnts[0], divs[0]
    sumarr, cntarr = S.out[0], C.out[0]
    lab = '$1'
    want = [
        (S, dict(out=(sumarr, ['$1[i]', 'j']), mode='+=', term=cell('$0', 'i', 'j'), dom={'i': (Z, A('$1->size')), 'j': (Z, A('$0->col'))},
                 text='sum[label_i][j] += m[i][j] for every row i and column j')),
        (C, dict(out=(cntarr, ['$1[i]']), mode='+=', term=Rat(Poly.const(1)), dom={'i': (Z, A('$1->size'))}, text='count[label_i] += 1 for every row i')),
        (Dv, dict(out=(sumarr, ['i', 'j']), mode='/=', term=cell(cntarr, 'i'), dom={'i': (Z, A('%s->size' % cntarr[2:])), 'j': (Z, A('$0->col'))},
                  text='sum[c][j] /= count[c] for every cluster c and column j')),
    ]
    for c, d in want:
        ok, msg = unify(ex, [c], d)
        if ok:
            chk.instance(R, '%s %s' % (f.unit.where(c.node), d['text']))
        else:
            bad(d['text'][:30], c.node, '%s does not hold: %s' % (d['text'], msg))
    fresh = sumarr[2:] in news and cntarr[2:] in news
    if fresh:
        chk.instance(R, '%s sums and counts start from freshly zeroed storage (%s, %s)' % (f.where, sumarr[2:], cntarr[2:]))
    else:
        bad('fresh', None, 'the sum matrix / count vector are not created (zeroed) inside getCentroids: earlier content is added to the means')
    # the division is guarded by count > 0
    pm = flow.parent_map(f.body)
    guarded = False
    for anc in flow.ancestors(pm, Dv.node):
        if anc.get('kind') == 'IfStmt':
            c0 = strip(kids(anc)[0])
            if c0.get('kind') == 'BinaryOperator' and c0.get('opcode') in ('>', '!=') and fe.int_value(kids(c0)[1]) == 0 and \
                    exprs.text_key(kids(c0)[0]).startswith(cntarr[2:] + '->data['):
                guarded = True
    if guarded:
        chk.instance(R, '%s the division is carried out only for clusters with at least one member' % f.unit.where(Dv.node))
    else:
        bad('guard', Dv.node, 'the division by the member count is not guarded by count > 0 (0/0 for an empty cluster)')
    # what is handed back is that matrix
    back = [n for n in walk(f.body) if n.get('kind') == 'CallExpr' and callee_name(n) == 'MatrixCopy']
    okb = len(back) == 1 and exprs.path_of(call_args(back[0])[0], byname=True) == sumarr[2:] and \
        exprs.path_of(call_args(back[0])[1], byname=True) == f.params[2]['name']
    if okb:
        chk.instance(R, '%s the centroid matrix returned is the matrix of the divided sums' % f.unit.where(back[0]))
    else:
        bad('return', back[0] if back else None, 'the matrix of means is not what is copied back into the centroid parameter')


def converged(chk, prog, R):
    """structure of the convergence test:  for all i, j:  if !ApproxEq(c[i][j], old[i][j], EPSILON) return 0;   return 1"""
    from . import guards
    f = prog.funcs.get('shouldStop')
    g = prog.funcs.get('KMeans')
    if f is None or g is None or f.body is None:
        chk.broke('shouldStop / KMeans not found')
        return

    def bad(construct, node, msg):
        chk.instance(R, '%s shouldStop: %s' % (f.unit.where(node) if node is not None else f.where, msg), 'refuted')
        chk.violation(Finding('KM.converged', rel(f.file), f.name, construct, f.unit.where(node) if node is not None else f.where, 'shouldStop: ' + msg))
    cn, on = f.params[0]['name'], f.params[1]['name']
    eps = None
    import os, re
    txt = open(os.path.join(fe.SRC, 'numeric.h')).read()
    m_ = re.search(r'#define\s+EPSILON\s+([0-9.eE+-]+)', txt)
    if m_:
        eps = float(m_.group(1))
    tests = []
    for n in walk(f.body):
        if n.get('kind') == 'BinaryOperator' and n.get('opcode') == '&&':
            m = guards.match_approx(n)
            if m:
                tests.append((n, m))
    if len(tests) != 1:
        chk.broke('shouldStop: %d approximate-equality tests found, expected one' % len(tests))
        return
    tnode, (x, v, tol) = tests[0]
    loops = [l for l in walk(f.body) if l.get('kind') == 'ForStmt' and any(y is tnode for y in walk(l))]
    # (1) compared quantities and tolerance
    def loop_info(l):
        """(var, init text, plain bound text or None, has extra condition)"""
        init, cond, inc, body = flow.for_parts(l)
        i_s = strip(init) if init is not None and init.get('kind') else {}
        var = exprs.text_key(kids(i_s)[0]) if i_s.get('kind') == 'BinaryOperator' else None
        lo = exprs.text_key(kids(i_s)[1]) if i_s.get('kind') == 'BinaryOperator' else None
        c_ = strip(cond) if cond is not None and cond.get('kind') else {}
        extra = False
        if c_.get('kind') == 'BinaryOperator' and c_.get('opcode') == '&&':
            extra = True
            c_ = strip(kids(c_)[0])
        bound = exprs.text_key(kids(c_)[1]) if c_.get('kind') == 'BinaryOperator' and c_.get('opcode') == '<' and exprs.text_key(kids(c_)[0]) == var else None
        return var, lo, bound, extra
    ok_cells = False
    extra_conditions = False
    if len(loops) == 2:
        (v1, lo1, b1, x1), (v2, lo2, b2, x2) = loop_info(loops[0]), loop_info(loops[1])
        extra_conditions = x1 or x2
        pair = {exprs.text_key(x), exprs.text_key(v)}
        ok_cells = v1 is not None and v2 is not None and pair == {'%s->data[%s][%s]' % (cn, v1, v2), '%s->data[%s][%s]' % (on, v1, v2)}
        full = lo1 == '0' and lo2 == '0' and b1 in ('%s->row' % cn, '%s->row' % on) and b2 in ('%s->col' % cn, '%s->col' % on)
        if ok_cells and full:
            chk.instance(R, '%s compares centroid[i][j] with the previous centroid[i][j] for i < rows, j < cols%s' %
                         (f.unit.where(tnode), ' (loop headers carry a further condition, examined below)' if extra_conditions else ''))
        elif ok_cells:
            bad('range', loops[0], 'the comparison runs over i from %s below %s and j from %s below %s: some centroid coordinates never take part in the '
                'convergence test' % (lo1, b1, lo2, b2))
    if not ok_cells:
        bad('cells', tnode, 'the convergence test does not compare each centroid coordinate with the same coordinate of the previous centroids over two nested loops')
        return
    tv = guards.literal_value(tol)
    if tv is not None and eps is not None and tv == eps:
        chk.instance(R, '%s tolerance is the documented constant EPSILON = %g' % (f.unit.where(tnode), eps))
    else:
        bad('tolerance', tnode, 'the tolerance of the convergence test is `%s`, not the documented absolute EPSILON (%s): convergence is then declared '
            'at a different accuracy than documented (a relative tolerance stops early on data far from the origin)' % (f.unit.text(tol)[:50], eps))
    # (2) a mismatch must end the search with "not converged"
    pm = flow.parent_map(f.body)
    par = pm.get(id(tnode))
    # walk up through parens / casts / comparison with 1
    cur = tnode
    negated = False
    while par is not None and (par.get('kind') in ('ParenExpr', 'ImplicitCastExpr') or (par.get('kind') == 'UnaryOperator' and par.get('opcode') == '!')):
        if par.get('kind') == 'UnaryOperator':
            negated = not negated
        cur, par = par, pm.get(id(par))
    if par is not None and par.get('kind') == 'IfStmt':
        c, t, e = flow.if_parts(par)
        if negated:
            t, e = e, t

        def returns(n, val):
            return any(y.get('kind') == 'ReturnStmt' and kids(y) and fe.int_value(kids(y)[0]) == val for y in walk(n or {}))

        def only_continue(n):
            return n is None or all(y.get('kind') in ('ContinueStmt', 'CompoundStmt', 'NullStmt') for y in walk(n))
        if (only_continue(t) and returns(e, 0)):
            chk.instance(R, '%s the first coordinate that differs returns 0 (not converged)' % f.unit.where(par))
        else:
            bad('mismatch-arm', par, 'a coordinate that differs from the previous centroid does not make the function return 0')
    elif par is not None and par.get('kind') == 'BinaryOperator' and par.get('opcode') == '=' and strip(kids(par)[0]).get('kind') == 'DeclRefExpr':
        flag = strip(kids(par)[0])['referencedDecl'].get('name')
        # flag = test  inside the loops: the previous value of the flag is overwritten unless the assignment conjoins it or the loop leaves at once
        rhs_names = {y['referencedDecl'].get('name') for y in walk(kids(par)[1]) if y.get('kind') == 'DeclRefExpr'}
        inner_body = flow.for_parts(loops[-1])[3]
        leaves = any(y.get('kind') in ('BreakStmt', 'ReturnStmt') for y in walk(inner_body))
        inner_cond = f.unit.text(flow.for_parts(loops[-1])[1]) if flow.for_parts(loops[-1])[1] is not None else ''
        if flag in rhs_names or leaves or flag in inner_cond:
            chk.instance(R, '%s flag `%s` accumulates the comparison; form not examined further' % (f.unit.where(par), flag), 'undecided')
        else:
            bad('flag-overwritten', par, 'the flag `%s` is overwritten by every coordinate comparison of a row (`%s`) and the inner loop neither conjoins '
                'it nor stops at the first mismatch: only the LAST coordinate of a centroid decides, k-means stops while other coordinates still move'
                % (flag, f.unit.text(par)[:70]))
    else:
        chk.broke('shouldStop: the use of the approximate-equality test is not recognised')
    # (3) final answer when nothing differed
    last = [s_ for s_ in walk(f.body) if s_.get('kind') == 'ReturnStmt']
    if not last:
        chk.broke('shouldStop has no return')
    # (4) KMeans loops while shouldStop(...) == 0
    wl = [n for n in walk(g.body) if n.get('kind') == 'WhileStmt' and 'shouldStop' in g.unit.text(kids(n)[0])]
    if wl:
        chk.instance(R, '%s KMeans iterates while shouldStop(...) == 0' % g.unit.where(wl[0]))
    else:
        chk.instance(R, '%s KMeans main loop is not driven by shouldStop' % g.where, 'refuted')
        chk.violation(Finding('KM.converged', rel(g.file), g.name, 'loop', g.where, 'KMeans no longer iterates until shouldStop() reports convergence'))


def mdc_unselect(chk, prog, R):
    f = prog.funcs.get('MDC')
    if f is None or f.body is None:
        chk.broke('MDC not found')
        return

    def bad(construct, node, msg):
        chk.instance(R, '%s MDC: %s' % (f.unit.where(node) if node is not None else f.where, msg), 'refuted')
        chk.violation(Finding('SEL.unselect', rel(f.file), f.name, construct, f.unit.where(node) if node is not None else f.where, 'MDC: ' + msg))
    # the selected index: the variable appended to the selection vector
    sel = None
    for n in walk(f.body):
        if n.get('kind') == 'CallExpr' and callee_name(n) == 'UIVectorAppend':
            a = call_args(n)
            if strip(a[1]).get('kind') == 'DeclRefExpr':
                sel = strip(a[1])['referencedDecl'].get('name')
    if sel is None:
        chk.broke('MDC: the appended selection variable was not found')
        return
    # the product  info[i] *= rank[i]
    prod = None
    for n in walk(f.body):
        if n.get('kind') == 'CompoundAssignOperator' and n.get('opcode') == '*=':
            l, r = exprs.text_key(kids(n)[0]), exprs.text_key(kids(n)[1])
            if '->data[' in l and '->data[' in r and l.split('->data[')[1] == r.split('->data[')[1]:
                prod = (n, l.split('->data[')[0], r.split('->data[')[0])
    if prod is None:
        chk.broke('MDC: the product of the information vector with the rank vector was not found')
        return
    pnode, info, rank = prod
    pm = flow.parent_map(f.body)
    ploop = [a for a in flow.ancestors(pm, pnode) if a.get('kind') == 'ForStmt']
    pi = flow.induction(ploop[0]) if ploop else None
    if pi and str(pi['init']) == '0' and pi['op'] == '<' and exprs.text_key(pi['bound_expr']) in ('%s->size' % info, '%s->size' % rank):
        chk.instance(R, '%s information vector *= rank vector over all objects' % f.unit.where(pnode))
    else:
        bad('product-range', pnode, 'the product of the information vector with the rank vector does not run over all objects')
    # stores into the rank vector
    stores = [n for n in walk(f.body) if n.get('kind') == 'BinaryOperator' and n.get('opcode') == '=' and exprs.text_key(kids(n)[0]).startswith(rank + '->data[')]
    zero_for_sel = False
    for n in stores:
        idx = exprs.text_key(kids(n)[0])[len(rank) + 7:-1]
        is_zero = _is_zero(kids(n)[1])
        # guards on the path
        g_eq = g_ne = False
        child = n
        for anc in flow.ancestors(pm, n):
            if anc.get('kind') == 'IfStmt':
                c, t, e = flow.if_parts(anc)
                c0 = strip(c)
                if c0.get('kind') == 'BinaryOperator' and c0.get('opcode') in ('==', '!=') and {exprs.text_key(kids(c0)[0]), exprs.text_key(kids(c0)[1])} == {idx, sel}:
                    in_then = any(x is child for x in walk(t)) if t is not None else False
                    eq = (c0['opcode'] == '==') == in_then
                    g_eq, g_ne = g_eq or eq, g_ne or (not eq)
            child = anc
        if is_zero and (idx == sel or g_eq):
            zero_for_sel = True
            chk.instance(R, '%s rank of the selected object := 0' % f.unit.where(n))
        elif is_zero:
            chk.instance(R, '%s rank[%s] := 0' % (f.unit.where(n), idx), 'undecided')
        elif g_ne:
            chk.instance(R, '%s non-zero rank stored only for objects other than the selected one' % f.unit.where(n))
        else:
            bad('overwrite:%s' % idx, n, 'the rank store `%s` is not guarded by `%s != %s`: when the selected object is met in the ranking loop its rank 0 is '
                'overwritten and the object can be selected again (duplicate indices) -- where it sorts depends on the metric' % (f.unit.text(n)[:50], idx, sel))
    if not zero_for_sel:
        bad('no-zero', None, 'the selected object never receives rank 0')
    # the ranking loop visits all rows of the sorted table
    rl = None
    for n in stores:
        for anc in flow.ancestors(pm, n):
            if anc.get('kind') == 'ForStmt':
                rl = anc
                break
    if rl is not None:
        ri = flow.induction(rl)
        if ri and str(ri['init']) == '0' and ri['op'] == '<' and exprs.text_key(ri['bound_expr']).endswith('->row'):
            chk.instance(R, '%s the ranking loop visits every row of the sorted table' % f.unit.where(rl))
        else:
            bad('rank-range', rl, 'the ranking loop starts at %s: it assumes where the selected object sorts, which depends on the metric' % (ri['init'] if ri else '?'))

