"""OF.argmax, scalar form: `if (v > ref) { ref = v; best = j; }` where the candidate v is a scalar computed earlier in the same iteration.

The array form (`S[j] > S[best]`) is decided by offsets.argmax_rule.  Here the candidate and the running reference are locals, so two things
can go wrong that the array form cannot express:

 (a) the reference is seeded, before the loop, with the value of the initial best index -- it has to be *the same function* of that index as the
     candidate is of the loop index.  Both definitions are evaluated to a canonical term (literals, accumulation loops `for(..) v += E`,
     `v = g(v)` wrappers); equal terms satisfy the clause, terms that differ exactly by a wrapper call on one side (`sqrt(S(k0))` against `S(i)`)
     are a violation (the comparison mixes two scales until the initial index has been displaced), anything else is left undecided.
     A condition of the form `j == first || v > ref` makes the seed irrelevant.
 (b) (only where the driver names the container that holds the published scores) the value stored as score of index j in the same iteration
     has to be the candidate itself: `score[i][j] = v + w[j]` next to `if (v > ref)` publishes scores whose arg-max is not the chosen index.

Three-valued: shapes that are not understood are recorded as undecided instances, never as violations."""
from . import frontend as fe
from .frontend import kids, strip, walk, callee_name, call_args
from . import flow
from .report import Finding


class NotUnderstood(Exception):
    pass


def rel(p):
    return p[len(fe.REPO) + 1:] if p.startswith(fe.REPO + '/') else p


def is_assign(n):
    return n.get('kind') in ('BinaryOperator', 'CompoundAssignOperator') and n.get('opcode') in ('=', '+=', '-=', '*=', '/=')


def ref_id(n):
    n = strip(n)
    while n.get('kind') == 'ParenExpr':
        n = strip(kids(n)[0])
    if n.get('kind') == 'DeclRefExpr':
        return n['referencedDecl']['id']
    return None


def disjuncts(c):
    c = strip(c)
    while c.get('kind') == 'ParenExpr':
        c = strip(kids(c)[0])
    if c.get('kind') == 'BinaryOperator' and c.get('opcode') == '||':
        return disjuncts(kids(c)[0]) + disjuncts(kids(c)[1])
    return [c]


class Canon:
    """canonical prefix text of an expression; `sub` maps declaration ids to replacement text"""

    def __init__(self, unit, sub, idx_literal=None):
        self.unit = unit
        self.sub = dict(sub)
        self.idx_literal = idx_literal     # integer literal that stands for the initial best index when used as a subscript
        self.names = set()

    def e(self, n, subscript=False):
        n = strip(n)
        k = n.get('kind')
        if k in ('ParenExpr', 'ImplicitCastExpr', 'CStyleCastExpr'):
            return self.e(kids(n)[-1], subscript)
        if k == 'DeclRefExpr':
            d = n['referencedDecl']
            if d['id'] in self.sub:
                return self.sub[d['id']]
            self.names.add(d.get('name'))
            return d.get('name', '?')
        if k == 'IntegerLiteral':
            v = str(int(n.get('value', '0')))
            if subscript and self.idx_literal is not None and v == self.idx_literal:
                return '$k'
            return v
        if k == 'FloatingLiteral':
            try:
                return repr(float(n.get('value')))
            except Exception:
                return str(n.get('value'))
        if k == 'MemberExpr':
            return '%s%s%s' % (self.e(kids(n)[0]), '->' if n.get('isArrow') else '.', n.get('name'))
        if k == 'ArraySubscriptExpr':
            return '%s[%s]' % (self.e(kids(n)[0]), self.e(kids(n)[1], True))
        if k == 'BinaryOperator':
            if n.get('opcode') in ('=', ','):
                raise NotUnderstood('assignment inside an expression')
            return '(%s %s %s)' % (n.get('opcode'), self.e(kids(n)[0]), self.e(kids(n)[1]))
        if k == 'UnaryOperator':
            if n.get('opcode') in ('++', '--'):
                raise NotUnderstood('side effect inside an expression')
            return '(%s %s)' % (n.get('opcode'), self.e(kids(n)[0]))
        if k == 'CallExpr':
            return '%s(%s)' % (callee_name(n) or '?', ','.join(self.e(a) for a in call_args(n)))
        if k == 'ConditionalOperator':
            return '(? %s %s %s)' % tuple(self.e(x) for x in kids(n))
        raise NotUnderstood('expression kind %s' % k)


def writes_var(stmt, vid):
    for x in walk(stmt):
        if is_assign(x) and ref_id(kids(x)[0]) == vid:
            return True
        if x.get('kind') == 'UnaryOperator' and x.get('opcode') in ('++', '--', '&') and ref_id(kids(x)[0]) == vid:
            return True
        if x.get('kind') == 'VarDecl' and x.get('id') == vid and kids(x):
            return True
    return False


def written_names(stmt):
    out = set()
    for x in walk(stmt):
        tgt = None
        if is_assign(x):
            tgt = kids(x)[0]
        elif x.get('kind') == 'UnaryOperator' and x.get('opcode') in ('++', '--'):
            tgt = kids(x)[0]
        elif x.get('kind') == 'CallExpr':
            for a in call_args(x):
                for y in walk(a):
                    if y.get('kind') == 'DeclRefExpr' and not fe.is_float_type(y) and '*' in (y.get('type', {}).get('qualType', '')):
                        out.add(y['referencedDecl'].get('name'))
        if tgt is not None:
            for y in walk(tgt):
                if y.get('kind') == 'DeclRefExpr':
                    out.add(y['referencedDecl'].get('name'))
                    break
    return out


def slice_term(unit, stmts, vid, sub, idx_literal=None):
    """canonical term of scalar `vid` after running `stmts` (a list of sibling statements); returns (term, wrappers, identifiers)
    term is a string; the value of vid inside right-hand sides is replaced by the term built so far."""
    T = None
    cn = Canon(unit, sub, idx_literal)
    skipped = []
    depth = [0]

    def stmt(s):
        nonlocal T
        s = strip(s)
        k = s.get('kind')
        if not writes_var(s, vid):
            if T is not None:
                skipped.append(s)       # only what lies between the definition and its use matters
            return
        if k == 'CompoundStmt':
            for x in kids(s):
                stmt(x)
            return
        if k == 'DeclStmt':
            for vd in kids(s):
                if vd.get('kind') == 'VarDecl' and vd.get('id') == vid and kids(vd):
                    T = cn.e(kids(vd)[-1])
                elif vd.get('kind') == 'VarDecl' and kids(vd) and any(ref_id(y) == vid for y in walk(vd) if y.get('kind') == 'DeclRefExpr'):
                    pass
            return
        if is_assign(s) and ref_id(kids(s)[0]) == vid:
            old = cn.sub.get(vid)
            cn.sub[vid] = T if T is not None else '$undef'
            rhs = cn.e(kids(s)[1])
            if old is None:
                cn.sub.pop(vid, None)
            else:
                cn.sub[vid] = old
            if s['opcode'] == '=':
                T = rhs
            else:
                if T is None:
                    raise NotUnderstood('compound assignment before any definition')
                T = '(%s %s %s)' % (s['opcode'][0], T, rhs)
            return
        if k == 'ForStmt':
            ind = flow.induction(s)
            body = strip(kids(s)[-1])
            inner = [strip(x) for x in kids(body)] if body.get('kind') == 'CompoundStmt' else [body]
            inner = [x for x in inner if x.get('kind') != 'NullStmt']
            if not ind or len(inner) != 1 or not (inner[0].get('kind') == 'CompoundAssignOperator' and inner[0].get('opcode') in ('+=', '-=')
                                                   and ref_id(kids(inner[0])[0]) == vid):
                raise NotUnderstood('loop writing the value is not a plain accumulation')
            if T is None:
                raise NotUnderstood('accumulation before any definition')
            lv = ind['var'].split('#')[1]
            depth[0] += 1
            cn.sub[lv] = '$j%d' % depth[0]
            if any(ref_id(y) == vid for y in walk(kids(inner[0])[1]) if y.get('kind') == 'DeclRefExpr'):
                raise NotUnderstood('accumulated term mentions the accumulator')
            term = cn.e(kids(inner[0])[1])
            hdr = '%s..%s%s/%s' % (ind['init'], ind['op'], cn.e(ind['bound_expr']), ind['step'])
            depth[0] -= 1
            T = '(%s %s sum[%s](%s))' % (inner[0]['opcode'][0], T, hdr, term)
            return
        raise NotUnderstood('statement kind %s writes the value' % k)

    for s in stmts:
        stmt(s)
    if T is None:
        raise NotUnderstood('no definition found')
    # a skipped statement that writes something the term reads makes the textual comparison meaningless
    for s in skipped:
        w = written_names(s)
        if w & cn.names:
            raise NotUnderstood('`%s` is written between the statements that define the value' % sorted(w & cn.names)[0])
    return T


def unwrap(t):
    """'g(x)' -> (g, x) for a single-argument call term, else None"""
    if t.endswith(')') and '(' in t and not t.startswith('('):
        g, rest = t.split('(', 1)
        inner = rest[:-1]
        depth = 0
        for ch in inner:
            if ch == '(':
                depth += 1
            elif ch == ')':
                depth -= 1
                if depth < 0:
                    return None
            elif ch == ',' and depth == 0:
                return None
        if depth == 0 and g.replace('_', '').isalnum():
            return g, inner
    return None


def run(chk, prog, funcs, R, stored=None):
    """R: the OF.argmax rule handle of the caller; stored: name of the container that publishes the scores (clause b), or None"""
    n_inst = 0
    for name in funcs:
        f = prog.funcs.get(name)
        if f is None or f.body is None:
            continue
        pm = flow.parent_map(f.body)
        for n in walk(f.body):
            if n.get('kind') != 'IfStmt':
                continue
            c, t, e = flow.if_parts(n)
            ds = disjuncts(c)
            comps = [d for d in ds if d.get('kind') == 'BinaryOperator' and d.get('opcode') in ('>', '>=', '<', '<=')
                     and fe.is_float_type(strip(kids(d)[0], casts=False)) and fe.is_float_type(strip(kids(d)[1], casts=False))]
            if len(comps) != 1:
                continue
            cs = comps[0]
            a, b = kids(cs)
            ia, ib = ref_id(a), ref_id(b)
            if ia is None or ib is None:
                continue
            loops = flow.enclosing_loops(pm, n)
            ind = flow.induction(loops[0]) if loops else None
            if not ind:
                continue
            loop = loops[0]
            jid = ind['var'].split('#')[1]
            jname = ind['var'].split('#')[0]
            best = None
            upd = {}
            for x in walk(t):
                if is_assign(x) and x.get('opcode') == '=':
                    l, r = kids(x)
                    if ref_id(r) == jid and ref_id(l) is not None:
                        best = strip(l)['referencedDecl']
                    if ref_id(l) in (ia, ib) and ref_id(r) in (ia, ib) and ref_id(l) != ref_id(r):
                        upd[ref_id(l)] = ref_id(r)
            if best is None or len(upd) != 1:
                continue
            rid, cid = list(upd.items())[0]
            refn, candn = (a, b) if ia == rid else (b, a)
            op = cs['opcode'] if ia == cid else {'>': '<', '>=': '<=', '<': '>', '<=': '>='}[cs['opcode']]
            maximise = op in ('>', '>=')
            rname = strip(refn)['referencedDecl'].get('name') if strip(refn).get('kind') == 'DeclRefExpr' else f.unit.text(refn)
            cname = f.unit.text(candn).strip('() ')
            # the candidate has to be computed in this iteration, before the test
            body = strip(kids(loop)[-1])
            stmts = [strip(x) for x in kids(body)] if body.get('kind') == 'CompoundStmt' else [body]
            top = None
            for i_, s in enumerate(stmts):
                if any(y is n for y in walk(s)):
                    top = i_
            if top is None or not any(y is n for y in [stmts[top]]):
                # the test is nested deeper than the loop body's statement list: not this shape
                continue
            before = stmts[:top]
            if not any(writes_var(s, cid) for s in before):
                continue
            n_inst += 1
            where = f.unit.where(n)
            desc = '%s %s: %s -> %s = %s (scalar candidate `%s`, running %s `%s`)' % (
                where, name, f.unit.text(c)[:60], best['name'], jname, cname, 'maximum' if maximise else 'minimum', rname)
            # other disjuncts: first-iteration guards `j == first`
            first_guard = False
            odd = []
            for d in ds:
                if d is cs:
                    continue
                if d.get('kind') == 'BinaryOperator' and d.get('opcode') == '==' and jid in (ref_id(kids(d)[0]), ref_id(kids(d)[1])):
                    other = kids(d)[1] if ref_id(kids(d)[0]) == jid else kids(d)[0]
                    try:
                        from . import exprs
                        if exprs.to_poly(strip(other)) == ind['init']:
                            first_guard = True
                            continue
                    except Exception:
                        pass
                odd.append(d)
            if odd:
                chk.instance(R, desc + ': the condition has a further disjunct `%s` that is not understood' % f.unit.text(odd[0])[:40], 'undecided')
                continue
            verdict, why = None, ''
            # (a) the seed of the reference
            if first_guard:
                verdict = True
                why = 'the first iteration always takes the branch, the seed of the reference is never compared'
            else:
                try:
                    # statements of the enclosing block that precede the loop
                    par = pm.get(id(loop))
                    while par is not None and strip(par).get('kind') != 'CompoundStmt':
                        par = pm.get(id(par))
                    sibs = [strip(x) for x in kids(strip(par))] if par is not None else []
                    li = [i_ for i_, s in enumerate(sibs) if s is loop or any(y is loop for y in kids(s))]
                    if not li:
                        raise NotUnderstood('the loop is not a statement of a block')
                    pre = sibs[:li[0]]
                    # initial best index: last assignment before the loop
                    k0 = None
                    cut = 0
                    for i_, s in enumerate(pre):
                        if writes_var(s, best['id']):
                            cut = i_
                            k0 = s
                    if k0 is None:
                        raise NotUnderstood('the initial best index is not set in the block of the loop')
                    idx_lit = None
                    for x in walk(k0):
                        if is_assign(x) and ref_id(kids(x)[0]) == best['id'] and strip(kids(x)[1]).get('kind') == 'IntegerLiteral':
                            idx_lit = str(int(strip(kids(x)[1])['value']))
                        if x.get('kind') == 'VarDecl' and x.get('id') == best['id'] and kids(x) and strip(kids(x)[-1]).get('kind') == 'IntegerLiteral':
                            idx_lit = str(int(strip(kids(x)[-1])['value']))
                    rslice = [s for s in pre if writes_var(s, rid) or True]
                    # only the statements after the last full (re)definition of the reference matter; slice_term starts from the first
                    # definition it sees, so feed it everything from the declaration on
                    tr = slice_term(f.unit, [s for s in pre], rid, {best['id']: '$k'}, idx_lit)
                    tc = slice_term(f.unit, before, cid, {jid: '$k'})
                    if tr == tc:
                        verdict = True
                        why = 'the reference is seeded with the same function of the initial index as the candidate is of `%s`' % jname
                    else:
                        ur, uc = unwrap(tr), unwrap(tc)
                        lit_r = tr.replace('.', '').replace('-', '').replace('e', '').replace('(', '').replace(')', '').replace(' ', '').isdigit()
                        if ur and ur[1] == tc:
                            verdict = False
                            why = ('the running %s `%s` is seeded with %s(..) of the initial index, but the candidate `%s` is the same quantity without %s(): '
                                   'until the initial index has been displaced the test compares two different scales' % (
                                       'maximum' if maximise else 'minimum', rname, ur[0], cname, ur[0]))
                        elif uc and uc[1] == tr:
                            verdict = False
                            why = ('the candidate `%s` is %s(..) of a quantity, but the running %s `%s` is seeded with that quantity without %s(): '
                                   'until the initial index has been displaced the test compares two different scales' % (
                                       cname, uc[0], 'maximum' if maximise else 'minimum', rname, uc[0]))
                        elif lit_r:
                            why = 'the reference is seeded with the literal %s; whether every candidate lies on the right side of it is not decided here' % tr
                        else:
                            why = 'seed `%s` and candidate `%s` are different terms' % (tr[:60], tc[:60])
                except NotUnderstood as ex:
                    why = 'seed of the reference not understood (%s)' % ex
                except Exception as ex:      # canonicaliser met a shape it does not know
                    why = 'seed of the reference not understood (%s)' % type(ex).__name__
            # (b) the published score
            if stored and verdict is not False:
                for s in stmts:
                    for x in walk(s):
                        if not (is_assign(x) and x.get('opcode') == '='):
                            continue
                        l, r = kids(x)
                        ls = strip(l)
                        if ls.get('kind') != 'ArraySubscriptExpr':
                            continue
                        base_names = {y['referencedDecl'].get('name') for y in walk(ls) if y.get('kind') == 'DeclRefExpr'}
                        if stored not in base_names or not any(ref_id(y) == jid for y in walk(ls) if y.get('kind') == 'DeclRefExpr'):
                            continue
                        if ref_id(r) == cid:
                            continue
                        refs = [y for y in walk(r) if y.get('kind') == 'DeclRefExpr']
                        if any(y['referencedDecl']['id'] == cid for y in refs) and any(y['referencedDecl']['id'] == jid for y in refs):
                            verdict = False
                            why = ('the index is chosen by comparing `%s`, but the score published for the same index is `%s`, which adds a term that '
                                   'depends on `%s`: the chosen index does not maximise the stored score' % (cname, f.unit.text(r)[:60], jname))
            if verdict is True:
                chk.instance(R, desc + ': ' + why)
            elif verdict is False:
                chk.instance(R, desc + ': ' + why, 'refuted')
                chk.violation(Finding('OF.argmax', rel(f.file), name, 'argmax:' + best['name'], where,
                                      '%s: arg-%s search with a scalar candidate: %s' % (name, 'max' if maximise else 'min', why)))
            else:
                chk.instance(R, desc + ': ' + why, 'undecided')
    return n_inst
