"""C14, rule CP.block-shapes: a tensor copy leaves block k of the destination with the row and column counts of block k of the source.

The shape engine (E1) treats the blocks of a tensor as one family and proves the copy loop memory-safe -- the cells are written through the
checked setter, so a destination block that kept a stale shape is not a memory error and escapes S.bounds.  This rule decides the shape
clause itself, from the control structure only: on every path through TensorCopy, the last loop over the blocks that touches `dst->m[k]`
either (re)creates the block with the source counts (NewMatrix / ResizeMatrix with `src->m[k]->row, src->m[k]->col`) or is on a path whose
conditions imply both `rows equal` and `columns equal` (decided by enumerating the truth values of the comparison atoms)."""
import itertools
import re
from . import frontend as fe
from .frontend import kids, strip, walk, callee_name, call_args
from . import flow
from .report import Finding


def rel(p):
    return p[len(fe.REPO) + 1:] if p.startswith(fe.REPO + '/') else p


def _norm(t):
    return re.sub(r'\s+', '', t).replace('(*', '').replace(')', '').replace('(', '')


class Cond:
    """boolean structure over textual atoms"""

    def __init__(self, f):
        self.f = f
        self.atoms = []

    def parse(self, n):
        n = strip(n)
        while n.get('kind') == 'ParenExpr':
            n = strip(kids(n)[0])
        k = n.get('kind')
        if k == 'BinaryOperator' and n.get('opcode') in ('&&', '||'):
            return (n['opcode'], self.parse(kids(n)[0]), self.parse(kids(n)[1]))
        if k == 'UnaryOperator' and n.get('opcode') == '!':
            return ('!', self.parse(kids(n)[0]))
        if k == 'BinaryOperator' and n.get('opcode') in ('==', '!='):
            a, b = sorted(_norm(self.f.unit.text(x)) for x in kids(n))
            key = '%s==%s' % (a, b)
            if key not in self.atoms:
                self.atoms.append(key)
            return ('atom', key) if n['opcode'] == '==' else ('!', ('atom', key))
        key = _norm(self.f.unit.text(n))
        if key not in self.atoms:
            self.atoms.append(key)
        return ('atom', key)

    @staticmethod
    def ev(e, val):
        if e[0] == 'atom':
            return val[e[1]]
        if e[0] == '!':
            return not Cond.ev(e[1], val)
        if e[0] == '&&':
            return Cond.ev(e[1], val) and Cond.ev(e[2], val)
        return Cond.ev(e[1], val) or Cond.ev(e[2], val)


def body_paths(f, stmt, cb):
    """paths through a loop body: list of (conditions [(expr, polarity)], calls [node]) for paths that reach the end or a continue"""
    out = []

    def go(stmts, conds, calls):
        if not stmts:
            out.append((conds, calls))
            return
        s = strip(stmts[0])
        rest = stmts[1:]
        k = s.get('kind')
        if k == 'CompoundStmt':
            go(list(kids(s)) + rest, conds, calls)
        elif k == 'IfStmt':
            c, t, e = flow.if_parts(s)
            pe = cb.parse(c)
            go([t] + rest, conds + [(pe, True)], calls)
            go(([e] if e is not None else []) + rest, conds + [(pe, False)], calls)
        elif k == 'ContinueStmt':
            out.append((conds, calls))
        elif k in ('BreakStmt', 'ReturnStmt'):
            out.append((conds, calls))
        else:
            cs = [n for n in walk(s) if n.get('kind') == 'CallExpr']
            go(rest, conds, calls + cs)
    go([stmt], [], [])
    return out


def run(chk, prog):
    R = chk.rule('CP.block-shapes', 'TensorCopy leaves every block of the destination with the row and column counts of the same block of the source: '
                 'on every path the block is (re)created with the source counts or the path conditions imply that both counts already agree')
    f = prog.funcs.get('TensorCopy')
    if f is None or f.body is None:
        chk.broke('TensorCopy not found')
        return
    pn = [p['name'] for p in f.params]
    src, dst = pn[0], pn[1]

    def touches_dst_block(lp):
        t = _norm(f.unit.text(lp))
        return ('%s->m[' % dst) in t

    # outer paths: sequences of block loops
    seqs = []

    def outer(stmts, acc):
        if not stmts:
            seqs.append(acc)
            return
        s = strip(stmts[0])
        rest = stmts[1:]
        k = s.get('kind')
        if k == 'CompoundStmt':
            outer(list(kids(s)) + rest, acc)
        elif k == 'IfStmt':
            c, t, e = flow.if_parts(s)
            outer([t] + rest, acc)
            outer(([e] if e is not None else []) + rest, acc)
        elif k == 'ForStmt' and touches_dst_block(s):
            outer(rest, acc + [s])
        else:
            outer(rest, acc)
    outer(list(kids(f.body)), [])
    seqs = [q for q in seqs if q]
    if len(seqs) < 2:
        chk.broke('TensorCopy: expected several paths with a loop over the destination blocks, found %d' % len(seqs))
        return
    done = set()
    for q in seqs:
        lp = q[-1]
        if id(lp) in done:
            continue
        done.add(id(lp))
        var = None
        init = strip(kids(lp)[0]) if kids(lp) else {}
        if init.get('kind') == 'BinaryOperator' and init.get('opcode') == '=' and strip(kids(init)[0]).get('kind') == 'DeclRefExpr':
            var = strip(kids(init)[0])['referencedDecl'].get('name')
        if var is None:
            chk.broke('TensorCopy: block loop at %s not understood' % f.unit.where(lp))
            continue
        want_r = _norm('%s->m[%s]->row' % (src, var))
        want_c = _norm('%s->m[%s]->col' % (src, var))
        dblk = _norm('%s->m[%s]' % (dst, var))
        eq_r = '%s==%s' % tuple(sorted((_norm('%s->m[%s]->row' % (dst, var)), want_r)))
        eq_c = '%s==%s' % tuple(sorted((_norm('%s->m[%s]->col' % (dst, var)), want_c)))
        cb = Cond(f)
        paths = body_paths(f, kids(lp)[-1], cb)
        bad = []
        for conds, calls in paths:
            created = False
            for c in calls:
                cn = callee_name(c)
                a = [_norm(f.unit.text(x)) for x in call_args(c)]
                if cn in ('NewMatrix', 'ResizeMatrix') and len(a) == 3 and a[0].lstrip('&') == dblk and a[1] == want_r and a[2] == want_c:
                    created = True
            if created:
                continue
            atoms = list(cb.atoms)
            for a_ in (eq_r, eq_c):
                if a_ not in atoms:
                    atoms.append(a_)
            ok = True
            witness = None
            for vals in itertools.product((True, False), repeat=len(atoms)):
                val = dict(zip(atoms, vals))
                if all(Cond.ev(e, val) == pol for e, pol in conds) and not (val[eq_r] and val[eq_c]):
                    ok = False
                    witness = {k: v for k, v in val.items() if k in (eq_r, eq_c)}
                    break
            if not ok:
                bad.append((conds, witness))
        if not bad:
            chk.instance(R, '%s TensorCopy: every path of the block loop creates/resizes block %s with the source counts or implies equal counts (%d paths)'
                         % (f.unit.where(lp), var, len(paths)))
        for conds, witness in bad:
            which = ' and '.join(('rows' if k == eq_r else 'columns') + (' equal' if v else ' differ') for k, v in sorted(witness.items()))
            chk.instance(R, '%s TensorCopy: a path leaves block %s untouched although %s' % (f.unit.where(lp), var, which), 'refuted')
            chk.violation(Finding('CP.block-shapes', rel(f.file), f.name, 'block-shape', f.unit.where(lp),
                                  'TensorCopy: in the loop over the blocks at %s there is a path that neither creates nor resizes the destination block and is '
                                  'taken when %s: the destination keeps its old shape, so the copy has other counts than the source (stale cells, or the '
                                  'checked setter rejects the extra cells)' % (f.unit.where(lp), which)))
