"""E15: zeroed-output typestate for accumulating kernels.

Several dense kernels only ADD into their output (`p->data[i] += ...`): they compute their definition only when the output holds
zeros on entry.  The set of accumulating (kernel, parameter) pairs is DERIVED from the kernels' own stores (only `+=`/`-=` into
the cells of that parameter, no plain store, no zeroing call), closed under delegation (a kernel that hands its parameter to an
accumulating position without zeroing it first accumulates too).  Zeroing operations are derived as well: functions whose every
cell store into the parameter is the literal 0 and that cover the container (constructors / resizers / Set(.., 0)).

  ACC.zeroed   at every call of an accumulating kernel, on every path from the entry of the calling function (and around every
               enclosing loop), the last operation on the output container is a zeroing one -- otherwise the result is
               previous-content + definition.
Containers are tracked by access path inside one function; a path handed to a function that may write it becomes dirty.  Output
containers received as parameters of the calling function are dirty at entry unless the caller zeroes them (the conditional
"resize only if the size differs" idiom therefore leaves them dirty on one path)."""
from . import frontend as fe
from .frontend import kids, strip, walk, callee_name, call_args
from . import exprs, flow
from .report import Finding

CONTAINERS = ('matrix', 'dvector', 'uivector', 'ivector', 'tensor')


def rel(p):
    return p[len(fe.REPO) + 1:] if p.startswith(fe.REPO + '/') else p


def ctype(q):
    q = (q or '').replace('const', '').strip()
    base = q.replace('*', '').strip()
    return base if base in CONTAINERS else None


def literal_zero(n):
    v = strip(n)
    if v.get('kind') == 'UnaryOperator' and v.get('opcode') in ('+', '-'):
        v = strip(kids(v)[0])
    if v.get('kind') in ('FloatingLiteral', 'IntegerLiteral'):
        try:
            return float(v.get('value')) == 0.0
        except ValueError:
            return False
    return False


def root_param(f, e):
    """index of the parameter an lvalue is rooted in (through ->data[..], (*p), ->m[k]), else None"""
    e = strip(e)
    while True:
        k = e.get('kind')
        if k == 'ArraySubscriptExpr':
            e = strip(kids(e)[0])
        elif k == 'MemberExpr':
            e = strip(kids(e)[0])
        elif k == 'UnaryOperator' and e.get('opcode') in ('*', '&'):
            e = strip(kids(e)[0])
        elif k == 'DeclRefExpr':
            d = e['referencedDecl']
            if d.get('kind') == 'ParmVarDecl':
                ids = [p.get('id') for p in f.params]
                return ids.index(d.get('id')) if d.get('id') in ids else None
            return None
        else:
            return None


class Accum:
    def __init__(self, chk, prog):
        self.chk, self.prog = chk, prog
        self.acc = {}        # (fname, j) -> reason
        self.zero = {}       # (fname, j) -> True
        self._mw = {}

    # ---- summaries ------------------------------------------------------------------------------------------------
    def cell_stores(self, f, j):
        """[(node, opcode)] stores into data cells rooted at parameter j"""
        out = []
        for n in walk(f.body):
            k = n.get('kind')
            if k in ('BinaryOperator', 'CompoundAssignOperator') and (n.get('opcode') or '').endswith('=') and n.get('opcode') not in ('==', '!=', '<=', '>='):
                l = strip(kids(n)[0])
                if l.get('kind') == 'ArraySubscriptExpr' and root_param(f, l) == j and fe.is_float_type(l):
                    out.append((n, n.get('opcode')))
        return out

    def may_write(self, g, j, depth=0):
        key = (g.name, j)
        if key in self._mw:
            return self._mw[key]
        self._mw[key] = True
        if g.body is None or depth > 6:
            return True
        res = False
        for n in walk(g.body):
            k = n.get('kind')
            if k in ('BinaryOperator', 'CompoundAssignOperator') and (n.get('opcode') or '').endswith('=') and n.get('opcode') not in ('==', '!=', '<=', '>='):
                l = strip(kids(n)[0])
                if l.get('kind') in ('ArraySubscriptExpr', 'MemberExpr') and root_param(g, l) == j:
                    res = True
            elif k == 'UnaryOperator' and n.get('opcode') in ('++', '--') and root_param(g, kids(n)[0]) == j and strip(kids(n)[0]).get('kind') != 'DeclRefExpr':
                res = True
            elif k == 'CallExpr':
                cn = callee_name(n)
                g2 = self.prog.funcs.get(cn) if cn else None
                for i2, a in enumerate(call_args(n)):
                    if root_param(g, a) != j or '*' not in fe.qual(strip(a, casts=False)):
                        continue
                    if g2 is None or g2.body is None:
                        if cn not in ('printf', 'fprintf', 'puts'):
                            res = True
                    elif self.may_write(g2, i2, depth + 1):
                        res = True
            if res:
                break
        self._mw[key] = res
        return res

    def derive(self, units):
        funcs = [f for f in self.prog.all_funcs() if f.unit.name in units and f.body is not None]
        # zeroers: every float cell store into the parameter is a literal zero (at least one), no other writer call on it
        for f in funcs:
            for j, p in enumerate(f.params):
                if not ctype((p.get('type') or {}).get('qualType')):
                    continue
                st = self.cell_stores(f, j)
                if st and all(op == '=' and literal_zero(kids(n)[1]) for n, op in st):
                    self.zero[(f.name, j)] = True
        # Set(container, value): zeroing when the value argument is a literal zero at the call (handled at call sites)
        # accumulators: only += / -= stores, never '='
        for f in funcs:
            for j, p in enumerate(f.params):
                if not ctype((p.get('type') or {}).get('qualType')):
                    continue
                st = self.cell_stores(f, j)
                if st and all(op in ('+=', '-=', '*=', '/=') for n, op in st) and any(op in ('+=', '-=') for n, op in st) and not self.zeroes_inside(f, j):
                    self.acc[(f.name, j)] = 'only `+=` stores at %s' % ', '.join(sorted({f.unit.where(n) for n, op in st if op in ('+=', '-=')})[:3])
        # delegation closure
        changed = True
        while changed:
            changed = False
            for f in funcs:
                for j, p in enumerate(f.params):
                    if (f.name, j) in self.acc or not ctype((p.get('type') or {}).get('qualType')):
                        continue
                    if any(op not in ('*=', '/=') for n, op in self.cell_stores(f, j)) or self.zeroes_inside(f, j):
                        continue
                    for cn, node in f.calls:
                        for i2, a in enumerate(call_args(node)):
                            if (cn, i2) in self.acc and root_param(f, a) == j and strip(a).get('kind') == 'DeclRefExpr':
                                self.acc[(f.name, j)] = 'hands the parameter to %s' % cn
                                changed = True

    def zeroes_inside(self, f, j):
        for cn, node in f.calls:
            for i2, a in enumerate(call_args(node)):
                if root_param(f, a) == j and ((cn, i2) in self.zero or self.is_set_zero(cn, node, i2)):
                    return True
        return False

    @staticmethod
    def is_set_zero(cn, node, i2):
        if cn in ('DVectorSet', 'MatrixSet', 'UIVectorSet', 'IVectorSet', 'TensorSet') and i2 == 0:
            a = call_args(node)
            return len(a) == 2 and literal_zero(a[1])
        return False

    # ---- per-function typestate --------------------------------------------------------------------------------------
    def path(self, f, e):
        e = strip(e)
        if e.get('kind') == 'UnaryOperator' and e.get('opcode') == '&':
            e = strip(kids(e)[0])
        return exprs.path_of(e, byname=True)

    def analyse(self, f):
        self.f = f
        self.reported = set()
        state = {}
        self.block(kids(f.body), state, report=True)

    def block(self, stmts, state, report):
        for s in stmts:
            self.stmt(s, state, report)

    def stmt(self, s, state, report):
        s0 = strip(s)
        k = s0.get('kind')
        if k == 'CompoundStmt':
            self.block(kids(s0), state, report)
        elif k == 'IfStmt':
            ks = kids(s0)
            self.expr(ks[0], state, report)
            a, b = dict(state), dict(state)
            self.stmt(ks[1], a, report)
            if len(ks) > 2:
                self.stmt(ks[2], b, report)
            state.clear()
            for p in set(a) | set(b):
                state[p] = 'zero' if a.get(p) == 'zero' and b.get(p) == 'zero' else 'dirty'
        elif k == 'ForStmt' and self.zero_loop(s0) is not None:
            pz = self.zero_loop(s0)
            for c in kids(s0):
                self.expr(c, state, report)
            state[pz] = 'zero'
        elif k in ('ForStmt', 'WhileStmt', 'DoStmt'):
            body = kids(s0)[-1] if k != 'DoStmt' else kids(s0)[0]
            others = [c for c in kids(s0) if c is not body and c.get('kind')]
            for c in others:
                self.expr(c, state, report)
            # first pass silently to learn what the body dirties, then the reporting pass from the joined head state
            first = dict(state)
            self.stmt(body, first, report=False)
            head = {}
            for p in set(state) | set(first):
                head[p] = 'zero' if state.get(p) == 'zero' and first.get(p, state.get(p)) == 'zero' else ('dirty' if (p in first or p in state) else None)
            # paths never mentioned before the loop but dirtied in it are dirty at the head of later iterations
            work = dict(head)
            self.stmt(body, work, report)
            state.clear()
            for p in set(head) | set(work):
                state[p] = 'zero' if head.get(p) == 'zero' and work.get(p) == 'zero' else 'dirty'
        elif k == 'SwitchStmt':
            base = dict(state)
            outs = []
            for c in kids(s0)[1:]:
                st = dict(base)
                self.stmt(c, st, report)
                outs.append(st)
            state.clear()
            for p in set().union(*[set(o) for o in outs]) if outs else ():
                state[p] = 'zero' if all(o.get(p) == 'zero' for o in outs) else 'dirty'
        elif k in ('CaseStmt', 'DefaultStmt', 'LabelStmt'):
            for c in kids(s0):
                self.stmt(c, state, report)
        elif k in ('DeclStmt',):
            for vd in kids(s0):
                if vd.get('kind') == 'VarDecl' and kids(vd):
                    self.expr(kids(vd)[-1], state, report)
        elif k in ('BreakStmt', 'ContinueStmt', 'NullStmt', 'ReturnStmt', None):
            for c in kids(s0):
                self.expr(c, state, report)
        else:
            self.expr(s0, state, report)

    def zero_loop(self, loop):
        """path P if the loop is  for(i = 0; i < P->size; i++){ ... P->data[i] = 0; }  with that store the last statement touching P"""
        ind = flow.induction(loop)
        if ind is None or ind['step'].const_value() != 1 or ind['op'] != '<' or str(ind['init']) != '0':
            return None
        init, cond, inc, body = flow.for_parts(loop)
        var = ind['var'].split('#')[0]
        stmts = [strip(x) for x in (kids(body) if body.get('kind') == 'CompoundStmt' else [body])]
        if not stmts or any(x.get('kind') in ('ForStmt', 'WhileStmt', 'IfStmt', 'DoStmt') for x in stmts):
            return None
        last = stmts[-1]
        if not (last.get('kind') == 'BinaryOperator' and last.get('opcode') == '=' and literal_zero(kids(last)[1])):
            return None
        l = strip(kids(last)[0])
        if l.get('kind') != 'ArraySubscriptExpr' or exprs.path_of(kids(l)[1], byname=True) != var:
            return None
        b = strip(kids(l)[0])
        if not (b.get('kind') == 'MemberExpr' and b.get('name') == 'data'):
            return None
        P = exprs.path_of(kids(b)[0], byname=True)
        if P is None or exprs.text_key(ind['bound_expr']) != '%s->size' % P:
            return None
        # no call in the body may write P
        for x in stmts:
            for c in walk(x):
                if c.get('kind') == 'CallExpr':
                    return None
        return P

    def expr(self, n, state, report):
        # calls in evaluation order (approximated by source order)
        for x in walk(n):
            k = x.get('kind')
            if k == 'CallExpr':
                self.call(x, state, report)
            elif k in ('BinaryOperator', 'CompoundAssignOperator') and (x.get('opcode') or '').endswith('=') and x.get('opcode') not in ('==', '!=', '<=', '>='):
                l = strip(kids(x)[0])
                if l.get('kind') == 'ArraySubscriptExpr':
                    b = l
                    while b.get('kind') == 'ArraySubscriptExpr':
                        b = strip(kids(b)[0])
                    if b.get('kind') == 'MemberExpr' and b.get('name') == 'data':
                        p = exprs.path_of(kids(b)[0], byname=True)
                        if p:
                            state[p] = 'dirty'

    def call(self, n, state, report):
        cn = callee_name(n)
        a = call_args(n)
        g = self.prog.funcs.get(cn) if cn else None
        # 1. obligations
        for i2, arg in enumerate(a):
            if (cn, i2) in self.acc:
                p = self.path(self.f, arg)
                if p is None:
                    continue
                rp = root_param(self.f, arg)
                if rp is not None and (self.f.name, rp) in self.acc and strip(arg).get('kind') == 'DeclRefExpr':
                    continue        # a delegating kernel: the obligation is its callers'
                st = state.get(p)
                key = (fe.begin(n) or {}).get('offset')
                if report and key not in self.reported:
                    self.reported.add(key)
                    self.sites += 1
                    desc = '%s %s: %s(... %s ...)' % (self.f.unit.where(n), self.f.name, cn, p)
                    if st == 'zero':
                        self.chk.instance('ACC.zeroed', desc + ': output zeroed on every path')
                    elif st is None and rp is not None:
                        # an output parameter this function never touches before the call: zeroing it may be the caller's contract
                        self.chk.instance('ACC.zeroed', desc + ': output parameter passed through untouched (caller\'s obligation)', 'undecided')
                    else:
                        why = 'is never zeroed in %s before this call' % self.f.name if st is None else \
                              'was written (or not zeroed on some path, or by an earlier iteration of an enclosing loop) since it was last zeroed'
                        self.chk.instance('ACC.zeroed', desc + ': output not provably zero', 'refuted')
                        self.chk.violation(Finding('ACC.zeroed', rel(self.f.file), self.f.name, 'acc:%s:%s' % (cn, p), self.f.unit.where(n),
                                                   '%s: %s only adds into its output (%s) but `%s` %s: the result is the old content plus the '
                                                   'definition' % (self.f.name, cn, self.acc[(cn, i2)], p, why)))
        # 2. effects
        for i2, arg in enumerate(a):
            p = self.path(self.f, arg)
            if p is None:
                continue
            q = fe.qual(strip(arg, casts=False))
            if not (ctype(q.replace('*', '', 1) if q.count('*') == 2 else q) or ctype(q)):
                continue
            if (cn, i2) in self.zero or self.is_set_zero(cn, n, i2):
                state[p] = 'zero'
            elif g is None or g.body is None:
                if cn not in ('printf', 'fprintf', 'puts'):
                    state[p] = 'dirty'
            elif self.may_write(g, i2):
                state[p] = 'dirty'


def run(chk, prog, kernel_units, caller_units):
    R = chk.rule('ACC.zeroed', 'every call of a kernel that only adds into its output passes an output that was zeroed on every path since it '
                 'was last written (constructors / resizers / Set(.., 0)), also around enclosing loops')
    ac = Accum(chk, prog)
    ac.derive(kernel_units)
    ac.sites = 0
    chk.extra['accumulating_kernels'] = sorted('%s#%d' % k for k in ac.acc)
    chk.extra['zeroing_operations'] = sorted('%s#%d' % k for k in ac.zero)
    for f in prog.all_funcs():
        if f.unit.name in caller_units and f.body is not None:
            ac.analyse(f)
    return ac
